//! C31: row records round-trip through the record format.
//!
//! Real `RecordBuilder` -> bytes -> real `RecordView` on generated schemas (1..64 columns, all 32
//! `DataType`s, CHAR(n)/VARCHAR(n), nested composites, arrays) and generated rows (NULLs, boundary
//! values, empty / TOAST-threshold / 64 KiB-filling variable data). Oracle = the generated row itself.
//!
//! Sub-assertions
//!   build_ok            every setter and `build()` succeed on a row that fits the schema
//!   format_invariants   header_len / total length follow the documented layout
//!   null_flag           `is_null(i)` == the row's NULL-ness
//!   getter_round_trip   the typed getter returns the value that was set (floats by bits)
//!   opt_getter          `get_*_opt` is `None` exactly for NULL columns and `Some(same)` otherwise
//!   reset_rebuild       dirty builder + `reset()` + same setters == fresh builder, byte for byte
//!                       (also `build_into`, `RecordBuilderState` round trip)
//!   owned_glue          OwnedValue::build_record_{from_values,with_builder,into_buffer} agree
//!                       byte for byte and the record reads back as the row
//!   owned_extract       OwnedValue::from_record_column / extract_row_from_record return the row
//!   array / composite   ArrayBuilder/ArrayView and CompositeView embedded in a column
//!   oversize_var_data   (outside the u16 offset domain) build() must reject or still round-trip
//!   no_panic            nothing above panics
use crate::report::{catch, panic_site, Ctx};
use crate::rng::{fnv, Rng};
use crate::Args;
use serde_json::{json, Value as J};
use turdb::records::{
    ArrayBuilder, ColumnDef, DataType, JsonbBuilder, Range, RecordBuilder, RecordView, Schema,
};
use turdb::types::OwnedValue;

const MAX_VAR: usize = 65535; // u16 end offsets in the record header

const ALL_TYPES: [DataType; 32] = [
    DataType::Bool,
    DataType::Int2,
    DataType::Int4,
    DataType::Int8,
    DataType::Float4,
    DataType::Float8,
    DataType::Date,
    DataType::Time,
    DataType::Timestamp,
    DataType::TimestampTz,
    DataType::Uuid,
    DataType::MacAddr,
    DataType::Inet4,
    DataType::Inet6,
    DataType::Text,
    DataType::Blob,
    DataType::Vector,
    DataType::Jsonb,
    DataType::Varchar,
    DataType::Char,
    DataType::Decimal,
    DataType::Interval,
    DataType::Int4Range,
    DataType::Int8Range,
    DataType::DateRange,
    DataType::TimestampRange,
    DataType::Enum,
    DataType::Point,
    DataType::Box,
    DataType::Circle,
    DataType::Composite,
    DataType::Array,
];

const ELEM_TYPES: [DataType; 8] = [
    DataType::Int2,
    DataType::Int4,
    DataType::Int8,
    DataType::Float4,
    DataType::Float8,
    DataType::Bool,
    DataType::Text,
    DataType::Blob,
];

#[derive(Clone, Debug)]
struct Col {
    dt: DataType,
    clen: Option<u32>,
    nested: Vec<Col>,
    elem: DataType,
}

#[derive(Clone, Debug)]
enum El {
    I16(i16),
    I32(i32),
    I64(i64),
    F32(f32),
    F64(f64),
    B(bool),
    S(String),
    Y(Vec<u8>),
}

type R32 = Option<(Option<i32>, Option<i32>, bool, bool)>; // None = empty range
type R64 = Option<(Option<i64>, Option<i64>, bool, bool)>;

#[derive(Clone, Debug)]
enum V {
    /// bool: call set_null explicitly (true) or leave the column untouched (false)
    Null(bool),
    Bool(bool),
    I16(i16),
    I32(i32),
    I64(i64),
    F32(f32),
    F64(f64),
    TsTz(i64, i32),
    B16([u8; 16]),
    B6([u8; 6]),
    B4([u8; 4]),
    Interval(i64, i32, i32),
    Point(f64, f64),
    GBox((f64, f64), (f64, f64)),
    Circle((f64, f64), f64),
    Enum(u16, u16),
    R32(R32),
    R64(R64),
    Str(String),
    Bytes(Vec<u8>),
    Vec32(Vec<f32>),
    /// bytes, Some(seed) = set through set_jsonb(&JsonbBuilder) built from the seed
    Json(Vec<u8>, Option<u64>),
    Dec(i128, i16, bool),
    Comp(Vec<V>, Vec<u8>),
    Arr(Vec<Option<El>>, Vec<u8>),
}

impl V {
    fn is_null(&self) -> bool {
        matches!(self, V::Null(_))
    }
}

fn is_fixed(dt: DataType) -> bool {
    dt.fixed_size().is_some()
}

fn mk_schema(cols: &[Col]) -> Schema {
    let defs = cols
        .iter()
        .enumerate()
        .map(|(i, c)| match c.dt {
            DataType::Char => ColumnDef::new_char(format!("c{}", i), c.clen.unwrap_or(1)),
            DataType::Varchar => ColumnDef::new_varchar(format!("c{}", i), c.clen),
            dt => ColumnDef::new(format!("c{}", i), dt),
        })
        .collect();
    Schema::new(defs)
}

// ---------------------------------------------------------------- generators

fn gen_i64(rng: &mut Rng) -> i64 {
    match rng.below(4) {
        0 => *rng.pick(&[0i64, 1, -1, i64::MIN, i64::MAX, i64::MIN + 1, i64::MAX - 1, 255, 256, -256, 65535, 65536, i32::MAX as i64, i32::MAX as i64 + 1, i32::MIN as i64, i32::MIN as i64 - 1]),
        1 => rng.next() as i64,
        _ => {
            let sh = rng.below(64);
            let v = (rng.next() >> sh) as i64;
            if rng.chance(1, 2) {
                v.wrapping_neg()
            } else {
                v
            }
        }
    }
}
fn gen_i32(rng: &mut Rng) -> i32 {
    match rng.below(3) {
        0 => *rng.pick(&[0i32, 1, -1, i32::MIN, i32::MAX, i32::MIN + 1, i32::MAX - 1, 255, 256, 65535, 65536, -65536]),
        1 => rng.next() as i32,
        _ => ((rng.next() as u32) >> rng.below(32)) as i32,
    }
}
fn gen_i16(rng: &mut Rng) -> i16 {
    match rng.below(3) {
        0 => *rng.pick(&[0i16, 1, -1, i16::MIN, i16::MAX, 255, 256, -256]),
        _ => rng.next() as i16,
    }
}
fn gen_f64(rng: &mut Rng) -> f64 {
    match rng.below(3) {
        0 => f64::from_bits(*rng.pick(&[
            0u64,
            0x8000_0000_0000_0000,          // -0.0
            0x7FF8_0000_0000_0000,          // NaN
            0xFFF8_0000_0000_0000,          // -NaN
            0x7FF0_0000_0000_0001,          // signalling NaN
            0x7FFF_FFFF_FFFF_FFFF,          // NaN, full payload
            0x7FF0_0000_0000_0000,          // +inf
            0xFFF0_0000_0000_0000,          // -inf
            0x0000_0000_0000_0001,          // smallest subnormal
            0x0010_0000_0000_0000,          // MIN_POSITIVE
            0x7FEF_FFFF_FFFF_FFFF,          // MAX
            0xFFEF_FFFF_FFFF_FFFF,          // MIN
            0x3FF0_0000_0000_0000,          // 1.0
        ])),
        1 => f64::from_bits(rng.next()),
        _ => (rng.f64() - 0.5) * 10f64.powi(rng.range(-20, 20) as i32),
    }
}
fn gen_f32(rng: &mut Rng) -> f32 {
    match rng.below(3) {
        0 => f32::from_bits(*rng.pick(&[0u32, 0x8000_0000, 0x7FC0_0000, 0xFFC0_0000, 0x7F80_0001, 0x7FFF_FFFF, 0x7F80_0000, 0xFF80_0000, 1, 0x0080_0000, 0x7F7F_FFFF, 0xFF7F_FFFF, 0x3F80_0000])),
        1 => f32::from_bits(rng.next() as u32),
        _ => ((rng.f64() - 0.5) * 10f64.powi(rng.range(-10, 10) as i32)) as f32,
    }
}
fn gen_arr<const N: usize>(rng: &mut Rng) -> [u8; N] {
    let mut a = [0u8; N];
    match rng.below(4) {
        0 => {}
        1 => a = [0xFF; N],
        _ => {
            let b = rng.bytes(N);
            a.copy_from_slice(&b);
        }
    }
    a
}

/// valid UTF-8 string of at most `max_bytes` bytes (and at most `max_chars` chars)
fn gen_string(rng: &mut Rng, max_bytes: usize, max_chars: usize) -> String {
    let style = rng.below(6);
    let mut s = String::new();
    if style == 5 && max_bytes >= 64 {
        // bulk filler: cheap for very long strings
        let unit = *rng.pick(&["a", "xy ", "\u{e9}", "\u{4e2d}", "\u{1F600}"]);
        let ulen = unit.len();
        let n = (max_bytes / ulen).min(max_chars / unit.chars().count());
        return unit.repeat(n);
    }
    let mut chars = 0;
    loop {
        if chars >= max_chars {
            break;
        }
        let ch: char = match style {
            0 => (b'a' + rng.below(26) as u8) as char,
            1 => *rng.pick(&['\0', ' ', '\t', '\n', '\'', '"', '\\', '%', '_', 'A', '\u{7f}']),
            2 => *rng.pick(&['\u{e9}', '\u{df}', '\u{4e2d}', '\u{1F600}', '\u{10FFFF}', '\u{80}', '\u{7ff}', '\u{800}', '\u{ffff}', 'z']),
            3 => ' ',
            _ => match rng.below(4) {
                0 => (0x20 + rng.below(0x5f) as u8) as char,
                1 => char::from_u32(0x80 + rng.below(0x700) as u32).unwrap_or('?'),
                2 => char::from_u32(0x800 + rng.below(0xD000 - 0x800) as u32).unwrap_or('?'),
                _ => char::from_u32(0x10000 + rng.below(0x100000) as u32).unwrap_or('?'),
            },
        };
        if s.len() + ch.len_utf8() > max_bytes {
            break;
        }
        s.push(ch);
        chars += 1;
    }
    s
}

fn gen_bytes(rng: &mut Rng, n: usize) -> Vec<u8> {
    let mut b = match rng.below(5) {
        0 => vec![0u8; n],
        1 => vec![0xFFu8; n],
        2 => vec![0xFEu8; n],
        _ => rng.bytes(n),
    };
    // a 17-byte value starting with 0xFE *is* the documented TOAST pointer format; never produce
    // one by accident, the glue would (by design) report it as a pointer
    if b.len() == 17 && b[0] == 0xFE {
        b[0] = 0x7E;
    }
    b
}

/// length distribution for variable data: empty, tiny, small, around the TOAST threshold, up to cap
fn pick_len(rng: &mut Rng, cap: usize) -> usize {
    let l = match rng.below(16) {
        0 | 1 => 0,
        2..=7 => rng.usize(1, 16),
        8..=11 => rng.usize(17, 300),
        12 | 13 => rng.usize(990, 2100),
        _ => rng.usize(0, cap.max(1)),
    };
    l.min(cap)
}

fn mk_json(seed: u64) -> JsonbBuilder {
    let mut r = Rng::new(seed);
    match r.below(6) {
        0 => JsonbBuilder::new_null(),
        1 => JsonbBuilder::new_bool(r.chance(1, 2)),
        2 => JsonbBuilder::new_number(r.f64() * 1e6 - 5e5),
        3 => JsonbBuilder::new_string(gen_string(&mut r, 24, 24)),
        4 => {
            let mut a = JsonbBuilder::new_array();
            for _ in 0..r.below(6) {
                match r.below(3) {
                    0 => a.push(r.next() as i64 >> 20),
                    1 => a.push(r.chance(1, 2)),
                    _ => a.push(gen_string(&mut r, 8, 8)),
                }
            }
            a
        }
        _ => {
            let mut o = JsonbBuilder::new_object();
            for k in 0..r.below(6) {
                let key = format!("k{}{}", k, gen_string(&mut r, 4, 4));
                match r.below(3) {
                    0 => o.set(key, r.f64()),
                    1 => o.set(key, r.chance(1, 2)),
                    _ => o.set(key, gen_string(&mut r, 12, 12)),
                }
            }
            o
        }
    }
}

fn gen_col(rng: &mut Rng, dt: DataType, depth: usize) -> Col {
    let mut c = Col { dt, clen: None, nested: vec![], elem: DataType::Int4 };
    match dt {
        DataType::Char => c.clen = Some(*rng.pick(&[1u32, 2, 3, 8, 10, 32, 255])),
        DataType::Varchar => {
            c.clen = if rng.chance(1, 3) { None } else { Some(*rng.pick(&[1u32, 5, 16, 255, 1000, 70000])) }
        }
        DataType::Array => c.elem = *rng.pick(&ELEM_TYPES),
        DataType::Composite => {
            let n = rng.usize(1, 9);
            for _ in 0..n {
                let mut ndt = *rng.pick(&ALL_TYPES);
                if ndt == DataType::Composite && depth >= 2 {
                    ndt = DataType::Int4;
                }
                c.nested.push(gen_col(rng, ndt, depth + 1));
            }
        }
        _ => {}
    }
    c
}

fn gen_schema(rng: &mut Rng, ncols: usize) -> Vec<Col> {
    let style = rng.below(8);
    let fixed: Vec<DataType> = ALL_TYPES.iter().cloned().filter(|d| is_fixed(*d)).collect();
    let var: Vec<DataType> = ALL_TYPES.iter().cloned().filter(|d| !is_fixed(*d)).collect();
    let one = *rng.pick(&ALL_TYPES);
    let rot = rng.below(32) as usize;
    (0..ncols)
        .map(|i| {
            let dt = match style {
                0 => *rng.pick(&fixed),
                1 => *rng.pick(&var),
                2 => one,
                3 => ALL_TYPES[(i + rot) % 32],
                4 => *rng.pick(&[DataType::Text, DataType::Blob, DataType::Varchar, DataType::Int8, DataType::Bool]),
                _ => *rng.pick(&ALL_TYPES),
            };
            gen_col(rng, dt, 0)
        })
        .collect()
}

fn elem_fixed_size(dt: DataType) -> usize {
    dt.fixed_size().unwrap_or(0)
}

fn build_array(elem: DataType, els: &[Option<El>]) -> Vec<u8> {
    let mut b = ArrayBuilder::new(elem);
    push_array(&mut b, els);
    b.build()
}
fn push_array(b: &mut ArrayBuilder, els: &[Option<El>]) {
    for e in els {
        match e {
            None => b.push_null(),
            Some(El::I16(v)) => b.push_int2(*v),
            Some(El::I32(v)) => b.push_int4(*v),
            Some(El::I64(v)) => b.push_int8(*v),
            Some(El::F32(v)) => b.push_float4(*v),
            Some(El::F64(v)) => b.push_float8(*v),
            Some(El::B(v)) => b.push_bool(*v),
            Some(El::S(v)) => b.push_text(v),
            Some(El::Y(v)) => b.push_blob(v),
        }
    }
}

/// Generate a non-NULL value of column `c` whose variable-size encoding is <= cap bytes;
/// returns None if nothing of that type fits in `cap`.
fn gen_value(rng: &mut Rng, c: &Col, cap: usize, small: bool) -> Option<V> {
    let vcap = if small { cap.min(48) } else { cap };
    Some(match c.dt {
        DataType::Bool => V::Bool(rng.chance(1, 2)),
        DataType::Int2 => V::I16(gen_i16(rng)),
        DataType::Int4 | DataType::Date => V::I32(gen_i32(rng)),
        DataType::Int8 | DataType::Time | DataType::Timestamp => V::I64(gen_i64(rng)),
        DataType::Float4 => V::F32(gen_f32(rng)),
        DataType::Float8 => V::F64(gen_f64(rng)),
        DataType::TimestampTz => V::TsTz(gen_i64(rng), gen_i32(rng)),
        DataType::Uuid | DataType::Inet6 => V::B16(gen_arr::<16>(rng)),
        DataType::MacAddr => V::B6(gen_arr::<6>(rng)),
        DataType::Inet4 => V::B4(gen_arr::<4>(rng)),
        DataType::Interval => V::Interval(gen_i64(rng), gen_i32(rng), gen_i32(rng)),
        DataType::Point => V::Point(gen_f64(rng), gen_f64(rng)),
        DataType::Box => V::GBox((gen_f64(rng), gen_f64(rng)), (gen_f64(rng), gen_f64(rng))),
        DataType::Circle => V::Circle((gen_f64(rng), gen_f64(rng)), gen_f64(rng)),
        DataType::Enum => V::Enum(rng.next() as u16, *rng.pick(&[0u16, 1, 255, 256, 65535])),
        DataType::Int4Range | DataType::DateRange => V::R32(if rng.chance(1, 6) {
            None
        } else {
            Some((
                if rng.chance(1, 4) { None } else { Some(gen_i32(rng)) },
                if rng.chance(1, 4) { None } else { Some(gen_i32(rng)) },
                rng.chance(1, 2),
                rng.chance(1, 2),
            ))
        }),
        DataType::Int8Range | DataType::TimestampRange => V::R64(if rng.chance(1, 6) {
            None
        } else {
            Some((
                if rng.chance(1, 4) { None } else { Some(gen_i64(rng)) },
                if rng.chance(1, 4) { None } else { Some(gen_i64(rng)) },
                rng.chance(1, 2),
                rng.chance(1, 2),
            ))
        }),
        DataType::Text => {
            let l = pick_len(rng, vcap);
            V::Str(gen_string(rng, l, usize::MAX))
        }
        DataType::Varchar => {
            let l = pick_len(rng, vcap);
            V::Str(gen_string(rng, l, c.clen.map(|n| n as usize).unwrap_or(usize::MAX)))
        }
        DataType::Char => {
            // padded to clen chars with 1-byte spaces: worst case 4*clen bytes
            let n = c.clen.unwrap_or(1) as usize;
            if vcap < n {
                return None;
            }
            // leave room for the padding: bytes(s) + (n - chars(s)) <= vcap
            let nchars = rng.usize(0, n);
            let mut s = gen_string(rng, vcap.min(4 * n), nchars);
            while s.len() + (n - s.chars().count()) > vcap {
                s.pop();
            }
            V::Str(s)
        }
        DataType::Blob => {
            let l = pick_len(rng, vcap);
            V::Bytes(gen_bytes(rng, l))
        }
        DataType::Vector => {
            if vcap < 4 {
                return None;
            }
            let maxn = (vcap - 4) / 4;
            let n = match rng.below(8) {
                0 => 0,
                1 => maxn.min(1536),
                2 => maxn,
                _ => rng.usize(0, 16).min(maxn),
            };
            V::Vec32((0..n).map(|_| gen_f32(rng)).collect())
        }
        DataType::Jsonb => {
            let seed = rng.next();
            let bytes = mk_json(seed).build();
            if bytes.len() <= vcap {
                V::Json(bytes, if rng.chance(1, 2) { Some(seed) } else { None })
            } else if vcap >= 4 {
                V::Json(JsonbBuilder::new_null().build(), None)
            } else {
                return None;
            }
        }
        DataType::Decimal => {
            if vcap < 19 {
                return None;
            }
            let digits: i128 = match rng.below(4) {
                0 => *rng.pick(&[0i128, 1, -1, i128::MAX, i128::MIN, i64::MAX as i128 + 1]),
                1 => ((rng.next() as u128) << 64 | rng.next() as u128) as i128,
                _ => gen_i64(rng) as i128,
            };
            V::Dec(digits, gen_i16(rng), rng.chance(1, 2))
        }
        DataType::Composite => {
            let ns = mk_schema(&c.nested);
            let header = 2 + c.nested.len().div_ceil(8) + 2 * ns.var_column_count();
            let base = header + ns.total_fixed_size();
            if vcap < base {
                return None;
            }
            let vals = gen_row(rng, &c.nested, (vcap - base).min(400), RowClass::Small);
            let bytes = build_direct(&ns, &c.nested, &vals, None).ok()?;
            if bytes.len() > vcap {
                return None;
            }
            V::Comp(vals, bytes)
        }
        DataType::Array => {
            let esz = elem_fixed_size(c.elem);
            let var = esz == 0;
            let maxn = if rng.chance(1, 10) { 3000 } else { 24 };
            let want = rng.usize(0, maxn);
            let mut els: Vec<Option<El>> = vec![];
            let mut payload = 0usize;
            for _ in 0..want {
                let e = if rng.chance(1, 5) {
                    None
                } else {
                    Some(match c.elem {
                        DataType::Int2 => El::I16(gen_i16(rng)),
                        DataType::Int4 => El::I32(gen_i32(rng)),
                        DataType::Int8 => El::I64(gen_i64(rng)),
                        DataType::Float4 => El::F32(gen_f32(rng)),
                        DataType::Float8 => El::F64(gen_f64(rng)),
                        DataType::Bool => El::B(rng.chance(1, 2)),
                        DataType::Text => {
                            let l = rng.usize(0, 12);
                            El::S(gen_string(rng, l, usize::MAX))
                        }
                        _ => {
                            let l = rng.usize(0, 12);
                            El::Y(rng.bytes(l))
                        }
                    })
                };
                let add = match &e {
                    Some(El::S(s)) => s.len(),
                    Some(El::Y(y)) => y.len(),
                    _ => esz, // fixed: nulls occupy a zeroed slot; var nulls: 0
                };
                let n1 = els.len() + 1;
                let total = 8 + n1.div_ceil(8) + if var { 4 * n1 } else { 0 } + payload + add;
                if total > vcap {
                    break;
                }
                payload += add;
                els.push(e);
            }
            if vcap < 8 {
                return None;
            }
            let bytes = build_array(c.elem, &els);
            if bytes.len() > vcap {
                return None;
            }
            V::Arr(els, bytes)
        }
    })
}

fn var_size(c: &Col, v: &V) -> usize {
    match v {
        V::Str(s) => {
            if c.dt == DataType::Char {
                let n = c.clen.unwrap_or(1) as usize;
                s.len() + n.saturating_sub(s.chars().count())
            } else {
                s.len()
            }
        }
        V::Bytes(b) => b.len(),
        V::Vec32(x) => 4 + 4 * x.len(),
        V::Json(b, _) => b.len(),
        V::Dec(..) => 19,
        V::Comp(_, b) => b.len(),
        V::Arr(_, b) => b.len(),
        _ => 0,
    }
}

#[derive(Clone, Copy, Debug, PartialEq)]
enum RowClass {
    Small,
    Medium,
    Huge,
    /// total variable bytes == exactly 65535 (or 65534) where the schema allows
    Exact,
}

fn gen_row(rng: &mut Rng, cols: &[Col], budget: usize, class: RowClass) -> Vec<V> {
    let null_p = *rng.pick(&[0u64, 0, 1, 4, 7, 8]); // out of 8
    let mut remaining = budget;
    let mut idx: Vec<usize> = (0..cols.len()).collect();
    rng.shuffle(&mut idx); // so that the budget is not always eaten by the first columns
    let mut out: Vec<V> = vec![V::Null(false); cols.len()];
    let nvar = cols.iter().filter(|c| !is_fixed(c.dt)).count().max(1);
    for i in idx {
        let c = &cols[i];
        if rng.below(8) < null_p {
            out[i] = V::Null(rng.chance(1, 2));
            continue;
        }
        let cap = match class {
            RowClass::Small => remaining.min(48),
            RowClass::Medium => remaining.min(3000).min(remaining / nvar + 64).min(remaining),
            RowClass::Huge | RowClass::Exact => remaining,
        };
        match gen_value(rng, c, cap, class == RowClass::Small) {
            Some(v) => {
                remaining -= var_size(c, &v);
                out[i] = v;
            }
            None => out[i] = V::Null(rng.chance(1, 2)),
        }
    }
    if class == RowClass::Exact {
        let target = budget - (rng.below(2) as usize);
        let used = budget - remaining;
        if used < target {
            // grow one non-null text/blob column to hit the target exactly
            for i in 0..cols.len() {
                let grow = target - used;
                match (&cols[i].dt, &mut out[i]) {
                    (DataType::Text, V::Str(s)) | (DataType::Varchar, V::Str(s)) if cols[i].clen.is_none() => {
                        s.push_str(&"q".repeat(grow));
                        break;
                    }
                    (DataType::Blob, V::Bytes(b)) => {
                        b.extend(std::iter::repeat(0xABu8).take(grow));
                        if b.len() == 17 && b[0] == 0xFE {
                            b[0] = 0x7E;
                        }
                        break;
                    }
                    _ => {}
                }
            }
        }
    }
    out
}

// ---------------------------------------------------------------- apply (set through the real builder)

fn apply(b: &mut RecordBuilder<'_>, i: usize, c: &Col, v: &V) -> eyre::Result<()> {
    match v {
        V::Null(explicit) => {
            if *explicit {
                b.set_null(i)
            }
            Ok(())
        }
        V::Bool(x) => b.set_bool(i, *x),
        V::I16(x) => b.set_int2(i, *x),
        V::I32(x) => {
            if c.dt == DataType::Date {
                b.set_date(i, *x)
            } else {
                b.set_int4(i, *x)
            }
        }
        V::I64(x) => match c.dt {
            DataType::Time => b.set_time(i, *x),
            DataType::Timestamp => b.set_timestamp(i, *x),
            _ => b.set_int8(i, *x),
        },
        V::F32(x) => b.set_float4(i, *x),
        V::F64(x) => b.set_float8(i, *x),
        V::TsTz(m, o) => b.set_timestamptz(i, *m, *o),
        V::B16(x) => {
            if c.dt == DataType::Uuid {
                b.set_uuid(i, x)
            } else {
                b.set_inet6(i, x)
            }
        }
        V::B6(x) => b.set_macaddr(i, x),
        V::B4(x) => b.set_inet4(i, x),
        V::Interval(m, d, mo) => b.set_interval(i, *m, *d, *mo),
        V::Point(x, y) => b.set_point(i, *x, *y),
        V::GBox(l, h) => b.set_box(i, *l, *h),
        V::Circle(ce, r) => b.set_circle(i, *ce, *r),
        V::Enum(t, o) => b.set_enum(i, *t, *o),
        V::R32(None) => {
            if c.dt == DataType::DateRange {
                b.set_date_range_empty(i)
            } else {
                b.set_int4_range_empty(i)
            }
        }
        V::R32(Some((lo, hi, li, ui))) => {
            if c.dt == DataType::DateRange {
                b.set_date_range(i, *lo, *hi, *li, *ui)
            } else {
                b.set_int4_range(i, *lo, *hi, *li, *ui)
            }
        }
        V::R64(None) => {
            if c.dt == DataType::TimestampRange {
                b.set_timestamp_range_empty(i)
            } else {
                b.set_int8_range_empty(i)
            }
        }
        V::R64(Some((lo, hi, li, ui))) => {
            if c.dt == DataType::TimestampRange {
                b.set_timestamp_range(i, *lo, *hi, *li, *ui)
            } else {
                b.set_int8_range(i, *lo, *hi, *li, *ui)
            }
        }
        V::Str(s) => match c.dt {
            DataType::Char => b.set_char(i, s),
            DataType::Varchar => b.set_varchar(i, s),
            _ => b.set_text(i, s),
        },
        V::Bytes(x) => b.set_blob(i, x),
        V::Vec32(x) => b.set_vector(i, x),
        V::Json(bytes, seed) => match seed {
            Some(s) => b.set_jsonb(i, &mk_json(*s)),
            None => b.set_jsonb_bytes(i, bytes),
        },
        V::Dec(d, s, n) => b.set_decimal(i, *d, *s, *n),
        V::Comp(_, bytes) => b.set_composite(i, bytes),
        V::Arr(_, bytes) => b.set_array(i, bytes),
    }
}

/// set all columns (in `order` if given) and build
fn build_direct(schema: &Schema, cols: &[Col], vals: &[V], order: Option<&[usize]>) -> eyre::Result<Vec<u8>> {
    let mut b = RecordBuilder::new(schema);
    apply_all(&mut b, cols, vals, order)?;
    b.build()
}
fn apply_all(b: &mut RecordBuilder<'_>, cols: &[Col], vals: &[V], order: Option<&[usize]>) -> eyre::Result<()> {
    match order {
        Some(o) => {
            for &i in o {
                apply(b, i, &cols[i], &vals[i])?;
            }
        }
        None => {
            for i in 0..cols.len() {
                apply(b, i, &cols[i], &vals[i])?;
            }
        }
    }
    Ok(())
}

// ---------------------------------------------------------------- checks

struct Fail {
    assertion: &'static str,
    sig: String,
    detail: J,
}

fn fail(out: &mut Vec<Fail>, assertion: &'static str, dt: DataType, what: &str, i: usize, detail: String) {
    out.push(Fail { assertion, sig: format!("C31/{}/{:?}/{}", assertion, dt, what), detail: json!({"col": i, "type": format!("{:?}", dt), "what": what, "detail": detail}) });
}

fn f64s(a: f64, b: f64) -> bool {
    a.to_bits() == b.to_bits()
}

#[derive(Clone, Copy, PartialEq)]
enum Mode {
    /// typed setters: CHAR padded by set_char, decimal sign flag free
    Direct,
    /// through OwnedValue::set_in_builder: CHAR stored as given, decimal sign = digits < 0
    Glue,
}

fn char_expected(c: &Col, s: &str, mode: Mode) -> String {
    if c.dt == DataType::Char && mode == Mode::Direct {
        let n = c.clen.unwrap_or(1) as usize;
        let mut t = s.to_string();
        for _ in s.chars().count()..n {
            t.push(' ');
        }
        t
    } else {
        s.to_string()
    }
}

macro_rules! getter {
    ($out:expr, $i:expr, $dt:expr, $plain:expr, $opt:expr, $want:expr, $eq:expr) => {{
        match $plain {
            Ok(g) => {
                if !$eq(&g, &$want) {
                    fail($out, "getter_round_trip", $dt, "value", $i, format!("got {} want {}", trunc(&format!("{:?}", g)), trunc(&format!("{:?}", $want))));
                }
            }
            Err(e) => fail($out, "getter_round_trip", $dt, "getter_err", $i, e.to_string()),
        }
        match $opt {
            Ok(Some(g)) => {
                if !$eq(&g, &$want) {
                    fail($out, "opt_getter", $dt, "value", $i, format!("got {} want {}", trunc(&format!("{:?}", g)), trunc(&format!("{:?}", $want))));
                }
            }
            Ok(None) => fail($out, "opt_getter", $dt, "non_null_reported_missing", $i, String::new()),
            Err(e) => fail($out, "opt_getter", $dt, "getter_err", $i, e.to_string()),
        }
    }};
}

fn opt_none<T>(out: &mut Vec<Fail>, i: usize, dt: DataType, r: eyre::Result<Option<T>>) {
    match r {
        Ok(None) => {}
        Ok(Some(_)) => fail(out, "opt_getter", dt, "null_read_as_value", i, String::new()),
        Err(e) => fail(out, "opt_getter", dt, "getter_err_on_null", i, e.to_string()),
    }
}

fn check_null_col(out: &mut Vec<Fail>, v: &RecordView<'_>, i: usize, c: &Col) {
    let dt = c.dt;
    match dt {
        DataType::Bool => opt_none(out, i, dt, v.get_bool_opt(i)),
        DataType::Int2 => opt_none(out, i, dt, v.get_int2_opt(i)),
        DataType::Int4 => opt_none(out, i, dt, v.get_int4_opt(i)),
        DataType::Int8 => opt_none(out, i, dt, v.get_int8_opt(i)),
        DataType::Float4 => opt_none(out, i, dt, v.get_float4_opt(i)),
        DataType::Float8 => opt_none(out, i, dt, v.get_float8_opt(i)),
        DataType::Date => opt_none(out, i, dt, v.get_date_opt(i)),
        DataType::Time => opt_none(out, i, dt, v.get_time_opt(i)),
        DataType::Timestamp => opt_none(out, i, dt, v.get_timestamp_opt(i)),
        DataType::TimestampTz => opt_none(out, i, dt, v.get_timestamptz_opt(i)),
        DataType::Uuid => opt_none(out, i, dt, v.get_uuid_opt(i)),
        DataType::MacAddr => opt_none(out, i, dt, v.get_macaddr_opt(i)),
        DataType::Inet4 => opt_none(out, i, dt, v.get_inet4_opt(i)),
        DataType::Inet6 => opt_none(out, i, dt, v.get_inet6_opt(i)),
        DataType::Text | DataType::Varchar | DataType::Char => opt_none(out, i, dt, v.get_text_opt(i)),
        DataType::Blob => opt_none(out, i, dt, v.get_blob_opt(i)),
        DataType::Vector => opt_none(out, i, dt, v.get_vector_opt(i)),
        DataType::Jsonb => opt_none(out, i, dt, v.get_jsonb_opt(i)),
        DataType::Decimal => opt_none(out, i, dt, v.get_decimal_opt(i)),
        DataType::Interval => opt_none(out, i, dt, v.get_interval_opt(i)),
        DataType::Int4Range => opt_none(out, i, dt, v.get_int4_range_opt(i)),
        DataType::DateRange => opt_none(out, i, dt, v.get_date_range_opt(i)),
        DataType::Int8Range => opt_none(out, i, dt, v.get_int8_range_opt(i)),
        DataType::TimestampRange => opt_none(out, i, dt, v.get_timestamp_range_opt(i)),
        DataType::Enum => opt_none(out, i, dt, v.get_enum_opt(i)),
        DataType::Point => opt_none(out, i, dt, v.get_point_opt(i)),
        DataType::Box => opt_none(out, i, dt, v.get_box_opt(i)),
        DataType::Circle => opt_none(out, i, dt, v.get_circle_opt(i)),
        DataType::Composite => opt_none(out, i, dt, v.get_composite_opt(i, c.nested.len())),
        DataType::Array => opt_none(out, i, dt, v.get_array_opt(i)),
    }
}

fn want_r32(r: &R32) -> Range<i32> {
    match r {
        None => Range::empty(),
        Some((lo, hi, li, ui)) => Range::new(*lo, *hi, *li, *ui),
    }
}
fn want_r64(r: &R64) -> Range<i64> {
    match r {
        None => Range::empty(),
        Some((lo, hi, li, ui)) => Range::new(*lo, *hi, *li, *ui),
    }
}

fn vec_bits(a: &[f32]) -> Vec<u32> {
    a.iter().map(|x| x.to_bits()).collect()
}

/// compare every column of the record against the model row
fn check_view(out: &mut Vec<Fail>, bytes: &[u8], schema: &Schema, cols: &[Col], vals: &[V], mode: Mode, depth: usize, stats: &mut Stats) {
    let view = match RecordView::new(bytes, schema) {
        Ok(v) => v,
        Err(e) => {
            out.push(Fail { assertion: "getter_round_trip", sig: "C31/getter_round_trip/view_rejected_built_record".into(), detail: json!({"err": e.to_string()}) });
            return;
        }
    };
    // documented layout: [u16 header_len][bitmap (N+7)/8][u16 end offset per var col][fixed][var]
    let nvar = schema.var_column_count();
    let header = 2 + cols.len().div_ceil(8) + 2 * nvar;
    let var_total: usize = cols.iter().zip(vals).map(|(c, v)| var_size_mode(c, v, mode)).sum();
    if view.header_len() as usize != header || view.data_offset() != header {
        out.push(Fail { assertion: "format_invariants", sig: "C31/format_invariants/header_len".into(), detail: json!({"header_len": view.header_len(), "want": header}) });
    }
    if bytes.len() != header + schema.total_fixed_size() + var_total {
        out.push(Fail { assertion: "format_invariants", sig: "C31/format_invariants/total_len".into(), detail: json!({"len": bytes.len(), "want": header + schema.total_fixed_size() + var_total}) });
    }
    for (i, (c, val)) in cols.iter().zip(vals).enumerate() {
        let dt = c.dt;
        stats.cols += 1;
        let isn = view.is_null(i);
        if isn != val.is_null() {
            fail(out, "null_flag", dt, if isn { "non_null_read_as_null" } else { "null_read_as_non_null" }, i, String::new());
            continue;
        }
        if val.is_null() {
            stats.nulls += 1;
            check_null_col(out, &view, i, c);
            continue;
        }
        match val {
            V::Null(_) => {}
            V::Bool(x) => getter!(out, i, dt, view.get_bool(i), view.get_bool_opt(i), *x, |a: &bool, b: &bool| a == b),
            V::I16(x) => getter!(out, i, dt, view.get_int2(i), view.get_int2_opt(i), *x, |a: &i16, b: &i16| a == b),
            V::I32(x) => {
                if dt == DataType::Date {
                    getter!(out, i, dt, view.get_date(i), view.get_date_opt(i), *x, |a: &i32, b: &i32| a == b)
                } else {
                    getter!(out, i, dt, view.get_int4(i), view.get_int4_opt(i), *x, |a: &i32, b: &i32| a == b)
                }
            }
            V::I64(x) => match dt {
                DataType::Time => getter!(out, i, dt, view.get_time(i), view.get_time_opt(i), *x, |a: &i64, b: &i64| a == b),
                DataType::Timestamp => getter!(out, i, dt, view.get_timestamp(i), view.get_timestamp_opt(i), *x, |a: &i64, b: &i64| a == b),
                _ => getter!(out, i, dt, view.get_int8(i), view.get_int8_opt(i), *x, |a: &i64, b: &i64| a == b),
            },
            V::F32(x) => {
                // through the OwnedValue glue a FLOAT4 travels as f64 and back: NaN payload/signalling bit is not preserved by the casts
                let glue = matches!(mode, Mode::Glue);
                getter!(out, i, dt, view.get_float4(i), view.get_float4_opt(i), *x, |a: &f32, b: &f32| a.to_bits() == b.to_bits() || (glue && a.is_nan() && b.is_nan()))
            }
            V::F64(x) => getter!(out, i, dt, view.get_float8(i), view.get_float8_opt(i), *x, |a: &f64, b: &f64| f64s(*a, *b)),
            V::TsTz(m, o) => getter!(out, i, dt, view.get_timestamptz(i), view.get_timestamptz_opt(i), (*m, *o), |a: &(i64, i32), b: &(i64, i32)| a == b),
            V::B16(x) => {
                if dt == DataType::Uuid {
                    getter!(out, i, dt, view.get_uuid(i), view.get_uuid_opt(i), x, |a: &&[u8; 16], b: &&[u8; 16]| a == b)
                } else {
                    getter!(out, i, dt, view.get_inet6(i), view.get_inet6_opt(i), x, |a: &&[u8; 16], b: &&[u8; 16]| a == b)
                }
            }
            V::B6(x) => getter!(out, i, dt, view.get_macaddr(i), view.get_macaddr_opt(i), x, |a: &&[u8; 6], b: &&[u8; 6]| a == b),
            V::B4(x) => getter!(out, i, dt, view.get_inet4(i), view.get_inet4_opt(i), x, |a: &&[u8; 4], b: &&[u8; 4]| a == b),
            V::Interval(m, d, mo) => getter!(out, i, dt, view.get_interval(i), view.get_interval_opt(i), (*m, *d, *mo), |a: &(i64, i32, i32), b: &(i64, i32, i32)| a == b),
            V::Point(x, y) => getter!(out, i, dt, view.get_point(i), view.get_point_opt(i), (*x, *y), |a: &(f64, f64), b: &(f64, f64)| f64s(a.0, b.0) && f64s(a.1, b.1)),
            V::GBox(l, h) => getter!(out, i, dt, view.get_box(i), view.get_box_opt(i), (*l, *h), |a: &((f64, f64), (f64, f64)), b: &((f64, f64), (f64, f64))| f64s(a.0 .0, b.0 .0)
                && f64s(a.0 .1, b.0 .1)
                && f64s(a.1 .0, b.1 .0)
                && f64s(a.1 .1, b.1 .1)),
            V::Circle(ce, r) => getter!(out, i, dt, view.get_circle(i), view.get_circle_opt(i), (*ce, *r), |a: &((f64, f64), f64), b: &((f64, f64), f64)| f64s(a.0 .0, b.0 .0) && f64s(a.0 .1, b.0 .1) && f64s(a.1, b.1)),
            V::Enum(t, o) => getter!(out, i, dt, view.get_enum(i), view.get_enum_opt(i), (*t, *o), |a: &(u16, u16), b: &(u16, u16)| a == b),
            V::R32(r) => {
                let want = want_r32(r);
                if dt == DataType::DateRange {
                    getter!(out, i, dt, view.get_date_range(i), view.get_date_range_opt(i), want, |a: &Range<i32>, b: &Range<i32>| a == b)
                } else {
                    getter!(out, i, dt, view.get_int4_range(i), view.get_int4_range_opt(i), want, |a: &Range<i32>, b: &Range<i32>| a == b)
                }
            }
            V::R64(r) => {
                let want = want_r64(r);
                if dt == DataType::TimestampRange {
                    getter!(out, i, dt, view.get_timestamp_range(i), view.get_timestamp_range_opt(i), want, |a: &Range<i64>, b: &Range<i64>| a == b)
                } else {
                    getter!(out, i, dt, view.get_int8_range(i), view.get_int8_range_opt(i), want, |a: &Range<i64>, b: &Range<i64>| a == b)
                }
            }
            V::Str(s) => {
                let want = char_expected(c, s, mode);
                let w: &str = &want;
                let eq = |a: &&str, b: &&str| a == b;
                match dt {
                    DataType::Char => getter!(out, i, dt, view.get_char(i), view.get_text_opt(i), w, eq),
                    DataType::Varchar => getter!(out, i, dt, view.get_varchar(i), view.get_text_opt(i), w, eq),
                    _ => getter!(out, i, dt, view.get_text(i), view.get_text_opt(i), w, eq),
                }
                // the blob getters see the same bytes
                match view.get_var_raw(i) {
                    Ok(b) if b == want.as_bytes() => {}
                    other => fail(out, "getter_round_trip", dt, "var_raw", i, format!("{:?}", other.map(|b| b.len()).map_err(|e| e.to_string()))),
                }
            }
            V::Bytes(x) => {
                let w: &[u8] = x;
                getter!(out, i, dt, view.get_blob(i), view.get_blob_opt(i), w, |a: &&[u8], b: &&[u8]| a == b)
            }
            V::Vec32(x) => {
                let want = vec_bits(x);
                getter!(out, i, dt, view.get_vector_copy(i).map(|g| vec_bits(&g)), view.get_vector_opt(i).map(|o| o.map(|g| vec_bits(&g))), want, |a: &Vec<u32>, b: &Vec<u32>| a == b);
                // zero-copy getter: documented to refuse (Err) when the payload is not 4-byte aligned
                let (s, _e) = view.get_var_bounds(i).unwrap_or((0, 0));
                let aligned = (bytes.as_ptr() as usize + s + 4) % 4 == 0;
                match view.get_vector(i) {
                    Ok(g) => {
                        stats.vec_zero_copy += 1;
                        if vec_bits(g) != want {
                            fail(out, "getter_round_trip", dt, "zero_copy_value", i, String::new());
                        }
                    }
                    Err(e) => {
                        if aligned {
                            fail(out, "getter_round_trip", dt, "zero_copy_err_on_aligned", i, e.to_string());
                        }
                    }
                }
            }
            V::Json(b, _) => {
                let w: &[u8] = b;
                getter!(out, i, dt, view.get_jsonb(i).map(|j| j.data()), view.get_jsonb_opt(i).map(|o| o.map(|j| j.data())), w, |a: &&[u8], b: &&[u8]| a == b)
            }
            V::Dec(d, s, n) => {
                let neg = if mode == Mode::Glue { *d < 0 } else { *n };
                let want = (*d, *s, neg);
                getter!(
                    out,
                    i,
                    dt,
                    view.get_decimal(i).map(|x| (x.digits(), x.scale(), x.is_negative())),
                    view.get_decimal_opt(i).map(|o| o.map(|x| (x.digits(), x.scale(), x.is_negative()))),
                    want,
                    |a: &(i128, i16, bool), b: &(i128, i16, bool)| a == b
                )
            }
            V::Comp(nvals, cbytes) => {
                stats.composites += 1;
                let w: &[u8] = cbytes;
                match view.get_var_raw(i) {
                    Ok(b) if b == w => {}
                    other => fail(out, "composite", dt, "raw_bytes", i, format!("{:?}", other.map(|b| b.len()).map_err(|e| e.to_string()))),
                }
                let nf = c.nested.len();
                for r in [view.get_composite(i, nf).map(Some), view.get_composite_opt(i, nf)] {
                    match r {
                        Ok(Some(cv)) => {
                            if cv.field_count() != nf {
                                fail(out, "composite", dt, "field_count", i, String::new());
                            }
                            let hl = u16::from_le_bytes([cbytes[0], cbytes[1]]) as usize;
                            for (k, nv) in nvals.iter().enumerate() {
                                if cv.is_null(k) != nv.is_null() {
                                    fail(out, "composite", dt, "field_null_flag", i, format!("field {}", k));
                                }
                                match cv.get_field(k) {
                                    Ok(f) => {
                                        if nv.is_null() || f != &cbytes[hl..] {
                                            fail(out, "composite", dt, "get_field", i, format!("field {}", k));
                                        }
                                    }
                                    Err(_) => {
                                        if !nv.is_null() {
                                            fail(out, "composite", dt, "get_field_err", i, format!("field {}", k));
                                        }
                                    }
                                }
                            }
                            if !cv.is_null(nf) || !cv.is_null(nf + 9) {
                                fail(out, "composite", dt, "out_of_range_field_not_null", i, String::new());
                            }
                        }
                        Ok(None) => fail(out, "opt_getter", dt, "non_null_reported_missing", i, String::new()),
                        Err(e) => fail(out, "composite", dt, "getter_err", i, e.to_string()),
                    }
                }
                // the composite payload is a record of the nested schema: all nested values must read back
                if depth < 4 {
                    let ns = mk_schema(&c.nested);
                    let before = out.len();
                    check_view(out, cbytes, &ns, &c.nested, nvals, Mode::Direct, depth + 1, stats);
                    attribute_causes(&mut out[before..], cbytes, &c.nested);
                    for f in out[before..].iter_mut() {
                        if f.sig.ends_with("@nested") || f.sig.ends_with("/record_without_payload") {
                            continue;
                        }
                        f.sig = format!("{}@nested", f.sig);
                    }
                }
            }
            V::Arr(els, abytes) => {
                stats.arrays += 1;
                for r in [view.get_array(i).map(Some), view.get_array_opt(i)] {
                    match r {
                        Ok(Some(av)) => check_array(out, i, c, els, abytes, &av),
                        Ok(None) => fail(out, "opt_getter", dt, "non_null_reported_missing", i, String::new()),
                        Err(e) => fail(out, "array", dt, "getter_err", i, e.to_string()),
                    }
                }
                match view.get_var_raw(i) {
                    Ok(b) if b == &abytes[..] => {}
                    _ => fail(out, "array", dt, "raw_bytes", i, String::new()),
                }
            }
        }
    }
}

/// Give failures whose concrete cause the oracle can establish a cause-specific signature
/// (one per root cause instead of one per column type).
fn attribute_causes(fails: &mut [Fail], bytes: &[u8], cols: &[Col]) {
    let header = if bytes.len() >= 2 { u16::from_le_bytes([bytes[0], bytes[1]]) as usize } else { 0 };
    let no_payload = bytes.len() <= header;
    for f in fails.iter_mut() {
        if no_payload && cols.iter().all(|c| !is_fixed(c.dt)) {
            // RecordView::record_column_count() returns 0 when data.len() <= header_len
            if f.sig.ends_with("/non_null_reported_missing") {
                f.sig = "C31/opt_getter/non_null_reported_missing/record_without_payload".to_string();
            } else if f.sig.ends_with("/non_null_extracted_as_null") {
                f.sig = "C31/owned_extract/non_null_extracted_as_null/record_without_payload".to_string();
            }
        }
        if f.sig.contains("/owned_extract/") && f.sig.contains("Range/err") && f.detail["detail"].as_str().map(|d| d.contains("is not a variable column")).unwrap_or(false) {
            f.sig = "C31/owned_extract/range_column_read_as_variable_column".to_string();
        }
    }
}

fn var_size_mode(c: &Col, v: &V, mode: Mode) -> usize {
    if mode == Mode::Glue && c.dt == DataType::Char {
        if let V::Str(s) = v {
            return s.len();
        }
    }
    var_size(c, v)
}

fn check_array(out: &mut Vec<Fail>, i: usize, c: &Col, els: &[Option<El>], abytes: &[u8], av: &turdb::records::ArrayView<'_>) {
    let dt = DataType::Array;
    let what = |s: &str| format!("{:?}_{}", c.elem, s);
    if av.len() != els.len() || av.is_empty() != els.is_empty() {
        fail(out, "array", dt, &what("len"), i, format!("{} vs {}", av.len(), els.len()));
        return;
    }
    if av.elem_type() != c.elem {
        fail(out, "array", dt, &what("elem_type"), i, String::new());
    }
    if u32::from_le_bytes([abytes[0], abytes[1], abytes[2], abytes[3]]) as usize != abytes.len() {
        fail(out, "array", dt, &what("total_size_header"), i, String::new());
    }
    if !av.is_null(els.len()) {
        fail(out, "array", dt, &what("out_of_range_not_null"), i, String::new());
    }
    for (k, e) in els.iter().enumerate() {
        if av.is_null(k) != e.is_none() {
            fail(out, "array", dt, &what("null_flag"), i, format!("elem {}", k));
            return;
        }
        let ok = match e {
            None => match c.elem {
                DataType::Text => av.get_text(k).is_err(),
                DataType::Blob => av.get_blob(k).is_err(),
                _ => true,
            },
            Some(El::I16(v)) => av.get_int2(k).ok() == Some(*v),
            Some(El::I32(v)) => av.get_int4(k).ok() == Some(*v),
            Some(El::I64(v)) => av.get_int8(k).ok() == Some(*v),
            Some(El::F32(v)) => av.get_float4(k).ok().map(|x| x.to_bits()) == Some(v.to_bits()),
            Some(El::F64(v)) => av.get_float8(k).ok().map(|x| x.to_bits()) == Some(v.to_bits()),
            Some(El::B(v)) => av.get_bool(k).ok() == Some(*v),
            Some(El::S(v)) => av.get_text(k).ok() == Some(v.as_str()),
            Some(El::Y(v)) => av.get_blob(k).ok() == Some(v.as_slice()),
        };
        if !ok {
            fail(out, "array", dt, &what("element"), i, format!("elem {} of {}: {:?}", k, els.len(), e));
            return;
        }
    }
}

// ---------------------------------------------------------------- OwnedValue glue

fn to_owned(c: &Col, v: &V) -> OwnedValue {
    match v {
        V::Null(_) => OwnedValue::Null,
        V::Bool(x) => OwnedValue::Bool(*x),
        V::I16(x) => OwnedValue::Int(*x as i64),
        V::I32(x) => {
            if c.dt == DataType::Date {
                OwnedValue::Date(*x)
            } else {
                OwnedValue::Int(*x as i64)
            }
        }
        V::I64(x) => match c.dt {
            DataType::Time => OwnedValue::Time(*x),
            DataType::Timestamp => OwnedValue::Timestamp(*x),
            _ => OwnedValue::Int(*x),
        },
        V::F32(x) => OwnedValue::Float(*x as f64),
        V::F64(x) => OwnedValue::Float(*x),
        V::TsTz(m, o) => OwnedValue::TimestampTz(*m, *o),
        V::B16(x) => {
            if c.dt == DataType::Uuid {
                OwnedValue::Uuid(*x)
            } else {
                OwnedValue::Inet6(*x)
            }
        }
        V::B6(x) => OwnedValue::MacAddr(*x),
        V::B4(x) => OwnedValue::Inet4(*x),
        V::Interval(m, d, mo) => OwnedValue::Interval(*m, *d, *mo),
        V::Point(x, y) => OwnedValue::Point(*x, *y),
        V::GBox(l, h) => OwnedValue::Box(*l, *h),
        V::Circle(ce, r) => OwnedValue::Circle(*ce, *r),
        V::Enum(t, o) => OwnedValue::Enum(*t, *o),
        V::R32(_) | V::R64(_) => OwnedValue::Null, // no OwnedValue representation
        V::Str(s) => OwnedValue::Text(s.clone()),
        V::Bytes(b) => OwnedValue::Blob(b.clone()),
        V::Vec32(x) => OwnedValue::Vector(x.clone()),
        V::Json(b, _) => OwnedValue::Jsonb(b.clone()),
        V::Dec(d, s, _) => OwnedValue::Decimal(*d, *s),
        V::Comp(_, b) => OwnedValue::Blob(b.clone()),
        V::Arr(_, b) => OwnedValue::Blob(b.clone()),
    }
}

/// what from_record_column must return for a column holding `v` (None = no expectation)
fn expected_owned(c: &Col, v: &V, mode: Mode) -> Option<OwnedValue> {
    Some(match v {
        V::R32(_) | V::R64(_) => return None,
        V::Str(s) => OwnedValue::Text(char_expected(c, s, mode)),
        V::Bytes(b) if b.len() == 17 && b[0] == 0xFE => return None,
        other => to_owned(c, other),
    })
}

fn owned_same(a: &OwnedValue, b: &OwnedValue) -> bool {
    use OwnedValue as O;
    let fe = |x: f64, y: f64| x.to_bits() == y.to_bits() || (x.is_nan() && y.is_nan());
    match (a, b) {
        (O::Float(x), O::Float(y)) => fe(*x, *y),
        (O::Vector(x), O::Vector(y)) => x.len() == y.len() && x.iter().zip(y.iter()).all(|(p, q)| p.to_bits() == q.to_bits()),
        (O::Point(a0, a1), O::Point(b0, b1)) => fe(*a0, *b0) && fe(*a1, *b1),
        (O::Box(al, ah), O::Box(bl, bh)) => fe(al.0, bl.0) && fe(al.1, bl.1) && fe(ah.0, bh.0) && fe(ah.1, bh.1),
        (O::Circle(ac, ar), O::Circle(bc, br)) => fe(ac.0, bc.0) && fe(ac.1, bc.1) && fe(*ar, *br),
        _ => a == b,
    }
}

fn check_extract(out: &mut Vec<Fail>, bytes: &[u8], schema: &Schema, cols: &[Col], vals: &[V], mode: Mode) {
    let view = match RecordView::new(bytes, schema) {
        Ok(v) => v,
        Err(_) => return,
    };
    let mut whole_row_ok = true;
    for (i, (c, v)) in cols.iter().zip(vals).enumerate() {
        match OwnedValue::from_record_column(&view, i, c.dt) {
            Ok(got) => {
                if let Some(want) = expected_owned(c, v, mode) {
                    if !owned_same(&got, &want) {
                        let what = match (&got, &want) {
                            (OwnedValue::Null, _) => "non_null_extracted_as_null",
                            (_, OwnedValue::Null) => "null_extracted_as_value",
                            _ => "value",
                        };
                        fail(out, "owned_extract", c.dt, what, i, format!("got {} want {}", trunc(&format!("{:?}", got)), trunc(&format!("{:?}", want))));
                    }
                }
            }
            Err(e) => {
                whole_row_ok = false;
                fail(out, "owned_extract", c.dt, "err", i, e.to_string());
            }
        }
    }
    let tcols: Vec<turdb::schema::ColumnDef> = cols.iter().enumerate().map(|(i, c)| turdb::schema::ColumnDef::new(format!("c{}", i), c.dt)).collect();
    match OwnedValue::extract_row_from_record(&view, &tcols) {
        Ok(row) => {
            if row.len() != cols.len() {
                out.push(Fail { assertion: "owned_extract", sig: "C31/owned_extract/row_len".into(), detail: json!({"len": row.len()}) });
            }
        }
        Err(e) => {
            if whole_row_ok {
                out.push(Fail { assertion: "owned_extract", sig: "C31/owned_extract/row_err_but_columns_ok".into(), detail: json!({"err": e.to_string()}) });
            }
        }
    }
}

fn trunc(s: &str) -> String {
    if s.len() > 160 {
        let mut e = 160;
        while !s.is_char_boundary(e) {
            e -= 1;
        }
        format!("{}...({} bytes)", &s[..e], s.len())
    } else {
        s.to_string()
    }
}

// ---------------------------------------------------------------- case driver

#[derive(Default)]
struct Stats {
    cols: u64,
    nulls: u64,
    arrays: u64,
    composites: u64,
    vec_zero_copy: u64,
}

fn describe(cols: &[Col], vals: &[V]) -> J {
    let items: Vec<J> = cols
        .iter()
        .zip(vals)
        .map(|(c, v)| {
            let ty = match c.dt {
                DataType::Char | DataType::Varchar => format!("{:?}({:?})", c.dt, c.clen),
                DataType::Array => format!("Array<{:?}>", c.elem),
                DataType::Composite => format!("Composite[{}]", c.nested.len()),
                dt => format!("{:?}", dt),
            };
            json!([ty, trunc(&format!("{:?}", v))])
        })
        .collect();
    J::Array(items)
}

fn struct_hash(cols: &[Col], vals: &[V]) -> u64 {
    let mut key: Vec<u8> = Vec::with_capacity(cols.len() * 3);
    for (c, v) in cols.iter().zip(vals) {
        key.push(c.dt as u8);
        key.push(v.is_null() as u8);
        let vs = var_size(c, v);
        key.push(if vs == 0 { 0 } else { (usize::BITS - vs.leading_zeros()) as u8 });
    }
    fnv(&key)
}

thread_local! {
    static SEEN: std::cell::RefCell<std::collections::HashMap<String, u64>> = std::cell::RefCell::new(std::collections::HashMap::new());
}

/// Every failing observation is counted under `failing:<sig>`. Known findings are always forwarded
/// (they only count); an unexplained signature is forwarded to the report the first time only, so
/// that each distinct signature gets a replay file instead of the first one taking them all.
fn viol(ctx: &mut Ctx, assertion: &str, sig: &str, detail: impl FnOnce() -> J) {
    ctx.count(&format!("failing:{}", sig), 1);
    let n = SEEN.with(|s| {
        let mut s = s.borrow_mut();
        let e = s.entry(sig.to_string()).or_insert(0);
        *e += 1;
        *e
    });
    if ctx.is_known(sig).is_some() || n <= 1 {
        ctx.violation(assertion, sig, detail());
    } else {
        ctx.count("violations_not_forwarded_after_first_per_sig", 1);
    }
}

fn report(ctx: &mut Ctx, fails: Vec<Fail>, case: u64, label: &str, cols: &[Col], vals: &[V]) {
    let mut seen = std::collections::HashSet::new();
    for f in fails {
        if !seen.insert(f.sig.clone()) {
            continue;
        }
        let sig = f.sig.clone();
        viol(ctx, f.assertion, &sig, || json!({"case": case, "stage": label, "ncols": cols.len(), "failure": f.detail, "row": describe(cols, vals)}));
    }
}

/// one (schema, row): fresh build, reset rebuild on the dirty builder, view, extraction, glue
#[allow(clippy::too_many_arguments)]
fn run_row<'s, 'g>(
    ctx: &mut Ctx,
    rng: &mut Rng,
    case: u64,
    schema: &'s Schema,
    cols: &[Col],
    vals: &[V],
    dirty: &mut Option<RecordBuilder<'s>>,
    dirty_buf: &mut Vec<u8>,
    glue: &mut GlueState<'g>,
    stats: &mut Stats,
) {
    ctx.eval();
    let mut order: Vec<usize> = (0..cols.len()).collect();
    if rng.chance(1, 2) {
        rng.shuffle(&mut order);
    }
    let variant = rng.below(4);
    let overwrite = rng.chance(1, 6);
    let mut fails: Vec<Fail> = vec![];
    let mut viewed = false;
    let r = catch(|| {
        let mut fails: Vec<Fail> = vec![];
        // fresh build
        let fresh = {
            let mut b = RecordBuilder::new(schema);
            if overwrite {
                // a first, different small value (or a value later nulled, fixed columns only) must not leak
                for &i in &order {
                    let c = &cols[i];
                    if is_fixed(c.dt) || !vals[i].is_null() {
                        if let Some(v0) = gen_value(&mut Rng::new(case ^ i as u64), c, 8, true) {
                            let _ = apply(&mut b, i, c, &v0);
                        }
                    }
                }
                for &i in &order {
                    if vals[i].is_null() {
                        b.set_null(i);
                    }
                }
            }
            match apply_all(&mut b, cols, vals, Some(&order)).and_then(|_| b.build()) {
                Ok(x) => x,
                Err(e) => {
                    fails.push(Fail { assertion: "build_ok", sig: "C31/build_ok/setter_or_build_err".into(), detail: json!({"err": e.to_string()}) });
                    return fails;
                }
            }
        };
        let mut st = Stats::default();
        check_view(&mut fails, &fresh, schema, cols, vals, Mode::Direct, 0, &mut st);
        check_extract(&mut fails, &fresh, schema, cols, vals, Mode::Direct);
        attribute_causes(&mut fails, &fresh, cols);
        *stats = st;
        viewed = true;

        // reset + rebuild on a builder that is dirty from the previous row of this schema
        if !overwrite {
            let mut b = dirty.take().unwrap_or_else(|| RecordBuilder::new(schema));
            if variant == 3 {
                // through RecordBuilderState
                let mut s = b.into_state();
                s.reset(schema);
                b = s.into_builder(schema);
            } else {
                b.reset();
            }
            let rebuilt = apply_all(&mut b, cols, vals, Some(&order)).and_then(|_| b.build());
            match rebuilt {
                Ok(x) => {
                    if x != fresh {
                        let at = x.iter().zip(fresh.iter()).position(|(a, b)| a != b).unwrap_or(x.len().min(fresh.len()));
                        fails.push(Fail {
                            assertion: "reset_rebuild",
                            sig: format!("C31/reset_rebuild/{}", if variant == 3 { "state_reset_bytes_differ" } else { "bytes_differ" }),
                            detail: json!({"fresh_len": fresh.len(), "rebuilt_len": x.len(), "first_diff_at": at}),
                        });
                    }
                }
                Err(e) => fails.push(Fail { assertion: "reset_rebuild", sig: "C31/reset_rebuild/err".into(), detail: json!({"err": e.to_string()}) }),
            }
            match b.build_into(dirty_buf) {
                Ok(()) => {
                    if *dirty_buf != fresh {
                        fails.push(Fail { assertion: "reset_rebuild", sig: "C31/reset_rebuild/build_into_bytes_differ".into(), detail: json!({"fresh_len": fresh.len(), "len": dirty_buf.len()}) });
                    }
                }
                Err(e) => fails.push(Fail { assertion: "reset_rebuild", sig: "C31/reset_rebuild/build_into_err".into(), detail: json!({"err": e.to_string()}) }),
            }
            *dirty = Some(b);
        }
        fails
    });
    match r {
        Ok(f) => fails.extend(f),
        Err(p) => {
            *dirty = None;
            fails.push(Fail { assertion: "no_panic", sig: format!("C31/no_panic/direct@{}", panic_site(&p)), detail: json!({"panic": p}) });
        }
    }
    report(ctx, fails, case, "direct", cols, vals);
    if viewed && vals.iter().any(|v| !v.is_null()) {
        ctx.nontrivial(struct_hash(cols, vals));
    }

    // ---- OwnedValue glue: ranges have no OwnedValue form and FLOAT4 is exercised separately
    let gvals: Vec<V> = cols
        .iter()
        .zip(vals)
        .map(|(c, v)| match v {
            V::R32(_) | V::R64(_) => V::Null(false),
            V::F32(_) if !glue.keep_f32 => V::Null(false),
            V::Bytes(b) if c.dt == DataType::Blob && b.len() == 17 && b[0] == 0xFE => V::Null(false),
            other => other.clone(),
        })
        .collect();
    run_glue(ctx, case, cols, &gvals, glue);
}

struct GlueState<'s> {
    schema: &'s Schema,
    builder: Option<RecordBuilder<'s>>,
    buf: Vec<u8>,
    keep_f32: bool,
}

fn run_glue<'s>(ctx: &mut Ctx, case: u64, cols: &[Col], gvals: &[V], glue: &mut GlueState<'s>) {
    let gs = glue.schema;
    let ovs: Vec<OwnedValue> = cols.iter().zip(gvals).map(|(c, v)| to_owned(c, v)).collect();
    let has_f32 = gvals.iter().any(|v| matches!(v, V::F32(_)));
    let r = catch(|| {
        let mut fails: Vec<Fail> = vec![];
        let g1 = match OwnedValue::build_record_from_values(&ovs, gs) {
            Ok(x) => x,
            Err(e) => {
                fails.push(Fail { assertion: "owned_glue", sig: "C31/owned_glue/build_err".into(), detail: json!({"err": e.to_string()}) });
                return fails;
            }
        };
        let mut b = glue.builder.take().unwrap_or_else(|| RecordBuilder::new(gs));
        match OwnedValue::build_record_with_builder(&ovs, &mut b) {
            Ok(g2) if g2 == g1 => {}
            Ok(_) => fails.push(Fail { assertion: "reset_rebuild", sig: "C31/reset_rebuild/owned_with_builder_bytes_differ".into(), detail: json!({}) }),
            Err(e) => fails.push(Fail { assertion: "owned_glue", sig: "C31/owned_glue/with_builder_err".into(), detail: json!({"err": e.to_string()}) }),
        }
        match OwnedValue::build_record_into_buffer(&ovs, &mut b, &mut glue.buf) {
            Ok(()) if glue.buf == g1 => {}
            Ok(()) => fails.push(Fail { assertion: "reset_rebuild", sig: "C31/reset_rebuild/owned_into_buffer_bytes_differ".into(), detail: json!({}) }),
            Err(e) => fails.push(Fail { assertion: "owned_glue", sig: "C31/owned_glue/into_buffer_err".into(), detail: json!({"err": e.to_string()}) }),
        }
        glue.builder = Some(b);
        let mut st = Stats::default();
        let before = fails.len();
        check_view(&mut fails, &g1, gs, cols, gvals, Mode::Glue, 0, &mut st);
        check_extract(&mut fails, &g1, gs, cols, gvals, Mode::Glue);
        attribute_causes(&mut fails[before..], &g1, cols);
        for f in fails[before..].iter_mut() {
            if !f.sig.ends_with("/record_without_payload") {
                f.sig = f.sig.replacen("C31/", "C31/owned_glue:", 1);
            }
        }
        fails
    });
    let mut fails = match r {
        Ok(f) => f,
        Err(p) => {
            glue.builder = None;
            vec![Fail { assertion: "no_panic", sig: format!("C31/no_panic/owned_glue@{}", panic_site(&p)), detail: json!({"panic": p}) }]
        }
    };
    if !fails.is_empty() && has_f32 {
        // establish the cause: does the same row pass with the FLOAT4 values nulled?
        let g2: Vec<V> = gvals.iter().map(|v| if matches!(v, V::F32(_)) { V::Null(false) } else { v.clone() }).collect();
        let ovs2: Vec<OwnedValue> = cols.iter().zip(&g2).map(|(c, v)| to_owned(c, v)).collect();
        let pass = catch(|| {
            let mut f2 = vec![];
            if let Ok(bytes) = OwnedValue::build_record_from_values(&ovs2, gs) {
                let mut st = Stats::default();
                check_view(&mut f2, &bytes, gs, cols, &g2, Mode::Glue, 0, &mut st);
                attribute_causes(&mut f2, &bytes, cols);
                // failures with another established cause do not speak against this one
                f2.iter().all(|f| f.sig.ends_with("/record_without_payload"))
            } else {
                false
            }
        })
        .unwrap_or(false);
        if pass {
            let d: Vec<J> = fails.iter().map(|f| json!({"sig": f.sig, "detail": f.detail})).collect();
            fails = vec![Fail { assertion: "owned_glue", sig: "C31/owned_glue/float4_column_written_with_set_float8".into(), detail: json!({"underlying": d}) }];
        }
    }
    report(ctx, fails, case, "owned_glue", cols, gvals);
}

/// rows whose variable data exceeds what u16 end offsets can address: build() must say no or be right
fn run_oversize(ctx: &mut Ctx, rng: &mut Rng, case: u64) {
    ctx.eval();
    let nvarcols = rng.usize(1, 5);
    let mut cols: Vec<Col> = vec![];
    for _ in 0..nvarcols {
        let dt = *rng.pick(&[DataType::Text, DataType::Blob]);
        cols.push(gen_col(rng, dt, 0));
    }
    if rng.chance(1, 2) {
        cols.insert(0, gen_col(rng, DataType::Int4, 0));
    }
    let total = match if cfg!(miri) { 0 } else { rng.below(4) } {
        0 => 65536,
        1 => 65536 + rng.usize(1, 64),
        2 => 131072,
        _ => rng.usize(65536, 200_000),
    };
    let mut left = total;
    let mut vals: Vec<V> = vec![];
    let nv = cols.iter().filter(|c| !is_fixed(c.dt)).count();
    let mut k = 0;
    for c in &cols {
        if is_fixed(c.dt) {
            vals.push(V::I32(7));
            continue;
        }
        k += 1;
        let l = if k == nv { left } else { rng.usize(0, left) };
        left -= l;
        vals.push(if c.dt == DataType::Text { V::Str("z".repeat(l)) } else { V::Bytes(vec![0x5A; l]) });
    }
    let schema = mk_schema(&cols);
    let r = catch(|| {
        let mut fails = vec![];
        match build_direct(&schema, &cols, &vals, None) {
            Err(_) => (0u8, fails),
            Ok(bytes) => {
                let mut st = Stats::default();
                check_view(&mut fails, &bytes, &schema, &cols, &vals, Mode::Direct, 0, &mut st);
                (1u8, fails)
            }
        }
    });
    match r {
        Ok((0, _)) => ctx.count("oversize_rejected", 1),
        Ok((_, fails)) => {
            if fails.is_empty() {
                ctx.count("oversize_round_tripped", 1);
            } else {
                ctx.count("oversize_corrupt", 1);
                let d: Vec<J> = fails.iter().take(4).map(|f| json!({"sig": f.sig, "detail": f.detail})).collect();
                viol(ctx, "oversize_var_data", "C31/oversize_var_data/build_ok_but_record_does_not_read_back", || {
                    json!({"case": case, "total_var_bytes": total, "var_lens": vals.iter().zip(&cols).map(|(v, c)| var_size(c, v)).collect::<Vec<_>>(), "underlying": d})
                });
            }
        }
        Err(p) => {
            ctx.count("oversize_panic", 1);
            viol(ctx, "oversize_var_data", &format!("C31/oversize_var_data/panic@{}", panic_site(&p)), || {
                json!({"case": case, "total_var_bytes": total, "var_lens": vals.iter().zip(&cols).map(|(v, c)| var_size(c, v)).collect::<Vec<_>>(), "panic": p})
            });
        }
    }
}

/// ArrayBuilder on its own: reset + rebuild gives the same bytes
fn run_array_reset(ctx: &mut Ctx, rng: &mut Rng, case: u64) {
    ctx.eval();
    let elem = *rng.pick(&ELEM_TYPES);
    let c = Col { dt: DataType::Array, clen: None, nested: vec![], elem };
    let a = gen_value(rng, &c, 4000, false);
    let b = gen_value(rng, &c, 4000, false);
    if let (Some(V::Arr(e1, bytes1)), Some(V::Arr(e2, _))) = (a, b) {
        let r = catch(|| {
            let mut ab = ArrayBuilder::new(elem);
            push_array(&mut ab, &e2);
            let _ = ab.build();
            ab.reset();
            push_array(&mut ab, &e1);
            ab.build()
        });
        match r {
            Ok(x) => {
                if x != bytes1 {
                    viol(ctx, "reset_rebuild", &format!("C31/reset_rebuild/array_builder_{:?}", elem), || json!({"case": case, "n_first": e2.len(), "n": e1.len(), "nulls_first": e2.iter().filter(|e| e.is_none()).count()}));
                }
            }
            Err(p) => {
                viol(ctx, "no_panic", &format!("C31/no_panic/array_builder@{}", panic_site(&p)), || json!({"case": case, "panic": p}));
            }
        }
    }
}

pub fn run(a: &Args) -> i32 {
    let miri = cfg!(miri);
    let mut ctx = Ctx::new(
        "C31",
        &a.tier,
        a.seed,
        "exploration",
        "schemas of 1..64 columns (every count; styles: all fixed, all variable, one type repeated, all 32 DataTypes in rotation, text-heavy, random) incl. CHAR(n)/VARCHAR(n), composites nested <= 3 and arrays of 8 element types; 3-5 rows per schema on one reused builder; NULL density 0..100%; boundary ints/floats (NaN payloads, +-0, inf, subnormal; compared by bits); variable data empty / tiny / around the TOAST threshold / filling the 65535-byte u16 offset space exactly; random setter order; overwritten columns. A case = one (schema,row). distinct_nontrivial = distinct (type sequence, NULL mask, log2 var sizes) of rows with >= 1 non-NULL column whose record was built and read back column by column",
    );
    let mut rng = Rng::derive(a.seed, 31);
    let quick = ctx.quick();
    let nschemas: u64 = if miri { 40 } else if quick { 30_000 } else { 400_000 };
    let mut tot = Stats::default();
    let mut max_record = 0usize;
    let mut class_counts = [0u64; 4];
    let mut case: u64 = 0;
    for s in 0..nschemas {
        let ncols = if s < 64 { s as usize + 1 } else if rng.chance(1, 8) { 64 } else { rng.usize(1, 64) };
        let cols = gen_schema(&mut rng, ncols);
        let schema = mk_schema(&cols);
        let tcols: Vec<turdb::schema::ColumnDef> = cols.iter().enumerate().map(|(i, c)| turdb::schema::ColumnDef::new(format!("c{}", i), c.dt)).collect();
        let gschema = turdb::types::create_record_schema(&tcols);
        let mut glue = GlueState { schema: &gschema, builder: None, buf: vec![0xEE; 7], keep_f32: false };
        let mut dirty: Option<RecordBuilder<'_>> = None;
        let mut dirty_buf: Vec<u8> = vec![0xDD; 11];
        let nrows = if miri { 2 } else { rng.usize(3, 5) };
        for _ in 0..nrows {
            let class = if miri {
                if s == 5 { RowClass::Exact } else { RowClass::Small }
            } else {
                match rng.below(if quick { 40 } else { 24 }) {
                    0 => RowClass::Exact,
                    1 => RowClass::Huge,
                    2..=9 => RowClass::Medium,
                    _ => RowClass::Small,
                }
            };
            class_counts[class as usize] += 1;
            let vals = gen_row(&mut rng, &cols, MAX_VAR, class);
            let mut st = Stats::default();
            run_row(&mut ctx, &mut rng, case, &schema, &cols, &vals, &mut dirty, &mut dirty_buf, &mut glue, &mut st);
            tot.cols += st.cols;
            tot.nulls += st.nulls;
            tot.arrays += st.arrays;
            tot.composites += st.composites;
            tot.vec_zero_copy += st.vec_zero_copy;
            let vs: usize = cols.iter().zip(&vals).map(|(c, v)| var_size(c, v)).sum();
            max_record = max_record.max(vs);
            if vs == MAX_VAR {
                ctx.count("rows_with_exactly_65535_var_bytes", 1);
            }
            if case == 40 || case == 1000 {
                ctx.sample(json!({"case": case, "ncols": cols.len(), "var_bytes": vs, "row": describe(&cols, &vals)}));
            }
            case += 1;
        }
    }
    ctx.count("schemas", nschemas);
    ctx.count("rows", case);
    ctx.count("columns_checked", tot.cols);
    ctx.count("null_columns", tot.nulls);
    ctx.count("array_columns", tot.arrays);
    ctx.count("composite_columns", tot.composites);
    ctx.count("vector_zero_copy_reads", tot.vec_zero_copy);
    ctx.count("rows_small", class_counts[RowClass::Small as usize]);
    ctx.count("rows_medium", class_counts[RowClass::Medium as usize]);
    ctx.count("rows_huge", class_counts[RowClass::Huge as usize]);
    ctx.count("rows_exact_fill", class_counts[RowClass::Exact as usize]);
    ctx.extra.insert("max_var_bytes_in_a_row".into(), json!(max_record));

    // OwnedValue glue on schemas that contain FLOAT4 columns (from_record_column yields Float for them)
    let nf4: u64 = if miri { 6 } else if quick { 2_000 } else { 20_000 };
    for _ in 0..nf4 {
        ctx.eval();
        let ncols = rng.usize(1, 12);
        let mut cols = gen_schema(&mut rng, ncols);
        let k = rng.usize(0, ncols - 1);
        cols[k] = gen_col(&mut rng, DataType::Float4, 0);
        let tcols: Vec<turdb::schema::ColumnDef> = cols.iter().enumerate().map(|(i, c)| turdb::schema::ColumnDef::new(format!("c{}", i), c.dt)).collect();
        let gschema = turdb::types::create_record_schema(&tcols);
        let mut glue = GlueState { schema: &gschema, builder: None, buf: vec![], keep_f32: true };
        let mut vals = gen_row(&mut rng, &cols, MAX_VAR, RowClass::Small);
        if vals[k].is_null() {
            vals[k] = V::F32(gen_f32(&mut rng));
        }
        let gvals: Vec<V> = vals.iter().map(|v| if matches!(v, V::R32(_) | V::R64(_)) { V::Null(false) } else { v.clone() }).collect();
        run_glue(&mut ctx, case, &cols, &gvals, &mut glue);
        case += 1;
    }
    ctx.count("owned_glue_float4_rows", nf4);

    let nover: u64 = if miri { 1 } else if quick { 300 } else { 5_000 };
    for _ in 0..nover {
        run_oversize(&mut ctx, &mut rng, case);
        case += 1;
    }
    ctx.count("oversize_rows", nover);

    let narr: u64 = if miri { 8 } else if quick { 5_000 } else { 100_000 };
    for _ in 0..narr {
        run_array_reset(&mut ctx, &mut rng, case);
        case += 1;
    }
    ctx.count("array_builder_reset_cases", narr);

    ctx.assumptions.push("'fits the schema' = value of the column's type, CHAR/VARCHAR within their length, total variable bytes <= 65535 (u16 end offsets, records/mod.rs); larger rows are only checked for 'rejected or still correct'".into());
    ctx.assumptions.push("OwnedValue glue: range columns have no OwnedValue form (kept NULL); a 17-byte blob starting with 0xFE is the documented TOAST pointer encoding and is not generated as a plain blob".into());
    ctx.assumptions.push("NULL columns: only is_null and the *_opt getters are checked; plain getters on NULL columns are unspecified".into());
    ctx.finish()
}

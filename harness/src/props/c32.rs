//! C32 JSON documents round-trip through JSONB.
//!
//! Pipeline under test: JSON text -> `turdb::parsing::parse_json` -> `JsonValue::to_jsonb_bytes`
//! (and the second encoder `JsonbBuilder::build`) -> `JsonbView` / `OwnedValue::jsonb_*`.
//! Oracle: an independent tiny JSON model (generator + renderer + strict RFC 8259 parser, all in
//! this file). Numbers are compared as f64 (`==`), the representation the module documents
//! (`JsonValue::Number(f64)`). Duplicate keys are undocumented: for a duplicated key only
//! "the value read is one of the values given for that key" is asserted.
use crate::report::{catch, panic_site, Ctx};
use crate::rng::Rng;
use crate::Args;
use serde_json::json;
use std::collections::HashMap;
use turdb::parsing::{parse_json, JsonValue};
use turdb::records::jsonb::{JsonbBuilder, JsonbBuilderValue, JsonbValue, JsonbView};
use turdb::OwnedValue;

const U16_MAX_LEN: usize = 65535;

// ------------------------------------------------------------------------------------------
// independent model
// ------------------------------------------------------------------------------------------

#[derive(Clone, Debug)]
enum J {
    Null,
    Bool(bool),
    /// value, optional literal text to render (None: shortest round-trip form)
    Num(f64, Option<String>),
    Str(String),
    Arr(Vec<J>),
    Obj(Vec<(String, J)>),
}

fn tname(j: &J) -> &'static str {
    match j {
        J::Null => "null",
        J::Bool(_) => "bool",
        J::Num(..) => "number",
        J::Str(_) => "string",
        J::Arr(_) => "array",
        J::Obj(_) => "object",
    }
}

fn group<'a>(pairs: &'a [(String, J)]) -> HashMap<&'a str, Vec<&'a J>> {
    let mut m: HashMap<&str, Vec<&J>> = HashMap::with_capacity(pairs.len());
    for (k, v) in pairs {
        m.entry(k.as_str()).or_default().push(v);
    }
    m
}

/// JSON value equality; for duplicated keys: every value on one side has an equal value under the
/// same key on the other side (no claim about which duplicate wins or how many survive).
fn jeq(a: &J, b: &J) -> bool {
    match (a, b) {
        (J::Null, J::Null) => true,
        (J::Bool(x), J::Bool(y)) => x == y,
        (J::Num(x, _), J::Num(y, _)) => x == y,
        (J::Str(x), J::Str(y)) => x == y,
        (J::Arr(x), J::Arr(y)) => x.len() == y.len() && x.iter().zip(y).all(|(p, q)| jeq(p, q)),
        (J::Obj(x), J::Obj(y)) => {
            if x.len() == y.len() && x.iter().zip(y).all(|(p, q)| p.0 == q.0 && jeq(&p.1, &q.1)) {
                return true;
            }
            let gx = group(x);
            let gy = group(y);
            if gx.len() != gy.len() {
                return false;
            }
            for (k, vs) in &gx {
                let ws = match gy.get(k) {
                    Some(w) => w,
                    None => return false,
                };
                if !vs.iter().all(|v| ws.iter().any(|w| jeq(v, w))) || !ws.iter().all(|w| vs.iter().any(|v| jeq(v, w))) {
                    return false;
                }
            }
            true
        }
        _ => false,
    }
}

/// exact equality (order and duplicates preserved) — harness self-check only
fn jeq_exact(a: &J, b: &J) -> bool {
    match (a, b) {
        (J::Arr(x), J::Arr(y)) => x.len() == y.len() && x.iter().zip(y).all(|(p, q)| jeq_exact(p, q)),
        (J::Obj(x), J::Obj(y)) => x.len() == y.len() && x.iter().zip(y).all(|(p, q)| p.0 == q.0 && jeq_exact(&p.1, &q.1)),
        (J::Arr(_), _) | (J::Obj(_), _) | (_, J::Arr(_)) | (_, J::Obj(_)) => false,
        _ => jeq(a, b),
    }
}

#[derive(Default, Clone, Copy, Debug)]
struct Feat {
    nodes: u32,
    depth: u32,
    dup_keys: bool,
    long_str: bool,
    long_key: bool,
    nonfinite: bool,
    non_bmp: bool,
    max_keys: u32,
}

fn features(j: &J, depth: u32, f: &mut Feat) {
    f.nodes += 1;
    match j {
        J::Num(v, _) => {
            if !v.is_finite() {
                f.nonfinite = true
            }
        }
        J::Str(s) => {
            if s.len() > U16_MAX_LEN {
                f.long_str = true
            }
            if s.chars().any(|c| c as u32 > 0xFFFF) {
                f.non_bmp = true
            }
        }
        J::Arr(x) => {
            f.depth = f.depth.max(depth + 1);
            for e in x {
                features(e, depth + 1, f)
            }
        }
        J::Obj(x) => {
            f.depth = f.depth.max(depth + 1);
            f.max_keys = f.max_keys.max(x.len() as u32);
            if group(x).len() != x.len() {
                f.dup_keys = true
            }
            for (k, v) in x {
                if k.len() > U16_MAX_LEN {
                    f.long_key = true
                }
                if k.chars().any(|c| c as u32 > 0xFFFF) {
                    f.non_bmp = true
                }
                features(v, depth + 1, f)
            }
        }
        _ => {}
    }
}

fn mix(h: &mut u64, x: u64) {
    *h = (*h ^ x).wrapping_mul(0x100000001b3).rotate_left(5);
}

/// structural hash: node kinds, container sizes, string length buckets / character classes,
/// number magnitude classes (not the random payload itself)
fn shape(j: &J, h: &mut u64) {
    match j {
        J::Null => mix(h, 1),
        J::Bool(b) => mix(h, 2 + *b as u64),
        J::Num(v, _) => {
            let e = if *v == 0.0 { 0 } else { (v.abs().log10().floor() as i64).clamp(-400, 400) / 4 };
            mix(h, 10 + ((v.is_sign_negative() as u64) << 1) + ((v.fract() == 0.0) as u64));
            mix(h, e as u64);
        }
        J::Str(s) => str_shape(s, h, 20),
        J::Arr(x) => {
            mix(h, 30 + ((x.len() as u64) << 8));
            for e in x {
                shape(e, h)
            }
            mix(h, 31);
        }
        J::Obj(x) => {
            mix(h, 40 + ((x.len() as u64) << 8));
            for (k, v) in x {
                str_shape(k, h, 41);
                shape(v, h)
            }
            mix(h, 42);
        }
    }
}

fn str_shape(s: &str, h: &mut u64, tag: u64) {
    let mut fl = 0u64;
    for c in s.chars() {
        let u = c as u32;
        fl |= if u < 0x20 {
            1
        } else if c == '"' || c == '\\' || c == '/' {
            2
        } else if u < 0x80 {
            4
        } else if u <= 0xFFFF {
            8
        } else {
            16
        };
    }
    let lb = if s.len() <= 12 { s.len() as u64 } else { 12 + (64 - (s.len() as u64).leading_zeros() as u64) };
    mix(h, tag + (fl << 8) + (lb << 16));
}

// ------------------------------------------------------------------------------------------
// independent strict parser (RFC 8259): whole text must be exactly one value + whitespace
// ------------------------------------------------------------------------------------------

#[derive(Debug)]
enum PErr {
    Invalid(&'static str),
    /// valid JSON but outside what this check asserts on (non-finite f64, absurd depth)
    Unsupported(&'static str),
}

struct SP<'a> {
    t: &'a str,
    b: &'a [u8],
    i: usize,
    surrogate_pairs: u32,
}

impl<'a> SP<'a> {
    fn ws(&mut self) {
        while self.i < self.b.len() && matches!(self.b[self.i], b' ' | b'\t' | b'\n' | b'\r') {
            self.i += 1;
        }
    }
    fn lit(&mut self, w: &str, v: J) -> Result<J, PErr> {
        if self.t[self.i..].starts_with(w) {
            self.i += w.len();
            Ok(v)
        } else {
            Err(PErr::Invalid("bad literal"))
        }
    }
    fn value(&mut self, depth: usize) -> Result<J, PErr> {
        if depth > 64 {
            return Err(PErr::Unsupported("depth > 64"));
        }
        self.ws();
        match self.b.get(self.i).copied() {
            None => Err(PErr::Invalid("end of input")),
            Some(b'{') => {
                self.i += 1;
                let mut pairs = vec![];
                self.ws();
                if self.b.get(self.i) == Some(&b'}') {
                    self.i += 1;
                    return Ok(J::Obj(pairs));
                }
                loop {
                    self.ws();
                    if self.b.get(self.i) != Some(&b'"') {
                        return Err(PErr::Invalid("expected key"));
                    }
                    let k = self.string()?;
                    self.ws();
                    if self.b.get(self.i) != Some(&b':') {
                        return Err(PErr::Invalid("expected colon"));
                    }
                    self.i += 1;
                    let v = self.value(depth + 1)?;
                    pairs.push((k, v));
                    self.ws();
                    match self.b.get(self.i) {
                        Some(b',') => self.i += 1,
                        Some(b'}') => {
                            self.i += 1;
                            return Ok(J::Obj(pairs));
                        }
                        _ => return Err(PErr::Invalid("expected , or }")),
                    }
                }
            }
            Some(b'[') => {
                self.i += 1;
                let mut items = vec![];
                self.ws();
                if self.b.get(self.i) == Some(&b']') {
                    self.i += 1;
                    return Ok(J::Arr(items));
                }
                loop {
                    items.push(self.value(depth + 1)?);
                    self.ws();
                    match self.b.get(self.i) {
                        Some(b',') => self.i += 1,
                        Some(b']') => {
                            self.i += 1;
                            return Ok(J::Arr(items));
                        }
                        _ => return Err(PErr::Invalid("expected , or ]")),
                    }
                }
            }
            Some(b'"') => Ok(J::Str(self.string()?)),
            Some(b't') => self.lit("true", J::Bool(true)),
            Some(b'f') => self.lit("false", J::Bool(false)),
            Some(b'n') => self.lit("null", J::Null),
            Some(b'-') | Some(b'0'..=b'9') => self.number(),
            Some(_) => Err(PErr::Invalid("unexpected character")),
        }
    }
    fn digits(&mut self) -> usize {
        let s = self.i;
        while self.i < self.b.len() && self.b[self.i].is_ascii_digit() {
            self.i += 1;
        }
        self.i - s
    }
    fn number(&mut self) -> Result<J, PErr> {
        let s = self.i;
        if self.b[self.i] == b'-' {
            self.i += 1;
        }
        match self.b.get(self.i) {
            Some(b'0') => self.i += 1,
            Some(b'1'..=b'9') => {
                self.digits();
            }
            _ => return Err(PErr::Invalid("number: no digits")),
        }
        if self.b.get(self.i) == Some(&b'.') {
            self.i += 1;
            if self.digits() == 0 {
                return Err(PErr::Invalid("number: no fraction digits"));
            }
        }
        if matches!(self.b.get(self.i), Some(b'e') | Some(b'E')) {
            self.i += 1;
            if matches!(self.b.get(self.i), Some(b'+') | Some(b'-')) {
                self.i += 1;
            }
            if self.digits() == 0 {
                return Err(PErr::Invalid("number: no exponent digits"));
            }
        }
        let txt = &self.t[s..self.i];
        let v: f64 = txt.parse().map_err(|_| PErr::Invalid("number: std rejects"))?;
        if !v.is_finite() {
            return Err(PErr::Unsupported("number overflows f64"));
        }
        Ok(J::Num(v, Some(txt.to_string())))
    }
    fn hex4(&mut self) -> Result<u32, PErr> {
        if self.i + 4 > self.b.len() {
            return Err(PErr::Invalid("\\u: short"));
        }
        let mut v = 0u32;
        for k in 0..4 {
            let d = (self.b[self.i + k] as char).to_digit(16).ok_or(PErr::Invalid("\\u: non-hex"))?;
            v = v * 16 + d;
        }
        self.i += 4;
        Ok(v)
    }
    fn string(&mut self) -> Result<String, PErr> {
        self.i += 1;
        let mut out = String::new();
        let mut seg = self.i;
        loop {
            let c = *self.b.get(self.i).ok_or(PErr::Invalid("unterminated string"))?;
            match c {
                b'"' => {
                    out.push_str(&self.t[seg..self.i]);
                    self.i += 1;
                    return Ok(out);
                }
                b'\\' => {
                    out.push_str(&self.t[seg..self.i]);
                    self.i += 1;
                    let e = *self.b.get(self.i).ok_or(PErr::Invalid("unterminated escape"))?;
                    self.i += 1;
                    match e {
                        b'"' => out.push('"'),
                        b'\\' => out.push('\\'),
                        b'/' => out.push('/'),
                        b'b' => out.push('\u{8}'),
                        b'f' => out.push('\u{c}'),
                        b'n' => out.push('\n'),
                        b'r' => out.push('\r'),
                        b't' => out.push('\t'),
                        b'u' => {
                            let hi = self.hex4()?;
                            if (0xD800..0xDC00).contains(&hi) {
                                if self.b.get(self.i) == Some(&b'\\') && self.b.get(self.i + 1) == Some(&b'u') {
                                    self.i += 2;
                                    let lo = self.hex4()?;
                                    if !(0xDC00..0xE000).contains(&lo) {
                                        return Err(PErr::Invalid("high surrogate not followed by low"));
                                    }
                                    let cp = 0x10000 + ((hi - 0xD800) << 10) + (lo - 0xDC00);
                                    out.push(char::from_u32(cp).unwrap());
                                    self.surrogate_pairs += 1;
                                } else {
                                    return Err(PErr::Invalid("lone high surrogate"));
                                }
                            } else if (0xDC00..0xE000).contains(&hi) {
                                return Err(PErr::Invalid("lone low surrogate"));
                            } else {
                                out.push(char::from_u32(hi).unwrap());
                            }
                        }
                        _ => return Err(PErr::Invalid("unknown escape")),
                    }
                    seg = self.i;
                }
                0..=0x1F => return Err(PErr::Invalid("raw control character in string")),
                _ => self.i += 1,
            }
        }
    }
}

struct Parsed {
    value: J,
    surrogate_pairs: u32,
}

fn strict_parse(t: &str) -> Result<Parsed, PErr> {
    let mut p = SP { t, b: t.as_bytes(), i: 0, surrogate_pairs: 0 };
    let v = p.value(0)?;
    p.ws();
    if p.i != t.len() {
        return Err(PErr::Invalid("trailing characters"));
    }
    Ok(Parsed { value: v, surrogate_pairs: p.surrogate_pairs })
}

fn json_trim_end(t: &str) -> &str {
    t.trim_end_matches(|c| c == ' ' || c == '\t' || c == '\n' || c == '\r')
}

// ------------------------------------------------------------------------------------------
// renderer
// ------------------------------------------------------------------------------------------

#[derive(Clone, Copy)]
struct Style {
    /// 0 compact, 1 single spaces, 2 pretty (newline + indent), 3 random runs of " \t\n\r"
    ws: u8,
    /// per-mille chance to write a printable BMP char as \uXXXX
    esc_u: u64,
    /// per-mille chance to write a non-BMP char as a \uD8xx\uDCxx surrogate pair (else raw UTF-8)
    esc_pair: u64,
    /// per-mille chance to write '/' as "\/"
    esc_slash: u64,
}

const PLAIN: Style = Style { ws: 0, esc_u: 0, esc_pair: 0, esc_slash: 0 };

fn put_ws(rng: &mut Rng, st: &Style, out: &mut String, depth: usize, newline_ok: bool) {
    match st.ws {
        0 => {}
        1 => {
            if rng.chance(1, 2) {
                out.push(' ')
            }
        }
        2 => {
            if newline_ok {
                out.push('\n');
                for _ in 0..depth {
                    out.push_str("  ")
                }
            } else {
                out.push(' ')
            }
        }
        _ => {
            for _ in 0..rng.below(4) {
                out.push(*rng.pick(&[' ', ' ', '\t', '\n', '\r']))
            }
        }
    }
}

fn put_u(rng: &mut Rng, out: &mut String, u: u32) {
    let s = match rng.below(3) {
        0 => format!("\\u{:04x}", u),
        1 => format!("\\u{:04X}", u),
        _ => {
            // mixed case
            let l = format!("{:04x}", u);
            let mut m = String::from("\\u");
            for ch in l.chars() {
                if rng.chance(1, 2) {
                    m.push(ch.to_ascii_uppercase())
                } else {
                    m.push(ch)
                }
            }
            m
        }
    };
    out.push_str(&s);
}

fn render_str(s: &str, rng: &mut Rng, st: &Style, out: &mut String) {
    out.push('"');
    if st.esc_u == 0 && st.esc_pair == 0 && st.esc_slash == 0 && s.len() > 4096 {
        // fast path for very long strings
        for c in s.chars() {
            match c {
                '"' => out.push_str("\\\""),
                '\\' => out.push_str("\\\\"),
                c if (c as u32) < 0x20 => out.push_str(&format!("\\u{:04x}", c as u32)),
                c => out.push(c),
            }
        }
        out.push('"');
        return;
    }
    for c in s.chars() {
        let u = c as u32;
        match c {
            '"' => {
                if rng.chance(1, 8) {
                    put_u(rng, out, u)
                } else {
                    out.push_str("\\\"")
                }
            }
            '\\' => {
                if rng.chance(1, 8) {
                    put_u(rng, out, u)
                } else {
                    out.push_str("\\\\")
                }
            }
            '\u{8}' | '\u{c}' | '\n' | '\r' | '\t' if rng.chance(2, 3) => out.push_str(match c {
                '\u{8}' => "\\b",
                '\u{c}' => "\\f",
                '\n' => "\\n",
                '\r' => "\\r",
                _ => "\\t",
            }),
            _ if u < 0x20 => put_u(rng, out, u),
            '/' if rng.below(1000) < st.esc_slash => out.push_str("\\/"),
            _ if u > 0xFFFF => {
                if rng.below(1000) < st.esc_pair {
                    let v = u - 0x10000;
                    put_u(rng, out, 0xD800 + (v >> 10));
                    put_u(rng, out, 0xDC00 + (v & 0x3FF));
                } else {
                    out.push(c)
                }
            }
            _ => {
                if st.esc_u > 0 && rng.below(1000) < st.esc_u {
                    put_u(rng, out, u)
                } else {
                    out.push(c)
                }
            }
        }
    }
    out.push('"');
}

fn render(j: &J, rng: &mut Rng, st: &Style, out: &mut String, depth: usize) {
    match j {
        J::Null => out.push_str("null"),
        J::Bool(true) => out.push_str("true"),
        J::Bool(false) => out.push_str("false"),
        J::Num(v, Some(t)) => {
            let _ = v;
            out.push_str(t)
        }
        J::Num(v, None) => out.push_str(&format!("{:?}", v)),
        J::Str(s) => render_str(s, rng, st, out),
        J::Arr(x) => {
            out.push('[');
            for (i, e) in x.iter().enumerate() {
                if i > 0 {
                    put_ws(rng, st, out, depth, false);
                    out.push(',');
                }
                put_ws(rng, st, out, depth + 1, true);
                render(e, rng, st, out, depth + 1);
            }
            put_ws(rng, st, out, depth, !x.is_empty());
            out.push(']');
        }
        J::Obj(x) => {
            out.push('{');
            for (i, (k, v)) in x.iter().enumerate() {
                if i > 0 {
                    put_ws(rng, st, out, depth, false);
                    out.push(',');
                }
                put_ws(rng, st, out, depth + 1, true);
                render_str(k, rng, st, out);
                put_ws(rng, st, out, depth, false);
                out.push(':');
                put_ws(rng, st, out, depth, false);
                render(v, rng, st, out, depth + 1);
            }
            put_ws(rng, st, out, depth, !x.is_empty());
            out.push('}');
        }
    }
}

fn render_doc(j: &J, rng: &mut Rng, st: &Style) -> String {
    let mut out = String::new();
    put_ws(rng, st, &mut out, 0, false);
    render(j, rng, st, &mut out, 0);
    put_ws(rng, st, &mut out, 0, false);
    out
}

// ------------------------------------------------------------------------------------------
// generator
// ------------------------------------------------------------------------------------------

const KEY_POOL: &[&str] = &[
    "a", "b", "c", "id", "name", "k1", "k10", "k2", "", "A", "é", "key with space", "\"q\"", "a\\b", "\u{1F600}", "z", "aa", "ab", "a\u{0}",
    "a/b", "0", "1", "ключ", "キー", "\u{FFFF}", "\u{10000}", "aaa", "aab", "~",
];

const SPECIAL_CHARS: &[char] = &[
    '"', '\\', '/', '\u{0}', '\u{1}', '\u{8}', '\u{c}', '\n', '\r', '\t', '\u{1f}', ' ', '\u{7f}', '\u{80}', '\u{9f}', '\u{a0}', 'é', 'ß', 'Ω', 'ж',
    '中', '日', '\u{0301}', '\u{200b}', '\u{2028}', '\u{2029}', '\u{d7ff}', '\u{e000}', '\u{fffd}', '\u{fffe}', '\u{ffff}', '\u{10000}', '\u{1F600}',
    '\u{1F468}', '\u{10FFFF}', '\u{1D11E}', '{', '}', '[', ']', ':', ',', 'u', 'n',
];

struct Gen<'r> {
    rng: &'r mut Rng,
    budget: i64,
    max_depth: usize,
    /// Miri: short strings, narrow containers
    small: bool,
}

impl<'r> Gen<'r> {
    fn gen_char(&mut self) -> char {
        match self.rng.below(10) {
            0..=4 => (b'a' + self.rng.below(26) as u8) as char,
            5 => (b'0' + self.rng.below(10) as u8) as char,
            6 => (0x20 + self.rng.below(0x5f) as u8) as char,
            7 | 8 => *self.rng.pick(SPECIAL_CHARS),
            _ => loop {
                // any scalar value, biased to the BMP
                let u = if self.rng.chance(3, 4) { self.rng.below(0x10000) as u32 } else { self.rng.below(0x110000) as u32 };
                if let Some(c) = char::from_u32(u) {
                    break c;
                }
            },
        }
    }
    fn gen_string(&mut self) -> String {
        let n = match self.rng.below(20) {
            0 | 1 => 0,
            2..=14 => self.rng.usize(1, 8),
            15..=18 => self.rng.usize(9, 40),
            _ => self.rng.usize(41, 300),
        };
        let n = if self.small { n.min(10) } else { n };
        (0..n).map(|_| self.gen_char()).collect()
    }
    fn gen_key(&mut self) -> String {
        match self.rng.below(10) {
            0..=5 => self.rng.pick(KEY_POOL).to_string(),
            6 | 7 => format!("k{}", self.rng.below(50)),
            _ => self.gen_string(),
        }
    }
    fn gen_number(&mut self) -> J {
        let r = &mut *self.rng;
        let text: String = match r.below(12) {
            0 => (*r.pick(&["0", "-0", "1", "-1", "0.0", "-0.0", "0e0", "0E+0", "-0e-0", "10", "0.5", "-0.1"])).to_string(),
            1 => format!("{}", r.range(-1000, 1000)),
            2 => format!("{}", r.next() as i64 >> r.below(64)),
            3 => {
                // long digit strings (beyond 2^64)
                let n = r.usize(18, 40);
                let mut s = String::new();
                if r.chance(1, 2) {
                    s.push('-')
                }
                s.push((b'1' + r.below(9) as u8) as char);
                for _ in 1..n {
                    s.push((b'0' + r.below(10) as u8) as char)
                }
                s
            }
            4 | 5 => {
                // int.frac
                let mut s = String::new();
                if r.chance(1, 3) {
                    s.push('-')
                }
                if r.chance(1, 3) {
                    s.push('0')
                } else {
                    s.push_str(&format!("{}", r.below(1_000_000) + 1))
                }
                s.push('.');
                for _ in 0..r.usize(1, 20) {
                    s.push((b'0' + r.below(10) as u8) as char)
                }
                s
            }
            6 | 7 => {
                // mantissa with exponent in every spelling
                let mut s = String::new();
                if r.chance(1, 3) {
                    s.push('-')
                }
                s.push_str(&format!("{}", r.below(10_000)));
                if r.chance(1, 2) {
                    s.push('.');
                    for _ in 0..r.usize(1, 17) {
                        s.push((b'0' + r.below(10) as u8) as char)
                    }
                }
                s.push(if r.chance(1, 2) { 'e' } else { 'E' });
                let e = if r.chance(1, 4) { r.range(-330, 300) } else { r.range(-30, 30) };
                if e < 0 {
                    s.push('-')
                } else if r.chance(1, 2) {
                    s.push('+')
                }
                if r.chance(1, 6) {
                    s.push_str("00")
                }
                s.push_str(&format!("{}", e.abs()));
                s
            }
            8 | 9 => {
                // arbitrary finite f64 in shortest round-trip spellings
                let v = loop {
                    let v = f64::from_bits(r.next());
                    if v.is_finite() {
                        break v;
                    }
                };
                let t = match r.below(3) {
                    0 => format!("{:?}", v),
                    1 => format!("{:e}", v),
                    _ => format!("{:E}", v),
                };
                // the std guarantees these spellings parse back to the same bits
                assert_eq!(t.parse::<f64>().unwrap().to_bits(), v.to_bits(), "harness: std float round trip");
                t
            }
            10 => (*r.pick(&[
                "1.7976931348623157e308",
                "-1.7976931348623157E+308",
                "5e-324",
                "4.9406564584124654e-324",
                "2.2250738585072014e-308",
                "2.2250738585072011e-308",
                "9007199254740993",
                "9007199254740992",
                "-9223372036854775808",
                "18446744073709551615",
                "0.1",
                "1e-400",
                "0.30000000000000004",
                "123456789012345678901234567890",
                "1E0",
                "1e+007",
            ]))
            .to_string(),
            _ => format!("{}", r.range(-9, 9)),
        };
        let v: f64 = text.parse().expect("harness: generated number must parse");
        if !v.is_finite() {
            return J::Num(1.0, Some("1".into()));
        }
        J::Num(v, Some(text))
    }
    fn gen_scalar(&mut self) -> J {
        match self.rng.below(10) {
            0 => J::Null,
            1 => J::Bool(self.rng.chance(1, 2)),
            2..=5 => self.gen_number(),
            _ => J::Str(self.gen_string()),
        }
    }
    fn gen_value(&mut self, depth: usize, want_container: bool) -> J {
        self.budget -= 1;
        let can_nest = depth < self.max_depth && self.budget > 0;
        let k = self.rng.below(100);
        if !can_nest || (!want_container && k < 55) {
            return self.gen_scalar();
        }
        let n = match self.rng.below(20) {
            0 | 1 => 0,
            2..=15 => self.rng.usize(1, 5),
            16..=18 => self.rng.usize(6, 12),
            _ => self.rng.usize(13, 30),
        };
        // sometimes force a narrow deep chain so depth 8 is reached often
        let chain = self.rng.chance(1, 5);
        let n = if chain { n.min(2).max(1) } else { n };
        let n = if self.small { n.min(4) } else { n };
        if k % 2 == 0 {
            J::Arr((0..n).map(|_| self.gen_value(depth + 1, chain)).collect())
        } else {
            let mut pairs: Vec<(String, J)> = vec![];
            for _ in 0..n {
                let key = self.gen_key();
                let v = self.gen_value(depth + 1, chain);
                pairs.push((key, v));
            }
            if !pairs.is_empty() && self.rng.chance(3, 20) {
                // explicit duplicate (possibly a different value type)
                let key = pairs[self.rng.below(pairs.len() as u64) as usize].0.clone();
                let v = self.gen_value(depth + 1, false);
                let at = self.rng.usize(0, pairs.len());
                pairs.insert(at, (key, v));
            }
            match self.rng.below(10) {
                0 => pairs.sort_by(|a, b| a.0.cmp(&b.0)),
                1 => pairs.sort_by(|a, b| b.0.cmp(&a.0)),
                _ => {}
            }
            J::Obj(pairs)
        }
    }
}

fn gen_doc(rng: &mut Rng, small: bool) -> J {
    let budget = if small { 10 } else { *rng.pick(&[6i64, 20, 20, 40, 40, 80, 200]) };
    let max_depth = if rng.chance(1, 3) { 8 } else { rng.usize(1, 8) };
    let root_container = rng.chance(4, 5);
    let mut g = Gen { rng, budget, max_depth, small };
    g.gen_value(0, root_container)
}

/// object with many keys (binary search depth, shared prefixes, unsorted, a few duplicates)
fn gen_many_keys(rng: &mut Rng, n: usize) -> J {
    let mut pairs = Vec::with_capacity(n);
    let style = rng.below(3);
    for i in 0..n {
        let k = match style {
            0 => format!("k{}", rng.below(n as u64 * 4)),
            1 => format!("{}{}", "p".repeat(rng.usize(0, 6)), rng.below(n as u64 * 2)),
            _ => format!("key_{:05}", (i * 7919) % (n + 13)),
        };
        let v = match rng.below(4) {
            0 => J::Num(i as f64, Some(format!("{}", i))),
            1 => J::Str(format!("v{}", i)),
            2 => J::Arr(vec![J::Num(i as f64, None), J::Null]),
            _ => J::Obj(vec![("i".into(), J::Num(i as f64, None))]),
        };
        pairs.push((k, v));
    }
    let doc = J::Obj(pairs);
    if rng.chance(1, 3) {
        J::Arr(vec![J::Bool(true), doc])
    } else {
        doc
    }
}

fn long_text(rng: &mut Rng, bytes: usize) -> String {
    // mixed ASCII / 2- / 3- / 4-byte characters, exact byte length
    let mut s = String::with_capacity(bytes + 4);
    let multi = rng.chance(1, 2);
    while s.len() < bytes {
        let left = bytes - s.len();
        let c = if multi && left >= 4 && rng.chance(1, 4) {
            *rng.pick(&['é', '中', '\u{1F600}', 'ж'])
        } else {
            (b'a' + rng.below(26) as u8) as char
        };
        if c.len_utf8() <= left {
            s.push(c)
        }
    }
    s
}

/// strings and keys around the 65 535-byte boundary, at the root and nested
fn gen_long(rng: &mut Rng) -> J {
    let len = *rng.pick(&[65_534usize, 65_535, 65_536, 65_537, 65_540, 66_000, 70_000, 131_075]);
    let s = long_text(rng, len);
    match rng.below(5) {
        0 => J::Str(s),
        1 => J::Arr(vec![J::Num(1.0, None), J::Str(s), J::Str("after".into())]),
        2 => J::Obj(vec![("b".into(), J::Str(s)), ("a".into(), J::Num(1.0, None)), ("c".into(), J::Str("after".into()))]),
        3 => J::Obj(vec![("m".into(), J::Num(2.0, None)), (s, J::Num(1.0, None)), ("zz".into(), J::Str("after".into())), ("a".into(), J::Bool(true))]),
        _ => J::Arr(vec![J::Obj(vec![("x".into(), J::Arr(vec![J::Str(s)]))])]),
    }
}

// ------------------------------------------------------------------------------------------
// JSONB view vs model
// ------------------------------------------------------------------------------------------

#[derive(Debug)]
struct Mis {
    /// concrete cause, goes into the violation signature
    kind: String,
    path: String,
    detail: String,
}

type R = Result<(), Mis>;

#[derive(Clone, Copy, Debug)]
enum Seg<'m> {
    K(&'m str),
    I(usize),
    T(&'static str),
}

fn mis(kind: &str, path: &[Seg], detail: String) -> Mis {
    let mut d = detail;
    if d.len() > 400 {
        let mut cut = 400;
        while !d.is_char_boundary(cut) {
            cut -= 1;
        }
        d.truncate(cut);
        d.push_str("...");
    }
    let mut p = String::new();
    for s in path {
        p.push('/');
        match s {
            Seg::K(k) => p.push_str(&short_key(k)),
            Seg::I(i) => p.push_str(&i.to_string()),
            Seg::T(t) => p.push_str(t),
        }
    }
    Mis { kind: kind.to_string(), path: p, detail: d }
}

fn is_long_str(m: &J) -> bool {
    matches!(m, J::Str(s) if s.len() > U16_MAX_LEN)
}

fn vname(v: &JsonbValue) -> &'static str {
    match v {
        JsonbValue::Null => "null",
        JsonbValue::Bool(_) => "bool",
        JsonbValue::Number(_) => "number",
        JsonbValue::String(_) => "string",
        JsonbValue::Array(_) => "array",
        JsonbValue::Object(_) => "object",
    }
}

#[derive(Default)]
struct Stats {
    key_lookups: u64,
    absent_probes: u64,
    index_lookups: u64,
    paths: u64,
    paths_hit: u64,
    dup_key_lookups: u64,
    owned_api: u64,
}

struct Cmp<'r> {
    rng: &'r mut Rng,
    st: &'r mut Stats,
    /// any object of the document has a key longer than 65 535 bytes (path checks attribute to it)
    doc_long_key: bool,
}

fn short_key(k: &str) -> String {
    if k.len() > 24 {
        let mut cut = 24;
        while !k.is_char_boundary(cut) {
            cut -= 1;
        }
        format!("{}..({}B)", &k[..cut], k.len())
    } else {
        k.to_string()
    }
}

impl<'r> Cmp<'r> {
    fn val<'m>(&mut self, v: &JsonbValue, m: &'m J, path: &mut Vec<Seg<'m>>, deep: bool) -> R {
        match (v, m) {
            (JsonbValue::Null, J::Null) => Ok(()),
            (JsonbValue::Bool(a), J::Bool(b)) if a == b => Ok(()),
            (JsonbValue::Number(a), J::Num(b, _)) if a == b => Ok(()),
            (JsonbValue::String(a), J::Str(b)) if *a == b.as_str() => Ok(()),
            (JsonbValue::Array(view), J::Arr(items)) => self.arr(view, items, path, deep),
            (JsonbValue::Object(view), J::Obj(pairs)) => self.obj(view, pairs, path, deep),
            _ => {
                let kind = if is_long_str(m) {
                    "string_over_65535_bytes".to_string()
                } else if vname(v) == tname(m) {
                    format!("value_differs/{}", tname(m))
                } else {
                    format!("type_differs/{}_read_as_{}", tname(m), vname(v))
                };
                let md = match m {
                    J::Str(s) => format!("string of {} bytes: {:?}", s.len(), short_key(s)),
                    J::Num(x, t) => format!("number {:?} (text {:?})", x, t),
                    o => tname(o).to_string(),
                };
                let vd = match v {
                    JsonbValue::String(s) => format!("string of {} bytes: {:?}", s.len(), short_key(s)),
                    o => format!("{:?}", o).chars().take(120).collect(),
                };
                Err(mis(&kind, path, format!("model {} ; read back {}", md, vd)))
            }
        }
    }

    fn arr<'m>(&mut self, view: &JsonbView, items: &'m [J], path: &mut Vec<Seg<'m>>, deep: bool) -> R {
        let n = view.array_len().map_err(|e| mis("err/array_len", path, e.to_string()))?;
        if n != items.len() {
            return Err(mis("array_len", path, format!("model {} elements, array_len {}", items.len(), n)));
        }
        if !deep {
            return Ok(());
        }
        let mut it = view.iter_array().map_err(|e| mis("err/iter_array", path, e.to_string()))?;
        for (i, item) in items.iter().enumerate() {
            self.st.index_lookups += 1;
            path.push(Seg::I(i));
            let got = view.array_get(i);
            let from_iter = it.next();
            match got {
                Err(e) => {
                    let k = if is_long_str(item) { "string_over_65535_bytes" } else { "err/array_get" };
                    return Err(mis(k, path, e.to_string()));
                }
                Ok(None) => return Err(mis("array_get_none_inside_bounds", path, format!("len {}", n))),
                Ok(Some(v)) => {
                    self.val(&v, item, path, true)?;
                    match from_iter {
                        Some(Ok(w)) if w == v => {}
                        other => return Err(mis("iter_array_differs_from_array_get", path, format!("{:?}", other.map(|r| r.map_err(|e| e.to_string()))))),
                    }
                }
            }
            path.pop();
        }
        if it.next().is_some() {
            return Err(mis("iter_array_too_long", path, String::new()));
        }
        for idx in [n, n + 1 + self.rng.below(1000) as usize, usize::MAX] {
            match view.array_get(idx) {
                Ok(None) => {}
                other => return Err(mis("array_get_past_end", path, format!("idx {} -> {:?}", idx, other.map_err(|e| e.to_string())))),
            }
        }
        Ok(())
    }

    fn obj<'m>(&mut self, view: &JsonbView, pairs: &'m [(String, J)], path: &mut Vec<Seg<'m>>, deep: bool) -> R {
        let g = group(pairs);
        let long_key = pairs.iter().any(|(k, _)| k.len() > U16_MAX_LEN);
        let fk = |k: &str| if long_key { "key_over_65535_bytes".to_string() } else { k.to_string() };
        let n = view.object_len().map_err(|e| mis(&fk("err/object_len"), path, e.to_string()))?;
        let ok_len = if g.len() == pairs.len() { n == pairs.len() } else { n >= g.len() && n <= pairs.len() };
        if !ok_len {
            return Err(mis(&fk("object_len"), path, format!("model {} pairs / {} distinct keys, object_len {}", pairs.len(), g.len(), n)));
        }
        if !deep {
            return Ok(());
        }
        // every key looked up yields its value
        let mut keys: Vec<&str> = g.keys().copied().collect();
        keys.sort_unstable();
        for k in &keys {
            let cands = &g[k];
            self.st.key_lookups += 1;
            path.push(Seg::K(k));
            match view.get(k) {
                Err(e) => {
                    let kind = if cands.iter().any(|c| is_long_str(c)) && !long_key { "string_over_65535_bytes".to_string() } else { fk("err/get") };
                    return Err(mis(&kind, path, e.to_string()));
                }
                Ok(None) => return Err(mis(&fk("get_existing_key_none"), path, format!("object has {} pairs", pairs.len()))),
                Ok(Some(v)) => {
                    if cands.len() == 1 {
                        self.val(&v, cands[0], path, true).map_err(|mut e| {
                            if long_key {
                                e.kind = "key_over_65535_bytes".into()
                            }
                            e
                        })?;
                    } else {
                        self.st.dup_key_lookups += 1;
                        let mut any = false;
                        let l = path.len();
                        for c in cands.iter() {
                            let ok = self.val(&v, c, path, true).is_ok();
                            path.truncate(l);
                            if ok {
                                any = true;
                                break;
                            }
                        }
                        if !any {
                            return Err(mis(&fk("dup_key_value_not_among_given"), path, format!("{} candidates; read back {}", cands.len(), vname(&v))));
                        }
                    }
                }
            }
            path.pop();
        }
        // absent keys yield None
        let mut probes: Vec<String> = vec![String::new(), "\u{10FFFF}\u{10FFFF}".into()];
        for _ in 0..1.min(keys.len()) {
            let k = *self.rng.pick(&keys);
            probes.push(format!("{}\u{0}", k));
            probes.push(format!("{}a", k));
            let mut p = k.to_string();
            p.pop();
            probes.push(p);
            let mut q: Vec<char> = k.chars().collect();
            if let Some(l) = q.last_mut() {
                *l = char::from_u32(*l as u32 + 1).unwrap_or('x');
            }
            probes.push(q.into_iter().collect());
        }
        for p in probes {
            if g.contains_key(p.as_str()) {
                continue;
            }
            self.st.absent_probes += 1;
            match view.get(&p) {
                Ok(None) => {}
                other => {
                    path.push(Seg::T("<absent key probe>"));
                    return Err(mis(&fk("get_absent_key_found"), path, format!("probe {:?} -> {:?}", short_key(&p), other.map_err(|e| e.to_string())).chars().take(240).collect()));
                }
            }
        }
        // iteration: exactly the model's keys, each value one of the values given for it, sorted
        let mut seen: HashMap<&str, u32> = HashMap::with_capacity(g.len());
        let mut count = 0usize;
        let mut prev: Option<&str> = None;
        for item in view.iter_object().map_err(|e| mis(&fk("err/iter_object"), path, e.to_string()))? {
            let (k, v) = match item {
                Ok(x) => x,
                Err(e) => {
                    let kind = if pairs.iter().any(|(_, v)| is_long_str(v)) && !long_key { "string_over_65535_bytes".to_string() } else { fk("err/iter_object_item") };
                    return Err(mis(&kind, path, e.to_string()));
                }
            };
            count += 1;
            let (mk, cands) = match g.get_key_value(k) {
                Some(x) => x,
                None => return Err(mis(&fk("iter_object_unknown_key"), path, short_key(k))),
            };
            *seen.entry(*mk).or_insert(0) += 1;
            if let Some(p) = prev {
                if p > k {
                    return Err(mis(&fk("iter_object_keys_not_sorted"), path, format!("{:?} before {:?}", short_key(p), short_key(k))));
                }
            }
            prev = Some(*mk);
            path.push(Seg::K(*mk));
            let mut any = false;
            let l = path.len();
            for c in cands.iter() {
                // shallow for nested containers: they were compared deeply through get()
                let ok = self.val(&v, c, path, false).is_ok();
                path.truncate(l);
                if ok {
                    any = true;
                    break;
                }
            }
            if !any {
                let kind = if cands.iter().any(|c| is_long_str(c)) && !long_key { "string_over_65535_bytes".to_string() } else { fk("iter_object_value_differs") };
                return Err(mis(&kind, path, format!("read back {}", vname(&v))));
            }
            path.pop();
        }
        if count != n || seen.len() != g.len() {
            return Err(mis(&fk("iter_object_key_set"), path, format!("iterated {} pairs / {} distinct, object_len {}, model distinct {}", count, seen.len(), n, g.len())));
        }
        // path lookup == stepwise lookup == model
        let npaths = if pairs.is_empty() { 1 } else { 2 };
        for _ in 0..npaths {
            self.path_check(view, pairs, path)?;
        }
        Ok(())
    }

    fn path_check<'m>(&mut self, view: &JsonbView, pairs: &'m [(String, J)], at: &mut Vec<Seg<'m>>) -> R {
        // random walk through nested objects; sometimes an absent key, sometimes one step too many
        let mut steps: Vec<String> = vec![];
        let mut cur: Option<&[(String, J)]> = Some(pairs);
        while let Some(ps) = cur {
            if ps.is_empty() || self.rng.chance(1, 10) {
                steps.push(if self.rng.chance(1, 2) { "nope".into() } else { "0".into() });
                break;
            }
            let (k, v) = &ps[self.rng.below(ps.len() as u64) as usize];
            steps.push(k.clone());
            cur = match v {
                J::Obj(n) if steps.len() < 8 && self.rng.chance(4, 5) => Some(n.as_slice()),
                _ => None,
            };
        }
        if self.rng.chance(1, 6) {
            steps.push(self.rng.pick(KEY_POOL).to_string());
        }
        let p: Vec<&str> = steps.iter().map(|s| s.as_str()).collect();
        self.st.paths += 1;
        let lk = self.doc_long_key;
        let fk = |k: &str| if lk { "key_over_65535_bytes".to_string() } else { k.to_string() };
        // model expectation
        enum Exp<'m> {
            Val(&'m J),
            Missing,
            Unknown,
        }
        let mut exp = Exp::Unknown;
        {
            let mut node: Option<&J> = None;
            let mut level: Option<&[(String, J)]> = Some(pairs);
            let mut decided = false;
            for k in &p {
                let ps = match level {
                    Some(ps) => ps,
                    None => {
                        exp = Exp::Missing;
                        decided = true;
                        break;
                    }
                };
                let c: Vec<&J> = ps.iter().filter(|(kk, _)| kk == k).map(|(_, v)| v).collect();
                match c.len() {
                    0 => {
                        exp = Exp::Missing;
                        decided = true;
                        break;
                    }
                    1 => {
                        node = Some(c[0]);
                        level = match c[0] {
                            J::Obj(n) => Some(n.as_slice()),
                            _ => None,
                        };
                    }
                    _ => {
                        exp = Exp::Unknown;
                        decided = true;
                        break;
                    }
                }
            }
            if !decided {
                if let Some(n) = node {
                    exp = Exp::Val(n)
                }
            }
        }
        let by_path = view.get_path(&p);
        // stepwise
        let stepwise = (|| -> eyre::Result<Option<JsonbValue>> {
            let mut curv: Option<JsonbValue> = Some(JsonbValue::Object(*view));
            for k in &p {
                curv = match curv {
                    Some(JsonbValue::Object(v)) => v.get(k)?,
                    _ => None,
                };
            }
            Ok(curv)
        })();
        at.push(Seg::T("<get_path>"));
        let full = at;
        let steps_d = format!("path {:?}: ", steps.iter().map(|s| short_key(s)).collect::<Vec<_>>());
        match (&by_path, &stepwise) {
            (Ok(a), Ok(b)) if a == b => {}
            (Err(_), Err(_)) => {}
            _ => {
                return Err(mis(
                    &fk("get_path_differs_from_stepwise_get"),
                    full,
                    format!("{}get_path {:?} ; stepwise {:?}", steps_d, by_path.as_ref().map(|o| o.as_ref().map(vname)).map_err(|e| e.to_string()), stepwise.as_ref().map(|o| o.as_ref().map(vname)).map_err(|e| e.to_string())),
                ))
            }
        }
        match exp {
            Exp::Unknown => {}
            Exp::Missing => match by_path {
                Ok(None) => {}
                other => return Err(mis(&fk("get_path_absent_found"), full, format!("{}{:?}", steps_d, other.map(|o| o.as_ref().map(vname)).map_err(|e| e.to_string())))),
            },
            Exp::Val(m) => match by_path {
                Ok(Some(v)) => {
                    self.st.paths_hit += 1;
                    self.val(&v, m, full, false).map_err(|mut e| {
                        if lk {
                            e.kind = "key_over_65535_bytes".into()
                        }
                        e.kind = format!("get_path/{}", e.kind);
                        e
                    })?
                }
                Ok(None) => return Err(mis(&fk("get_path_existing_none"), full, steps_d)),
                Err(e) => {
                    let kind = if is_long_str(m) && !lk { "string_over_65535_bytes".to_string() } else { fk("err/get_path") };
                    return Err(mis(&kind, full, format!("{}{}", steps_d, e)));
                }
            },
        }
        full.pop();
        Ok(())
    }

    /// `OwnedValue::jsonb_get / jsonb_get_path / jsonb_array_get` on the root
    fn owned_api<'m>(&mut self, bytes: &[u8], m: &'m J) -> R {
        let ov = OwnedValue::Jsonb(bytes.to_vec());
        let mut path: Vec<Seg<'m>> = vec![Seg::T("<OwnedValue>")];
        let lk = self.doc_long_key;
        let fk = |k: &str| if lk { "key_over_65535_bytes".to_string() } else { k.to_string() };
        match m {
            J::Obj(pairs) => {
                let g = group(pairs);
                for _ in 0..3.min(pairs.len()) {
                    let k = pairs[self.rng.below(pairs.len() as u64) as usize].0.as_str();
                    let cands = &g[k];
                    self.st.owned_api += 1;
                    path.push(Seg::K(k));
                    let a = ov.jsonb_get(k);
                    let b = ov.jsonb_get_path(&[k]);
                    match (&a, &b) {
                        (Ok(x), Ok(y)) if x == y => {}
                        (Err(_), Err(_)) => {}
                        _ => return Err(mis(&fk("owned/jsonb_get_path_differs_from_jsonb_get"), &path, format!("{:?} vs {:?}", a.is_ok(), b.is_ok()))),
                    }
                    match a {
                        Ok(Some(o)) => {
                            let mut any = false;
                            let mut last = None;
                            let l = path.len();
                            for c in cands.iter() {
                                let r = self.owned(&o, c, &mut path);
                                path.truncate(l);
                                match r {
                                    Ok(()) => {
                                        any = true;
                                        break;
                                    }
                                    Err(e) => last = Some(e),
                                }
                            }
                            if !any {
                                let mut e = last.unwrap();
                                e.kind = format!("owned/{}", if lk { "key_over_65535_bytes" } else { e.kind.as_str() });
                                return Err(e);
                            }
                        }
                        Ok(None) => return Err(mis(&fk("owned/jsonb_get_existing_key_none"), &path, String::new())),
                        Err(e) => {
                            let kind = if cands.iter().any(|c| is_long_str(c)) && !lk { "string_over_65535_bytes".to_string() } else { fk("owned/err/jsonb_get") };
                            return Err(mis(&kind, &path, e.to_string()));
                        }
                    }
                    path.pop();
                }
                if !g.contains_key("no such key") {
                    match ov.jsonb_get("no such key") {
                        Ok(None) => {}
                        other => return Err(mis(&fk("owned/jsonb_get_absent_found"), &path, format!("{:?}", other.map_err(|e| e.to_string())).chars().take(200).collect())),
                    }
                }
            }
            J::Arr(items) => {
                for _ in 0..3.min(items.len()) {
                    let i = self.rng.below(items.len() as u64) as usize;
                    self.st.owned_api += 1;
                    path.push(Seg::I(i));
                    match ov.jsonb_array_get(i) {
                        Ok(Some(o)) => self.owned(&o, &items[i], &mut path).map_err(|mut e| {
                            e.kind = format!("owned/{}", e.kind);
                            e
                        })?,
                        Ok(None) => return Err(mis("owned/jsonb_array_get_none_inside_bounds", &path, String::new())),
                        Err(e) => {
                            let kind = if is_long_str(&items[i]) { "string_over_65535_bytes" } else { "owned/err/jsonb_array_get" };
                            return Err(mis(kind, &path, e.to_string()));
                        }
                    }
                    path.pop();
                }
                match ov.jsonb_array_get(items.len()) {
                    Ok(None) => {}
                    other => return Err(mis("owned/jsonb_array_get_past_end", &path, format!("{:?}", other.map_err(|e| e.to_string())).chars().take(200).collect())),
                }
            }
            _ => {}
        }
        Ok(())
    }

    fn owned<'m>(&mut self, o: &OwnedValue, m: &'m J, path: &mut Vec<Seg<'m>>) -> R {
        match (o, m) {
            (OwnedValue::Null, J::Null) => Ok(()),
            (OwnedValue::Bool(a), J::Bool(b)) if a == b => Ok(()),
            (OwnedValue::Float(a), J::Num(b, _)) if a == b => Ok(()),
            (OwnedValue::Text(a), J::Str(b)) if a == b => Ok(()),
            (OwnedValue::Jsonb(b), J::Arr(_)) | (OwnedValue::Jsonb(b), J::Obj(_)) => {
                let view = JsonbView::new(b).map_err(|e| mis("err/JsonbView::new", path, e.to_string()))?;
                let v = view.as_value().map_err(|e| mis("err/as_value", path, e.to_string()))?;
                self.val(&v, m, path, true)
            }
            _ => {
                let kind = if is_long_str(m) { "string_over_65535_bytes".to_string() } else { format!("value_differs/{}", tname(m)) };
                Err(mis(&kind, path, format!("model {} ; OwnedValue {}", tname(m), format!("{:?}", o).chars().take(80).collect::<String>())))
            }
        }
    }
}

// ------------------------------------------------------------------------------------------
// driving TurDB
// ------------------------------------------------------------------------------------------

fn conv(v: &JsonValue) -> J {
    match v {
        JsonValue::Null => J::Null,
        JsonValue::Bool(b) => J::Bool(*b),
        JsonValue::Number(n) => J::Num(*n, None),
        JsonValue::String(s) => J::Str(s.clone()),
        JsonValue::Array(x) => J::Arr(x.iter().map(conv).collect()),
        JsonValue::Object(x) => J::Obj(x.iter().map(|(k, v)| (k.clone(), conv(v))).collect()),
    }
}

fn to_bv(v: &JsonValue) -> JsonbBuilderValue {
    match v {
        JsonValue::Null => JsonbBuilderValue::Null,
        JsonValue::Bool(b) => JsonbBuilderValue::Bool(*b),
        JsonValue::Number(n) => JsonbBuilderValue::Number(*n),
        JsonValue::String(s) => JsonbBuilderValue::String(s.clone()),
        JsonValue::Array(x) => JsonbBuilderValue::Array(x.iter().map(to_bv).collect()),
        JsonValue::Object(x) => JsonbBuilderValue::Object(x.iter().map(|(k, v)| (k.clone(), to_bv(v))).collect()),
    }
}

/// the encoder the database itself uses (`JsonbBuilder`), driven the way src/database/convert.rs does
fn build_with_builder(v: &JsonValue) -> Vec<u8> {
    match v {
        JsonValue::Null => JsonbBuilder::new_null().build(),
        JsonValue::Bool(b) => JsonbBuilder::new_bool(*b).build(),
        JsonValue::Number(n) => JsonbBuilder::new_number(*n).build(),
        JsonValue::String(s) => JsonbBuilder::new_string(s.clone()).build(),
        JsonValue::Array(x) => {
            let mut b = JsonbBuilder::new_array();
            for e in x {
                b.push(to_bv(e));
            }
            b.build()
        }
        JsonValue::Object(x) => {
            let mut b = JsonbBuilder::new_object();
            for (k, e) in x {
                b.set(k.clone(), to_bv(e));
            }
            b.build()
        }
    }
}

/// first difference between TurDB's parse tree and the model (cause for the signature)
fn jdiff(a: &J, b: &J) -> String {
    match (a, b) {
        (J::Arr(x), J::Arr(y)) => {
            if x.len() != y.len() {
                return "array_len".into();
            }
            for (p, q) in x.iter().zip(y) {
                if !jeq(p, q) {
                    return jdiff(p, q);
                }
            }
            "array".into()
        }
        (J::Obj(x), J::Obj(y)) => {
            if x.len() == y.len() {
                for (p, q) in x.iter().zip(y) {
                    if p.0 != q.0 {
                        return "object_key".into();
                    }
                    if !jeq(&p.1, &q.1) {
                        return jdiff(&p.1, &q.1);
                    }
                }
            }
            "object_pairs".into()
        }
        _ if tname(a) == tname(b) => format!("value_differs/{}", tname(b)),
        _ => format!("type_differs/{}_parsed_as_{}", tname(b), tname(a)),
    }
}

fn clip(t: &str, n: usize) -> String {
    if t.len() <= n {
        return t.to_string();
    }
    let mut cut = n;
    while !t.is_char_boundary(cut) {
        cut -= 1;
    }
    format!("{}...({} bytes total)", &t[..cut], t.len())
}

fn err_head(e: &str) -> String {
    // stable head of an error message: leading words without positions / payload
    let mut out = String::new();
    for w in e.split_whitespace().take(3) {
        let w: String = w.chars().filter(|c| c.is_ascii_alphabetic()).collect();
        if w.is_empty() {
            break;
        }
        if !out.is_empty() {
            out.push('_');
        }
        out.push_str(&w);
    }
    out
}

/// per-worker recorder with the same surface as `Ctx`; merged into the run's `Ctx` at the end
struct Sink {
    evals: u64,
    counters: std::collections::BTreeMap<String, u64>,
    nontrivial: std::collections::HashSet<u64>,
    /// sig -> (assertion, occurrences, first few details)
    viol: std::collections::BTreeMap<String, (String, u64, Vec<serde_json::Value>)>,
    samples: Vec<serde_json::Value>,
    start: std::time::Instant,
}

impl Sink {
    fn new() -> Sink {
        Sink { evals: 0, counters: Default::default(), nontrivial: Default::default(), viol: Default::default(), samples: vec![], start: std::time::Instant::now() }
    }
    fn eval(&mut self) {
        self.evals += 1;
    }
    fn count(&mut self, k: &str, n: u64) {
        if let Some(c) = self.counters.get_mut(k) {
            *c += n;
        } else {
            self.counters.insert(k.to_string(), n);
        }
    }
    fn nontrivial(&mut self, h: u64) {
        self.nontrivial.insert(h);
    }
    fn nontrivial_count(&self) -> usize {
        self.nontrivial.len()
    }
    fn sample(&mut self, v: serde_json::Value) {
        self.samples.push(v);
    }
    fn violation(&mut self, assertion: &str, sig: &str, detail: serde_json::Value) {
        let e = self.viol.entry(sig.to_string()).or_insert_with(|| (assertion.to_string(), 0, vec![]));
        e.1 += 1;
        if e.2.len() < 2 {
            e.2.push(detail);
        }
    }
    fn merge_into(self, ctx: &mut Ctx, bulk: &mut Vec<(String, String, u64)>) {
        ctx.evals(self.evals);
        for (k, n) in self.counters {
            ctx.count(&k, n);
        }
        for h in self.nontrivial {
            ctx.nontrivial(h);
        }
        for v in self.samples {
            ctx.sample(v);
        }
        for (sig, (assertion, n, details)) in self.viol {
            let kept = details.len() as u64;
            for d in details {
                ctx.violation(&assertion, &sig, d);
            }
            if n > kept {
                bulk.push((assertion, sig, n - kept));
            }
        }
    }
}

struct Env {
    rng: Rng,
    st: Stats,
    lenient: HashMap<&'static str, (u64, String)>,
    nontrivial_cap: usize,
    samples_left: usize,
    /// wall time per phase (seconds): where the run spends its budget
    phase: [f64; 6],
}

const PH_GEN: usize = 0;
const PH_PARSE: usize = 1;
const PH_ENCODE: usize = 2;
const PH_VIEW: usize = 3;
const PH_TOJSON: usize = 4;
const PH_ORACLE: usize = 5;

/// JSONB bytes -> view / OwnedValue API -> model. Returns false if a violation was recorded.
fn check_bytes(ctx: &mut Sink, env: &mut Env, bytes: &[u8], model: &J, feat: &Feat, text: &str, encoder: &str, sig_suffix: &str) -> bool {
    let mut ok = true;
    let t0 = std::time::Instant::now();
    let res = {
        let mut c = Cmp { rng: &mut env.rng, st: &mut env.st, doc_long_key: feat.long_key };
        catch(|| -> R {
            let mut path: Vec<Seg> = vec![];
            let view = JsonbView::new(bytes).map_err(|e| mis("err/JsonbView::new", &path, e.to_string()))?;
            let v = view.as_value().map_err(|e| mis("err/as_value", &path, e.to_string()))?;
            c.val(&v, model, &mut path, true)?;
            match view.get_path(&[]) {
                Ok(Some(x)) if x == v => {}
                other => return Err(mis("get_path_empty_is_not_root", &path, format!("{:?}", other.map(|o| o.as_ref().map(vname)).map_err(|e| e.to_string())))),
            }
            if !matches!(model, J::Obj(_)) {
                // documented by the error text: a key cannot be looked up in a non-object
                match (view.get("a"), view.get_path(&["a"])) {
                    (Err(_), Err(_)) => {}
                    (Ok(a), Ok(b)) if a == b => {}
                    _ => return Err(mis("get_path_differs_from_stepwise_get", &path, "non-object root".into())),
                }
            }
            c.owned_api(bytes, model)?;
            Ok(())
        })
    };
    match res {
        Ok(Ok(())) => {}
        Ok(Err(m)) => {
            ok = false;
            ctx.violation(
                "round_trip",
                &format!("C32/round_trip/{}{}", m.kind, sig_suffix),
                json!({"text": clip(text, 300_000), "at": m.path, "detail": m.detail, "encoder": encoder, "jsonb_len": bytes.len()}),
            );
        }
        Err(p) => {
            ok = false;
            let cause = if feat.long_key {
                "key_over_65535_bytes".to_string()
            } else if feat.long_str {
                "string_over_65535_bytes".to_string()
            } else {
                panic_site(&p)
            };
            ctx.violation("view_no_panic", &format!("C32/view_no_panic/{}{}", cause, sig_suffix), json!({"text": clip(text, 300_000), "panic": p, "encoder": encoder}));
        }
    }
    env.phase[PH_VIEW] += t0.elapsed().as_secs_f64();
    let t0 = std::time::Instant::now();
    // JSONB -> JSON text -> (independent parser) -> equal value
    if !feat.nonfinite {
        let r = catch(|| JsonbView::new(bytes).and_then(|v| v.to_json_string()).map_err(|e| e.to_string()));
        let long = if feat.long_key {
            Some("key_over_65535_bytes")
        } else if feat.long_str {
            Some("string_over_65535_bytes")
        } else {
            None
        };
        let bad: Option<(String, String)> = match r {
            Err(p) => Some((long.map(|s| s.to_string()).unwrap_or_else(|| format!("panic/{}", panic_site(&p))), p)),
            Ok(Err(e)) => Some((long.map(|s| s.to_string()).unwrap_or_else(|| format!("err/{}", err_head(&e))), e)),
            Ok(Ok(out)) => match strict_parse(&out) {
                Ok(p) if jeq(&p.value, model) => None,
                Ok(p) => Some((long.map(|s| s.to_string()).unwrap_or_else(|| jdiff(&p.value, model)), clip(&out, 400))),
                Err(e) => Some((long.map(|s| s.to_string()).unwrap_or_else(|| "output_is_not_json".into()), format!("{:?}: {}", e, clip(&out, 400)))),
            },
        };
        if let Some((kind, d)) = bad {
            ok = false;
            ctx.violation("to_json_string", &format!("C32/to_json_string/{}{}", kind, sig_suffix), json!({"text": clip(text, 300_000), "detail": d, "encoder": encoder}));
        }
    }
    env.phase[PH_TOJSON] += t0.elapsed().as_secs_f64();
    ok
}

/// `text` is valid JSON (by construction or by the independent strict parser) with value `model`.
fn check_valid(ctx: &mut Sink, env: &mut Env, text: &str, model: &J, surrogate_pairs: u32) {
    ctx.eval();
    let t0 = std::time::Instant::now();
    let r = catch(|| parse_json(text).map(|r| (r.value, r.consumed)).map_err(|e| format!("{:#}", e)));
    env.phase[PH_PARSE] += t0.elapsed().as_secs_f64();
    let (value, consumed) = match r {
        Err(p) => {
            ctx.violation("parse_no_panic", &format!("C32/parse_no_panic/{}", panic_site(&p)), json!({"text": clip(text, 300_000), "panic": p}));
            return;
        }
        Ok(Err(e)) => {
            if surrogate_pairs > 0 {
                // establish the cause: same document with the non-BMP characters written raw
                let t2 = render_doc(model, &mut env.rng, &PLAIN);
                if let Ok(Ok(_)) = catch(|| parse_json(&t2).map(|_| ()).map_err(|e| e.to_string())) {
                    ctx.violation(
                        "parse_valid",
                        "C32/parse_valid/surrogate_pair_escape_rejected",
                        json!({"text": clip(text, 300_000), "error": e, "accepted_when_written_raw": clip(&t2, 2000)}),
                    );
                    ctx.count("surrogate_pair_docs_retried_raw", 1);
                    check_valid(ctx, env, &t2, model, 0);
                    return;
                }
            }
            ctx.violation("parse_valid", &format!("C32/parse_valid/err/{}", err_head(&e)), json!({"text": clip(text, 300_000), "error": e}));
            return;
        }
        Ok(Ok(x)) => x,
    };
    let t0 = std::time::Instant::now();
    let parsed = conv(&value);
    let same = jeq(&parsed, model);
    env.phase[PH_ORACLE] += t0.elapsed().as_secs_f64();
    if !same {
        ctx.violation("parse_value", &format!("C32/parse_value/{}", jdiff(&parsed, model)), json!({"text": clip(text, 300_000), "parsed": clip(&format!("{:?}", value), 2000)}));
        return;
    }
    if consumed != json_trim_end(text).len() {
        ctx.violation("consumed", "C32/consumed/not_end_of_value", json!({"text": clip(text, 300_000), "consumed": consumed, "expected": json_trim_end(text).len()}));
    }
    let mut feat = Feat::default();
    features(model, 0, &mut feat);
    let t0 = std::time::Instant::now();
    let enc = catch(|| (value.to_jsonb_bytes(), build_with_builder(&value)));
    env.phase[PH_ENCODE] += t0.elapsed().as_secs_f64();
    let (b1, b2) = match enc {
        Ok(x) => x,
        Err(p) => {
            ctx.violation("encode_no_panic", &format!("C32/encode_no_panic/{}", panic_site(&p)), json!({"text": clip(text, 300_000), "panic": p}));
            return;
        }
    };
    let ok = if b1 == b2 {
        ctx.count("encoders_identical_bytes", 1);
        check_bytes(ctx, env, &b1, model, &feat, text, "JsonValue::to_jsonb_bytes == JsonbBuilder::build (identical bytes)", "")
    } else {
        ctx.count("encoders_different_bytes", 1);
        let a = check_bytes(ctx, env, &b1, model, &feat, text, "JsonValue::to_jsonb_bytes", "");
        let b = check_bytes(ctx, env, &b2, model, &feat, text, "JsonbBuilder::build", "/JsonbBuilder");
        a && b
    };
    ctx.count("valid_docs", 1);
    ctx.count("valid_doc_nodes", feat.nodes as u64);
    if feat.dup_keys {
        ctx.count("docs_with_duplicate_keys", 1)
    }
    if feat.depth >= 8 {
        ctx.count("docs_with_depth_ge_8", 1)
    }
    if feat.non_bmp {
        ctx.count("docs_with_non_bmp_chars", 1)
    }
    if surrogate_pairs > 0 {
        ctx.count("docs_with_surrogate_pair_escapes", 1)
    }
    if feat.long_str || feat.long_key {
        ctx.count("docs_with_string_or_key_over_65535_bytes", 1)
    }
    if feat.max_keys >= 50 {
        ctx.count("docs_with_object_of_50_plus_keys", 1)
    }
    if ctx.nontrivial_count() < env.nontrivial_cap {
        let mut h = 0xcbf29ce484222325u64;
        shape(model, &mut h);
        ctx.nontrivial(h);
    }
    if ok && env.samples_left > 0 && feat.nodes >= 6 && feat.nodes <= 40 {
        env.samples_left -= 1;
        ctx.sample(json!({"text": clip(text, 600), "nodes": feat.nodes, "depth": feat.depth, "jsonb_bytes": b1.len(), "duplicate_keys": feat.dup_keys}));
    }
}

fn has_non_ws(s: &str) -> bool {
    s.bytes().any(|b| !matches!(b, b' ' | b'\t' | b'\n' | b'\r'))
}

/// Any text. `must_reject`: class label when the text belongs to a class the check asserts is
/// rejected (truncated / trailing garbage / bad escape), provided the strict parser agrees it is invalid.
fn check_text(ctx: &mut Sink, env: &mut Env, text: &str, must_reject: Option<&str>) {
    match strict_parse(text) {
        Ok(p) => {
            ctx.count("mutants_still_valid", must_reject.is_some() as u64);
            check_valid(ctx, env, text, &p.value, p.surrogate_pairs)
        }
        Err(PErr::Unsupported(_)) => {
            ctx.eval();
            ctx.count("texts_outside_oracle_no_panic_only", 1);
            if let Err(p) = catch(|| parse_json(text).map(|r| r.value.to_jsonb_bytes().len()).unwrap_or(0)) {
                ctx.violation("parse_no_panic", &format!("C32/parse_no_panic/{}", panic_site(&p)), json!({"text": clip(text, 300_000), "panic": p}));
            }
        }
        Err(PErr::Invalid(why)) => {
            ctx.eval();
            ctx.count("invalid_texts", 1);
            let r = catch(|| parse_json(text).map(|r| (r.value, r.consumed)).map_err(|e| e.to_string()));
            match r {
                Err(p) => {
                    ctx.violation("parse_no_panic", &format!("C32/parse_no_panic/{}", panic_site(&p)), json!({"text": clip(text, 300_000), "panic": p, "invalid_because": why}));
                }
                Ok(Err(_)) => ctx.count("invalid_rejected_with_err", 1),
                Ok(Ok((value, consumed))) => {
                    if consumed > text.len() || !text.is_char_boundary(consumed) {
                        ctx.violation("consumed", "C32/consumed/out_of_range", json!({"text": clip(text, 300_000), "consumed": consumed}));
                        return;
                    }
                    if has_non_ws(&text[consumed..]) {
                        // the caller can see unconsumed input: counts as rejected
                        ctx.count("invalid_rejected_by_consumed_lt_len", 1);
                    } else if let Some(class) = must_reject {
                        ctx.violation(
                            "invalid_rejected",
                            &format!("C32/invalid_rejected/{}", class),
                            json!({"text": clip(text, 300_000), "class": class, "invalid_because": why, "parsed_as": clip(&format!("{:?}", value), 1000)}),
                        );
                    } else {
                        ctx.count("invalid_accepted_leniently(not asserted)", 1);
                        let e = env.lenient.entry(why).or_insert((0, clip(text, 160)));
                        e.0 += 1;
                        if text.len() < e.1.len() {
                            e.1 = text.to_string();
                        }
                    }
                    // whatever tree TurDB built must still survive JSONB
                    let m = conv(&value);
                    let sub = &text[..consumed];
                    let mut f = Feat::default();
                    features(&m, 0, &mut f);
                    if f.depth <= 64 {
                        check_valid_tree(ctx, env, &value, &m, &f, sub);
                    }
                }
            }
        }
    }
}

/// self-consistency for leniently accepted texts: tree -> JSONB -> view == tree
fn check_valid_tree(ctx: &mut Sink, env: &mut Env, value: &JsonValue, m: &J, f: &Feat, text: &str) {
    match catch(|| (value.to_jsonb_bytes(), build_with_builder(value))) {
        Ok((b1, b2)) => {
            check_bytes(ctx, env, &b1, m, f, text, "JsonValue::to_jsonb_bytes (leniently accepted text)", "");
            if b1 != b2 {
                check_bytes(ctx, env, &b2, m, f, text, "JsonbBuilder::build (leniently accepted text)", "/JsonbBuilder");
            }
            ctx.count("lenient_trees_round_tripped", 1);
        }
        Err(p) => {
            ctx.violation("encode_no_panic", &format!("C32/encode_no_panic/{}", panic_site(&p)), json!({"text": clip(text, 300_000), "panic": p}));
        }
    }
}

// ------------------------------------------------------------------------------------------
// invalid texts
// ------------------------------------------------------------------------------------------

fn json_trim(t: &str) -> &str {
    json_trim_end(t).trim_start_matches(|c| c == ' ' || c == '\t' || c == '\n' || c == '\r')
}

/// strict prefix of a document whose root is a container or a string (every such prefix is invalid)
fn mutate_truncate(text: &str, rng: &mut Rng) -> Option<String> {
    let t = json_trim(text);
    if !matches!(t.as_bytes().first(), Some(b'{') | Some(b'[') | Some(b'"')) {
        return None;
    }
    let mut cut = rng.below(t.len() as u64) as usize;
    while !t.is_char_boundary(cut) {
        cut -= 1;
    }
    Some(t[..cut].to_string())
}

fn mutate_garbage(text: &str, rng: &mut Rng) -> String {
    let mut s = json_trim_end(text).to_string();
    let nws = rng.below(3);
    for _ in 0..nws {
        s.push(*rng.pick(&[' ', '\n', '\t', '\r']));
    }
    let numberish = |c: u8| c.is_ascii_digit() || matches!(c, b'.' | b'e' | b'E' | b'+' | b'-');
    if nws == 0 && s.as_bytes().last().map_or(false, |c| numberish(*c)) {
        // "0" + "1" would be one (invalid) number literal, not a value followed by garbage
        s.push(' ');
    }
    let g: &str = *rng.pick(&["x", "]", "}", ",", ":", "{}", "[]", "1", "\"s\"", "null", "true", "\u{0}", "é", "\u{1F600}", "\\", "\"", "-", "[", "{", "/", "#", "nul", "}}", ",1"]);
    s.push_str(g);
    for _ in 0..rng.below(2) {
        s.push(' ');
    }
    s
}

/// positions inside string literals (not inside an escape) of a valid JSON text
fn string_insert_positions(text: &str) -> Vec<usize> {
    let b = text.as_bytes();
    let mut out = vec![];
    let mut i = 0;
    let mut in_str = false;
    while i < b.len() {
        if !in_str {
            if b[i] == b'"' {
                in_str = true;
            }
            i += 1;
        } else if b[i] == b'\\' {
            out.push(i);
            i += if b.get(i + 1) == Some(&b'u') { 6 } else { 2 };
        } else if b[i] == b'"' {
            out.push(i);
            in_str = false;
            i += 1;
        } else {
            if text.is_char_boundary(i) {
                out.push(i);
            }
            i += 1;
        }
        if out.len() > 4000 {
            break;
        }
    }
    out
}

fn mutate_bad_escape(text: &str, rng: &mut Rng) -> Option<(String, &'static str)> {
    let pos = string_insert_positions(text);
    if pos.is_empty() {
        return None;
    }
    let at = *rng.pick(&pos);
    let hex = |rng: &mut Rng, n: usize| -> String { (0..n).map(|_| *rng.pick(&['0', '1', '7', '9', 'a', 'F', 'c', 'D'])).collect() };
    let (ins, kind): (String, &'static str) = match rng.below(8) {
        0 => (format!("\\{}", rng.pick(&['x', 'a', 'v', '0', '\'', 'U', 'N', 'e', ' ', 'B', 'T'])), "unknown_escape_letter"),
        1 => (format!("\\{}", rng.pick(&['é', '中', '\u{1F600}'])), "unknown_escape_non_ascii"),
        2 => {
            let n = rng.usize(0, 3);
            (format!("\\u{}{}", hex(rng, n), rng.pick(&["z", " ", "-", "G", "\\n", "."])), "u_escape_fewer_than_4_hex_digits")
        }
        3 => {
            let mut h: Vec<char> = hex(rng, 4).chars().collect();
            h[rng.below(4) as usize] = *rng.pick(&['G', 'g', 'x', ' ', '-', '_', 'é']);
            (format!("\\u{}", h.into_iter().collect::<String>()), "u_escape_non_hex_digit")
        }
        4 => (format!("\\u+{}", hex(rng, 3)), "u_escape_plus_sign"),
        5 => (format!("\\u{:04X}{}", 0xD800 + rng.below(0x400), rng.pick(&["", "x", " ", "\\n"])), "lone_high_surrogate"),
        6 => (format!("\\u{:04x}", 0xDC00 + rng.below(0x400)), "lone_low_surrogate"),
        _ => (format!("\\u{:04X}\\u{:04X}", 0xD800 + rng.below(0x400), *rng.pick(&[0x0041u64, 0xD800, 0xE000, 0xDBFF, 0x0000])), "high_surrogate_then_non_low_escape"),
    };
    let mut s = String::with_capacity(text.len() + ins.len());
    s.push_str(&text[..at]);
    s.push_str(&ins);
    s.push_str(&text[at..]);
    Some((s, kind))
}

const MUT_ALPHABET: &[&str] = &[
    "{", "}", "[", "]", ",", ":", "\"", "\\", " ", "\n", "0", "1", "9", "-", "+", ".", "e", "E", "t", "r", "u", "n", "f", "a", "l", "s", "é", "\u{1F600}", "\u{0}", "\u{1}", "\t", "true",
    "null", "\\u", "\\ud83d", "//", "/*", "'", ",,", "00", "1e", "e5", ".5", "Infinity", "NaN", "\u{feff}", "\u{a0}",
];

fn mutate_random(text: &str, rng: &mut Rng) -> String {
    let mut chars: Vec<char> = text.chars().collect();
    if chars.len() > 20_000 {
        chars.truncate(20_000);
    }
    for _ in 0..rng.usize(1, 3) {
        let n = chars.len();
        match rng.below(6) {
            0 if n > 0 => {
                chars.remove(rng.below(n as u64) as usize);
            }
            1 | 2 => {
                let at = rng.usize(0, n);
                let ins: Vec<char> = rng.pick(MUT_ALPHABET).chars().collect();
                chars.splice(at..at, ins);
            }
            3 if n > 0 => {
                let at = rng.below(n as u64) as usize;
                let ins: Vec<char> = rng.pick(MUT_ALPHABET).chars().collect();
                chars.splice(at..at + 1, ins);
            }
            4 if n > 1 => {
                // duplicate a slice
                let a = rng.below(n as u64) as usize;
                let l = rng.usize(1, (n - a).min(12));
                let sl: Vec<char> = chars[a..a + l].to_vec();
                let at = rng.usize(0, n);
                chars.splice(at..at, sl);
            }
            5 if n > 1 => {
                let a = rng.below(n as u64) as usize;
                let b = rng.below(n as u64) as usize;
                chars.swap(a, b);
            }
            _ => {}
        }
    }
    chars.into_iter().collect()
}

fn random_style(rng: &mut Rng) -> Style {
    Style {
        ws: rng.below(4) as u8,
        esc_u: *rng.pick(&[0u64, 0, 30, 200, 1000]),
        esc_pair: *rng.pick(&[0u64, 0, 0, 0, 300, 1000]),
        esc_slash: *rng.pick(&[0u64, 500, 1000]),
    }
}

const WORKERS: u64 = 4;

fn new_env(seed: u64, cap: usize) -> Env {
    Env { rng: Rng::new(seed), st: Stats::default(), lenient: HashMap::new(), nontrivial_cap: cap, samples_left: 1, phase: [0.0; 6] }
}

/// one worker: `docs` generated documents, each followed (3 in 4) by one hostile variant
fn worker(seed: u64, env_seed: u64, docs: u64, guard_s: f64, miri: bool, cap: usize) -> (Sink, Env) {
    let mut ctx = Sink::new();
    let mut env = new_env(env_seed, cap);
    let mut rng = Rng::new(seed);
    for i in 0..docs {
        if !miri && i % 256 == 0 && ctx.start.elapsed().as_secs_f64() > guard_s {
            ctx.count("stopped_by_time_guard_docs_not_run", docs - i);
            break;
        }
        let t0 = std::time::Instant::now();
        let class = if miri {
            0
        } else if i % 257 == 3 {
            1
        } else if i % 401 == 7 {
            2
        } else {
            0
        };
        let model = match class {
            1 => {
                let n = *rng.pick(&[50usize, 64, 100, 255, 256, 257, 600, 1000, 3000]);
                gen_many_keys(&mut rng, n)
            }
            2 => gen_long(&mut rng),
            _ => gen_doc(&mut rng, miri),
        };
        let st = if class == 2 { Style { ws: rng.below(2) as u8, ..PLAIN } } else { random_style(&mut rng) };
        let text = render_doc(&model, &mut rng, &st);
        // harness self-check: the independent parser reads back exactly the generated model
        let sp = match strict_parse(&text) {
            Ok(p) => {
                assert!(jeq_exact(&p.value, &model), "harness bug: renderer/strict parser disagree on {}", clip(&text, 500));
                p.surrogate_pairs
            }
            Err(e) => panic!("harness bug: strict parser rejects generated text ({:?}): {}", e, clip(&text, 500)),
        };
        env.phase[PH_GEN] += t0.elapsed().as_secs_f64();
        check_valid(&mut ctx, &mut env, &text, &model, sp);
        if class == 2 {
            continue;
        }
        // hostile variants of the same text
        match rng.below(8) {
            0 | 1 => {
                if let Some(t) = mutate_truncate(&text, &mut rng) {
                    ctx.count("mutants_truncated", 1);
                    check_text(&mut ctx, &mut env, &t, Some("truncated"));
                }
            }
            2 => {
                let t = mutate_garbage(&text, &mut rng);
                ctx.count("mutants_trailing_garbage", 1);
                check_text(&mut ctx, &mut env, &t, Some("trailing_garbage"));
            }
            3 | 4 => {
                if let Some((t, kind)) = mutate_bad_escape(&text, &mut rng) {
                    ctx.count("mutants_bad_escape", 1);
                    check_text(&mut ctx, &mut env, &t, Some(&format!("bad_escape/{}", kind)));
                }
            }
            5 | 6 => {
                let t = mutate_random(&text, &mut rng);
                ctx.count("mutants_random_edit", 1);
                check_text(&mut ctx, &mut env, &t, None);
            }
            _ => {}
        }
    }
    (ctx, env)
}

pub fn run(a: &Args) -> i32 {
    let miri = cfg!(miri);
    let mut ctx = Ctx::new(
        "C32",
        &a.tier,
        a.seed,
        "exploration",
        "random JSON documents from an independent model (depth <= 8; empty containers; unsorted and duplicate keys; keys sharing prefixes; objects with up to 3000 keys; strings with controls, quotes, backslashes, BMP / non-BMP characters written raw, as short escapes, as \\uXXXX in either hex case and as surrogate pairs; strings and keys around the 65 535-byte boundary; numbers as integers, fractions, exponents in every spelling, arbitrary finite f64 and boundary values) rendered with four whitespace styles; plus truncated / trailing-garbage / bad-escape / randomly mutated texts classified by the harness's own strict RFC 8259 parser. distinct_nontrivial = distinct structural hashes (node kinds, container sizes, string length and character classes, number magnitude classes) of valid documents that went text -> parse_json -> JSONB -> JsonbView comparison",
    );
    ctx.assumptions.push("numbers are compared as f64 values (JsonValue::Number(f64) is the documented representation); the expected f64 of a literal is Rust std's correctly rounded str::parse::<f64>".into());
    ctx.assumptions.push("duplicate keys are undocumented: for a duplicated key the check only requires the value read back to be one of the values given for that key, and object_len to lie between the number of distinct keys and the number of pairs".into());
    ctx.assumptions.push("texts whose numbers overflow f64 and containers whose data section exceeds the documented 24-bit offset field (16 MiB) are not generated".into());
    ctx.assumptions.push("invalid texts outside the three asserted classes (truncated, trailing garbage, bad escape) are only required not to panic; lenient acceptances are listed in coverage.lenient_accepts".into());
    let quick = ctx.quick();
    let mut bulk: Vec<(String, String, u64)> = vec![];
    let mut root = Rng::derive(a.seed, 32);

    if let Some(p) = &a.replay {
        let body: serde_json::Value = serde_json::from_str(&std::fs::read_to_string(p).expect("read replay file")).expect("replay file is JSON");
        let text = body["detail"]["text"].as_str().expect("replay file has detail.text").to_string();
        let class = body["detail"]["class"].as_str().map(|s| s.to_string());
        println!("replaying text of {} bytes (class {:?})", text.len(), class);
        let mut sink = Sink::new();
        let mut env = new_env(root.next(), 10);
        check_text(&mut sink, &mut env, &text, class.as_deref());
        sink.merge_into(&mut ctx, &mut bulk);
        ctx.nontrivial(1);
        ctx.nontrivial(2);
        return ctx.finish();
    }

    let docs: u64 = if miri { 200 } else if quick { 400_000 } else { 6_000_000 };
    let guard_s: f64 = if quick { 46.0 } else { 530.0 };
    let cap: usize = 400_000;
    let nworkers = if miri { 1 } else { WORKERS };

    // fixed corpus first: one document per feature the property statement names
    let fixed: &[&str] = &[
        "null", "true", "false", "0", "-0", "1.5e3", "\"\"", "\"a\"", "[]", "{}", "[[]]", "{\"a\":{}}", " [ 1 , 2 ] ",
        "{\"b\":1,\"a\":2}", "{\"a\":1,\"a\":2}", "{\"a\":1,\"b\":{\"c\":[true,null,{\"d\":\"x\"}]}}",
        "[[[[[[[[1]]]]]]]]", "{\"a\":{\"a\":{\"a\":{\"a\":{\"a\":{\"a\":{\"a\":{\"a\":null}}}}}}}}",
        "\"\\u00e9\\n\\t\\\\\\\"\\/\\b\\f\\r\"", "\"\\ud83d\\ude00\"", "\"\u{1F600}\"", "{\"\\u0061\":1,\"a\":2}", "[1E+2,1e-2,-1.25E0]",
    ];
    let mut sink0 = Sink::new();
    let mut env0 = new_env(root.next(), cap);
    env0.samples_left = 0;
    for t in fixed {
        check_text(&mut sink0, &mut env0, t, None);
    }
    let mut results: Vec<(Sink, Env)> = vec![(sink0, env0)];

    let seeds: Vec<(u64, u64)> = (0..nworkers).map(|_| (root.next(), root.next())).collect();
    let per = docs / nworkers;
    if nworkers == 1 {
        results.push(worker(seeds[0].0, seeds[0].1, per, guard_s, miri, cap));
    } else {
        let handles: Vec<_> = seeds.iter().map(|&(s, e)| std::thread::spawn(move || worker(s, e, per, guard_s, miri, cap))).collect();
        for h in handles {
            match h.join() {
                Ok(r) => results.push(r),
                Err(e) => std::panic::resume_unwind(e),
            }
        }
    }

    let mut st = Stats::default();
    let mut ph = [0.0f64; 6];
    let mut lenient: HashMap<&'static str, (u64, String)> = HashMap::new();
    for (sink, env) in results {
        sink.merge_into(&mut ctx, &mut bulk);
        st.key_lookups += env.st.key_lookups;
        st.dup_key_lookups += env.st.dup_key_lookups;
        st.absent_probes += env.st.absent_probes;
        st.index_lookups += env.st.index_lookups;
        st.paths += env.st.paths;
        st.paths_hit += env.st.paths_hit;
        st.owned_api += env.st.owned_api;
        for k in 0..6 {
            ph[k] += env.phase[k];
        }
        for (why, (n, ex)) in env.lenient {
            let e = lenient.entry(why).or_insert((0, ex.clone()));
            e.0 += n;
            if ex.len() < e.1.len() {
                e.1 = ex;
            }
        }
    }
    // further occurrences of signatures whose first details were already recorded
    for (assertion, sig, n) in bulk {
        for _ in 0..n {
            ctx.violation(&assertion, &sig, json!({"note": "further occurrence of this signature; see the first replay files for details"}));
        }
    }
    ctx.extra.insert("workers".into(), json!(nworkers));
    ctx.extra.insert(
        "phase_cpu_seconds".into(),
        json!({"generate_render_selfcheck": ph[PH_GEN], "parse_json(valid docs)": ph[PH_PARSE], "encode_both": ph[PH_ENCODE], "view_compare": ph[PH_VIEW], "to_json_string_reparse": ph[PH_TOJSON], "parse_tree_vs_model": ph[PH_ORACLE]}),
    );
    ctx.count("object_key_lookups", st.key_lookups);
    ctx.count("duplicate_key_lookups", st.dup_key_lookups);
    ctx.count("absent_key_probes", st.absent_probes);
    ctx.count("array_index_lookups", st.index_lookups);
    ctx.count("path_lookups", st.paths);
    ctx.count("path_lookups_reaching_a_value", st.paths_hit);
    ctx.count("owned_value_api_lookups", st.owned_api);
    let mut len: Vec<_> = lenient.iter().collect();
    len.sort_by(|a, b| b.1 .0.cmp(&a.1 .0));
    let lj: serde_json::Map<String, serde_json::Value> = len.iter().map(|(k, v)| (k.to_string(), json!({"count": v.0, "shortest_example": v.1}))).collect();
    ctx.extra.insert("lenient_accepts".into(), serde_json::Value::Object(lj));
    ctx.finish()
}

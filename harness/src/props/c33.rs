//! C33: spilled rows round-trip through the spill formats.
//!
//! Stage A  `RowSerde::{serialize_row_into, deserialize_row_into, row_size}` on generated rows of all 19
//!          `Value` variants, several rows appended to one (pre-filled) buffer and decoded in order
//!          into one reused SmallVec.
//! Stage B  `PartitionSpiller` write -> (auto)spill -> read, re-read, append after spill, cleanup; some
//!          partitions stay in memory, some go to files under /verif/scratch/c33-<pid>/.
//! Stage C  `SpillableBuffer` (subquery spill format, all 23 `OwnedValue` variants), in memory and
//!          spilled (TMPDIR is pointed at the scratch directory), two buffers interleaved.
//!
//! Sub-assertions
//!   size_eq_written   row_size(row) == bytes appended by serialize_row_into; bytes before untouched
//!   deterministic     the same row always serializes to the same bytes
//!   decode_ok         a serialized row decodes without error; decoding consumes exactly its bytes
//!   type_preserved    every decoded value has the variant of the input value
//!   value_preserved   ... and the same payload (floats by bits; NaN only has to stay NaN because the
//!                     format documents a payload-free NAN tag)
//!   sequence          k rows in one buffer decode in order, offsets advance by the computed sizes
//!   truncated         every strict prefix of a row is rejected with Err, never a panic
//!   partition_spiller / subquery_spill   rows come back complete, in order, equal, counters agree
//!   no_panic
use crate::report::{catch, panic_site, Ctx};
use crate::rng::{fnv, Rng};
use crate::Args;
use serde_json::{json, Value as J};
use smallvec::SmallVec;
use std::borrow::Cow;
use std::path::PathBuf;
use turdb::sql::partition_spiller::PartitionSpiller;
use turdb::sql::row_serde::RowSerde;
use turdb::sql::subquery::{MaterializedRow, SpillableBuffer};
use turdb::types::{OwnedValue, Value};

type Row = SmallVec<[Value<'static>; 16]>;

// ---------------------------------------------------------------- generators

fn gen_i64(rng: &mut Rng) -> i64 {
    match rng.below(4) {
        0 => *rng.pick(&[0i64, 0, 1, -1, i64::MIN, i64::MAX, i64::MIN + 1, 255, 256, -256, i32::MAX as i64 + 1]),
        1 => rng.next() as i64,
        _ => {
            let v = (rng.next() >> rng.below(64)) as i64;
            if rng.chance(1, 2) {
                v.wrapping_neg()
            } else {
                v
            }
        }
    }
}
fn gen_i32(rng: &mut Rng) -> i32 {
    match rng.below(3) {
        0 => *rng.pick(&[0i32, 1, -1, i32::MIN, i32::MAX]),
        _ => rng.next() as i32,
    }
}
fn gen_f64(rng: &mut Rng) -> f64 {
    match rng.below(3) {
        0 => f64::from_bits(*rng.pick(&[
            0u64,
            0x8000_0000_0000_0000,
            0x7FF8_0000_0000_0000,
            0xFFF8_0000_0000_0000,
            0x7FF0_0000_0000_0001,
            0x7FFF_FFFF_FFFF_FFFF,
            0x7FF0_0000_0000_0000,
            0xFFF0_0000_0000_0000,
            1,
            0x8000_0000_0000_0001,
            0x0010_0000_0000_0000,
            0x7FEF_FFFF_FFFF_FFFF,
            0xFFEF_FFFF_FFFF_FFFF,
            0x3FF0_0000_0000_0000,
            0xBFF0_0000_0000_0000,
        ])),
        1 => f64::from_bits(rng.next()),
        _ => (rng.f64() - 0.5) * 10f64.powi(rng.range(-20, 20) as i32),
    }
}
fn gen_f32(rng: &mut Rng) -> f32 {
    match rng.below(3) {
        0 => f32::from_bits(*rng.pick(&[0u32, 0x8000_0000, 0x7FC0_0000, 0xFFC0_0000, 0x7F80_0001, 0x7F80_0000, 0xFF80_0000, 1, 0x7F7F_FFFF, 0x3F80_0000])),
        1 => f32::from_bits(rng.next() as u32),
        _ => (rng.f64() * 200.0 - 100.0) as f32,
    }
}
fn gen_arr<const N: usize>(rng: &mut Rng) -> [u8; N] {
    let mut a = [0u8; N];
    match rng.below(4) {
        0 => {}
        1 => a = [0xFF; N],
        _ => a.copy_from_slice(&rng.bytes(N)),
    }
    a
}
fn gen_len(rng: &mut Rng, big: usize) -> usize {
    match rng.below(16) {
        0 | 1 => 0,
        2..=9 => rng.usize(1, 24),
        10..=13 => rng.usize(25, 600),
        14 => rng.usize(601, 5000),
        _ => rng.usize(0, big),
    }
}
fn gen_string(rng: &mut Rng, nbytes: usize) -> String {
    let style = rng.below(4);
    if nbytes > 256 {
        let unit = *rng.pick(&["a", "xy ", "\u{e9}", "\u{4e2d}", "\u{1F600}", "\0"]);
        return unit.repeat(nbytes / unit.len());
    }
    let mut s = String::new();
    loop {
        let ch: char = match style {
            0 => (b'a' + rng.below(26) as u8) as char,
            1 => *rng.pick(&['\0', ' ', '\n', '\'', '"', '\\', '\u{7f}', 'A']),
            2 => *rng.pick(&['\u{e9}', '\u{4e2d}', '\u{1F600}', '\u{10FFFF}', '\u{80}', '\u{7ff}', '\u{800}', '\u{ffff}']),
            _ => char::from_u32(rng.below(0x11_0000) as u32).unwrap_or('?'),
        };
        if s.len() + ch.len_utf8() > nbytes {
            break;
        }
        s.push(ch);
    }
    s
}
fn gen_bytes(rng: &mut Rng, n: usize) -> Vec<u8> {
    match rng.below(5) {
        0 => vec![0u8; n],
        1 => vec![0xFF; n],
        2 => {
            // looks like serialized data: discriminant bytes of the format itself
            (0..n).map(|_| *rng.pick(&[0x01u8, 0x14, 0x16, 0x20, 0x21, 0x70, 0x84, 0x00, 0xFF])).collect()
        }
        _ => rng.bytes(n),
    }
}

const NVARIANTS: u64 = 19;

fn gen_value_of(rng: &mut Rng, variant: u64, big: usize) -> Value<'static> {
    match variant {
        0 => Value::Null,
        1 => Value::Int(gen_i64(rng)),
        2 => Value::Float(gen_f64(rng)),
        3 => {
            let l = gen_len(rng, big);
            Value::Text(Cow::Owned(gen_string(rng, l)))
        }
        4 => {
            let l = gen_len(rng, big);
            Value::Blob(Cow::Owned(gen_bytes(rng, l)))
        }
        5 => {
            let l = gen_len(rng, big / 4).min(4096);
            Value::Vector(Cow::Owned((0..l).map(|_| gen_f32(rng)).collect()))
        }
        6 => Value::Uuid(gen_arr::<16>(rng)),
        7 => Value::MacAddr(gen_arr::<6>(rng)),
        8 => Value::Inet4(gen_arr::<4>(rng)),
        9 => Value::Inet6(gen_arr::<16>(rng)),
        10 => {
            let l = gen_len(rng, big);
            Value::Jsonb(Cow::Owned(gen_bytes(rng, l)))
        }
        11 => Value::TimestampTz { micros: gen_i64(rng), offset_secs: gen_i32(rng) },
        12 => Value::Interval { micros: gen_i64(rng), days: gen_i32(rng), months: gen_i32(rng) },
        13 => Value::Point { x: gen_f64(rng), y: gen_f64(rng) },
        14 => Value::GeoBox { low: (gen_f64(rng), gen_f64(rng)), high: (gen_f64(rng), gen_f64(rng)) },
        15 => Value::Circle { center: (gen_f64(rng), gen_f64(rng)), radius: gen_f64(rng) },
        16 => Value::Enum { type_id: rng.next() as u16, ordinal: *rng.pick(&[0u16, 1, 255, 256, 65535]) },
        17 => Value::Decimal {
            digits: match rng.below(3) {
                0 => *rng.pick(&[0i128, 1, -1, i128::MAX, i128::MIN]),
                1 => (((rng.next() as u128) << 64) | rng.next() as u128) as i128,
                _ => gen_i64(rng) as i128,
            },
            scale: *rng.pick(&[0i16, 2, -2, i16::MAX, i16::MIN, 18]),
        },
        _ => {
            let l = if rng.chance(1, 2) { 17 } else { gen_len(rng, 64) };
            let mut b = gen_bytes(rng, l);
            if l > 0 {
                b[0] = 0xFE;
            }
            Value::ToastPointer(Cow::Owned(b))
        }
    }
}

fn gen_row(rng: &mut Rng, maxcols: usize, big: usize) -> Row {
    let style = rng.below(8);
    let n = match style {
        0 => NVARIANTS as usize, // every variant once
        1 => 0,
        _ => {
            if rng.chance(1, 40) {
                rng.usize(0, maxcols)
            } else {
                rng.usize(0, maxcols.min(20))
            }
        }
    };
    let one = rng.below(NVARIANTS);
    let mut row = Row::new();
    for i in 0..n {
        let variant = match style {
            0 => i as u64,
            2 => one,
            3 => *rng.pick(&[1u64, 2, 2, 3, 0]), // int/float/text rows as hash joins see them
            _ => rng.below(NVARIANTS),
        };
        row.push(gen_value_of(rng, variant, big));
    }
    if style == 0 && rng.chance(1, 2) {
        let mut v: Vec<Value<'static>> = row.into_iter().collect();
        rng.shuffle(&mut v);
        row = v.into_iter().collect();
    }
    row
}

// ---------------------------------------------------------------- comparison

fn vname(v: &Value<'_>) -> &'static str {
    match v {
        Value::Null => "Null",
        Value::Int(_) => "Int",
        Value::Float(_) => "Float",
        Value::Text(_) => "Text",
        Value::Blob(_) => "Blob",
        Value::Vector(_) => "Vector",
        Value::Uuid(_) => "Uuid",
        Value::MacAddr(_) => "MacAddr",
        Value::Inet4(_) => "Inet4",
        Value::Inet6(_) => "Inet6",
        Value::Jsonb(_) => "Jsonb",
        Value::TimestampTz { .. } => "TimestampTz",
        Value::Interval { .. } => "Interval",
        Value::Point { .. } => "Point",
        Value::GeoBox { .. } => "GeoBox",
        Value::Circle { .. } => "Circle",
        Value::Enum { .. } => "Enum",
        Value::Decimal { .. } => "Decimal",
        Value::ToastPointer(_) => "ToastPointer",
    }
}
/// class of the *input* used in signatures: the zero floats are their own class because the format
/// has a dedicated ZERO tag
fn vclass(v: &Value<'_>) -> &'static str {
    match v {
        Value::Float(f) if *f == 0.0 => "Float(zero)",
        Value::Float(f) if f.is_nan() => "Float(nan)",
        Value::Float(f) if f.is_infinite() => "Float(inf)",
        Value::Int(0) => "Int(zero)",
        other => vname(other),
    }
}

enum Cmp {
    Same,
    /// Float NaN in, Float NaN with a different payload out (allowed: payload-free NAN tag is documented)
    NanCanon,
    Type,
    Payload,
}

fn b(x: f64, y: f64) -> bool {
    x.to_bits() == y.to_bits()
}

fn cmp_val(a: &Value<'_>, o: &Value<'_>) -> Cmp {
    if std::mem::discriminant(a) != std::mem::discriminant(o) {
        return Cmp::Type;
    }
    let same = match (a, o) {
        (Value::Null, Value::Null) => true,
        (Value::Int(x), Value::Int(y)) => x == y,
        (Value::Float(x), Value::Float(y)) => {
            if x.is_nan() && y.is_nan() && x.to_bits() != y.to_bits() {
                return Cmp::NanCanon;
            }
            b(*x, *y)
        }
        (Value::Text(x), Value::Text(y)) => x == y,
        (Value::Blob(x), Value::Blob(y)) => x == y,
        (Value::Vector(x), Value::Vector(y)) => x.len() == y.len() && x.iter().zip(y.iter()).all(|(p, q)| p.to_bits() == q.to_bits()),
        (Value::Uuid(x), Value::Uuid(y)) => x == y,
        (Value::MacAddr(x), Value::MacAddr(y)) => x == y,
        (Value::Inet4(x), Value::Inet4(y)) => x == y,
        (Value::Inet6(x), Value::Inet6(y)) => x == y,
        (Value::Jsonb(x), Value::Jsonb(y)) => x == y,
        (Value::TimestampTz { micros: m1, offset_secs: o1 }, Value::TimestampTz { micros: m2, offset_secs: o2 }) => m1 == m2 && o1 == o2,
        (Value::Interval { micros: m1, days: d1, months: n1 }, Value::Interval { micros: m2, days: d2, months: n2 }) => m1 == m2 && d1 == d2 && n1 == n2,
        (Value::Point { x: x1, y: y1 }, Value::Point { x: x2, y: y2 }) => b(*x1, *x2) && b(*y1, *y2),
        (Value::GeoBox { low: l1, high: h1 }, Value::GeoBox { low: l2, high: h2 }) => b(l1.0, l2.0) && b(l1.1, l2.1) && b(h1.0, h2.0) && b(h1.1, h2.1),
        (Value::Circle { center: c1, radius: r1 }, Value::Circle { center: c2, radius: r2 }) => b(c1.0, c2.0) && b(c1.1, c2.1) && b(*r1, *r2),
        (Value::Enum { type_id: t1, ordinal: o1 }, Value::Enum { type_id: t2, ordinal: o2 }) => t1 == t2 && o1 == o2,
        (Value::Decimal { digits: d1, scale: s1 }, Value::Decimal { digits: d2, scale: s2 }) => d1 == d2 && s1 == s2,
        (Value::ToastPointer(x), Value::ToastPointer(y)) => x == y,
        _ => false,
    };
    if same {
        Cmp::Same
    } else {
        Cmp::Payload
    }
}

fn trunc(s: String) -> String {
    if s.len() > 200 {
        let mut e = 200;
        while !s.is_char_boundary(e) {
            e -= 1;
        }
        format!("{}...({} bytes)", &s[..e], s.len())
    } else {
        s
    }
}

fn describe(row: &[Value<'_>]) -> J {
    J::Array(row.iter().take(40).map(|v| json!(trunc(format!("{:?}", v)))).collect())
}

thread_local! {
    static SEEN: std::cell::RefCell<std::collections::HashMap<String, u64>> = std::cell::RefCell::new(std::collections::HashMap::new());
}

/// Every failing observation is counted under `failing:<sig>`; known findings are always forwarded
/// (they only count), an unexplained signature is forwarded the first time only so that each
/// distinct signature gets a replay file.
fn viol(ctx: &mut Ctx, assertion: &str, sig: &str, detail: impl FnOnce() -> J) {
    ctx.count(&format!("failing:{}", sig), 1);
    let n = SEEN.with(|s| {
        let mut s = s.borrow_mut();
        let e = s.entry(sig.to_string()).or_insert(0);
        *e += 1;
        *e
    });
    if ctx.is_known(sig).is_some() || n <= 1 {
        ctx.violation(assertion, sig, detail());
    } else {
        ctx.count("violations_not_forwarded_after_first_per_sig", 1);
    }
}

/// compare a decoded row with the model row; returns number of mismatching values
fn compare_rows(ctx: &mut Ctx, stage: &str, case: u64, want: &[Value<'_>], got: &[Value<'_>]) -> u64 {
    if want.len() != got.len() {
        viol(ctx, "decode_ok", &format!("C33/{}/column_count", stage_sig(stage)), || json!({"case": case, "stage": stage, "want_cols": want.len(), "got_cols": got.len(), "row": describe(want)}));
        return 1;
    }
    let mut bad = 0;
    let mut reported = std::collections::HashSet::new();
    for (i, (w, g)) in want.iter().zip(got.iter()).enumerate() {
        match cmp_val(w, g) {
            Cmp::Same => {}
            Cmp::NanCanon => ctx.count("nan_payload_canonicalised", 1),
            Cmp::Type => {
                bad += 1;
                let sig = format!("C33/type_preserved/{}_decodes_as_{}", vclass(w), vname(g));
                if reported.insert(sig.clone()) {
                    viol(ctx, "type_preserved", &sig, || json!({"case": case, "stage": stage, "col": i, "in": trunc(format!("{:?}", w)), "out": trunc(format!("{:?}", g)), "row": describe(want)}));
                }
            }
            Cmp::Payload => {
                bad += 1;
                let sig = format!("C33/value_preserved/{}", vclass(w));
                if reported.insert(sig.clone()) {
                    viol(ctx, "value_preserved", &sig, || json!({"case": case, "stage": stage, "col": i, "in": trunc(format!("{:?}", w)), "out": trunc(format!("{:?}", g)), "row": describe(want)}));
                }
            }
        }
    }
    bad
}

fn stage_sig(stage: &str) -> &'static str {
    if stage.starts_with("partition") {
        "partition_spiller"
    } else if stage.starts_with("subquery") {
        "subquery_spill"
    } else {
        "decode_ok"
    }
}

fn row_hash(row: &[Value<'_>]) -> u64 {
    // value class (variant + zero/nan/inf, i.e. the format's tag space) and log2 of the encoded size
    let mut k = Vec::with_capacity(row.len() * 2);
    for v in row {
        k.push((fnv(vclass(v).as_bytes()) & 0xff) as u8);
        let sz = RowSerde::row_size(std::slice::from_ref(v));
        k.push((usize::BITS - sz.leading_zeros()) as u8);
    }
    fnv(&k)
}

// ---------------------------------------------------------------- stage A: RowSerde

fn stage_serde(ctx: &mut Ctx, rng: &mut Rng, case: u64, maxcols: usize, big: usize, prefix_all: bool) {
    let k = rng.usize(1, 8);
    let rows: Vec<Row> = (0..k).map(|_| gen_row(rng, maxcols, big)).collect();
    let guard_len = rng.usize(0, 12);
    let guard = rng.bytes(guard_len);
    let r = catch(|| {
        let mut buf: Vec<u8> = guard.clone();
        let mut ends: Vec<usize> = vec![];
        let mut problems: Vec<(&'static str, String, J)> = vec![];
        for (j, row) in rows.iter().enumerate() {
            let before = buf.len();
            let sz = RowSerde::row_size(row);
            RowSerde::serialize_row_into(row, &mut buf);
            let written = buf.len() - before;
            if sz != written {
                // attribute: which single value has a wrong size?
                let mut culprit = "row";
                for v in row.iter() {
                    let one = std::slice::from_ref(v);
                    let mut t = vec![];
                    RowSerde::serialize_row_into(one, &mut t);
                    if RowSerde::row_size(one) != t.len() {
                        culprit = vclass(v);
                        break;
                    }
                }
                problems.push(("size_eq_written", format!("C33/size_eq_written/{}", culprit), json!({"row_index": j, "row_size": sz, "written": written, "row": describe(row)})));
            }
            if buf[..guard.len()] != guard[..] {
                problems.push(("size_eq_written", "C33/size_eq_written/wrote_before_append_point".into(), json!({"row_index": j})));
            }
            let mut again = Vec::new();
            RowSerde::serialize_row_into(row, &mut again);
            if again[..] != buf[before..] {
                problems.push(("deterministic", "C33/deterministic/bytes_differ".into(), json!({"row_index": j, "row": describe(row)})));
            }
            ends.push(buf.len());
        }
        (buf, ends, problems)
    });
    let (buf, ends, problems) = match r {
        Ok(x) => x,
        Err(p) => {
            viol(ctx, "no_panic", &format!("C33/no_panic/serialize@{}", panic_site(&p)), || json!({"case": case, "panic": p, "first_row": describe(&rows[0])}));
            return;
        }
    };
    for (a, s, d) in problems {
        viol(ctx, a, &s, || json!({"case": case, "problem": d}));
    }
    // decode in order into ONE reused output vector
    let mut out: Row = Row::new();
    out.push(Value::Text(Cow::Owned("stale".into()))); // must be cleared by the decoder
    let mut off = guard.len();
    for (j, row) in rows.iter().enumerate() {
        ctx.eval();
        let res = catch(|| RowSerde::deserialize_row_into(&buf, &mut off, &mut out).map_err(|e| e.to_string()));
        match res {
            Ok(Ok(())) => {
                let bad = compare_rows(ctx, "serde", case, row, &out);
                if off != ends[j] {
                    viol(ctx, "sequence", "C33/sequence/offset_after_row", || json!({"case": case, "row_index": j, "offset": off, "want": ends[j], "row": describe(row)}));
                    return;
                }
                if bad == 0 && !row.is_empty() {
                    ctx.nontrivial(row_hash(row));
                }
                ctx.count("values_round_tripped", row.len() as u64);
            }
            Ok(Err(e)) => {
                viol(ctx, "decode_ok", "C33/decode_ok/err_on_valid_row", || json!({"case": case, "row_index": j, "err": e, "row": describe(row)}));
                return;
            }
            Err(p) => {
                viol(ctx, "no_panic", &format!("C33/no_panic/deserialize@{}", panic_site(&p)), || json!({"case": case, "row_index": j, "panic": p, "row": describe(row)}));
                return;
            }
        }
    }
    ctx.count("rows_in_sequences", rows.len() as u64);
    // nothing left: one more decode must be an error, not a row
    match catch(|| RowSerde::deserialize_row_into(&buf, &mut off, &mut out).is_err()) {
        Ok(true) => {}
        Ok(false) => viol(ctx, "sequence", "C33/sequence/row_decoded_past_end", || json!({"case": case})),
        Err(p) => viol(ctx, "no_panic", &format!("C33/no_panic/deserialize_at_end@{}", panic_site(&p)), || json!({"case": case, "panic": p})),
    }
    // strict prefixes of the first row
    let start = guard.len();
    let end = ends[0];
    let len = end - start;
    if len > 0 {
        let cuts: Vec<usize> = if prefix_all && len <= 400 { (0..len).collect() } else { (0..6).map(|_| rng.usize(0, len - 1)).collect() };
        for cut in cuts {
            ctx.count("truncated_prefixes", 1);
            let slice = &buf[..start + cut];
            let mut o = start;
            let mut tmp: Row = Row::new();
            match catch(|| RowSerde::deserialize_row_into(slice, &mut o, &mut tmp).is_err()) {
                Ok(true) => {}
                Ok(false) => {
                    viol(ctx, "truncated", "C33/truncated/prefix_accepted", || json!({"case": case, "cut": cut, "len": len, "row": describe(&rows[0])}));
                    break;
                }
                Err(p) => {
                    viol(ctx, "no_panic", &format!("C33/no_panic/deserialize_truncated@{}", panic_site(&p)), || json!({"case": case, "cut": cut, "len": len, "panic": p, "row": describe(&rows[0])}));
                    break;
                }
            }
        }
    }
}

// ---------------------------------------------------------------- stage B: PartitionSpiller

fn stage_partition(ctx: &mut Ctx, rng: &mut Rng, case: u64, scratch: &PathBuf, files: bool) {
    ctx.eval();
    let np = rng.usize(1, 8);
    let per = if !files {
        1usize << 40
    } else {
        *rng.pick(&[0usize, 40, 200, 1000, 5000, 16384, 1 << 40])
    };
    let budget = per * np + rng.usize(0, np - 1); // memory_budget / num_partitions == per
    let dir = scratch.join(format!("ps{}", case)).join("partition");
    let side = if rng.chance(1, 2) { 'L' } else { 'R' };
    let nrows1 = rng.usize(0, 60);
    let nrows2 = rng.usize(0, 25);
    let big = if files { 3000 } else { 200 };
    let mut plan: Vec<(usize, Row)> = vec![];
    for _ in 0..nrows1 + nrows2 {
        let p = if rng.chance(1, 3) { 0 } else { rng.usize(0, np - 1) };
        plan.push((p, gen_row(rng, 12, big)));
    }
    let r = catch(|| -> Vec<(&'static str, String, J)> {
        let mut problems: Vec<(&'static str, String, J)> = vec![];
        let mut sp = match PartitionSpiller::new(dir.clone(), np, budget, case, side) {
            Ok(s) => s,
            Err(e) => {
                problems.push(("partition_spiller", "C33/partition_spiller/new_err".into(), json!({"err": e.to_string()})));
                return problems;
            }
        };
        let mut model: Vec<Vec<Row>> = vec![vec![]; np];
        let mut msize: Vec<usize> = vec![0; np];
        let mut mspilled: Vec<bool> = vec![false; np];
        let mut mismatches: Vec<(usize, Row, Row)> = vec![];
        for phase in 0..2 {
            let slice = if phase == 0 { &plan[..nrows1] } else { &plan[nrows1..] };
            for (p, row) in slice {
                if let Err(e) = sp.write_row(*p, row.clone()) {
                    problems.push(("partition_spiller", "C33/partition_spiller/write_err".into(), json!({"err": e.to_string(), "partition": p})));
                    return problems;
                }
                model[*p].push(row.clone());
                if !mspilled[*p] {
                    msize[*p] += RowSerde::row_size(row);
                    if msize[*p] > per {
                        mspilled[*p] = true;
                    }
                }
            }
            // read every partition twice
            for p in 0..np {
                if sp.partition_row_count(p) != model[p].len() {
                    problems.push(("partition_spiller", "C33/partition_spiller/row_count".into(), json!({"partition": p, "got": sp.partition_row_count(p), "want": model[p].len(), "spilled": sp.partition_is_spilled(p), "phase": phase})));
                }
                if sp.partition_is_spilled(p) != mspilled[p] {
                    problems.push(("partition_spiller", "C33/partition_spiller/spilled_flag".into(), json!({"partition": p, "got": sp.partition_is_spilled(p), "model_bytes": msize[p], "per_partition_budget": per, "phase": phase})));
                }
                for pass in 0..2 {
                    if let Err(e) = sp.start_read(p) {
                        problems.push(("partition_spiller", "C33/partition_spiller/start_read_err".into(), json!({"err": e.to_string(), "partition": p})));
                        break;
                    }
                    let mut i = 0usize;
                    loop {
                        match sp.read_next() {
                            Ok(Some(vals)) => {
                                if i >= model[p].len() {
                                    problems.push(("partition_spiller", "C33/partition_spiller/extra_row".into(), json!({"partition": p, "spilled": mspilled[p], "phase": phase, "pass": pass})));
                                    break;
                                }
                                let same = vals.len() == model[p][i].len() && vals.iter().zip(model[p][i].iter()).all(|(g, w)| matches!(cmp_val(w, g), Cmp::Same | Cmp::NanCanon));
                                if !same && pass == 0 {
                                    mismatches.push((p, model[p][i].clone(), vals.iter().cloned().collect()));
                                }
                                i += 1;
                            }
                            Ok(None) => break,
                            Err(e) => {
                                problems.push(("partition_spiller", "C33/partition_spiller/read_err".into(), json!({"err": e.to_string(), "partition": p, "at_row": i, "spilled": mspilled[p]})));
                                break;
                            }
                        }
                    }
                    if i < model[p].len() && !problems.iter().any(|x| x.1.ends_with("read_err") || x.1.ends_with("extra_row")) {
                        problems.push(("partition_spiller", "C33/partition_spiller/missing_rows".into(), json!({"partition": p, "read": i, "want": model[p].len(), "spilled": mspilled[p], "phase": phase, "pass": pass})));
                    }
                    if !matches!(sp.read_next(), Ok(None)) && i == model[p].len() {
                        problems.push(("partition_spiller", "C33/partition_spiller/read_after_end".into(), json!({"partition": p})));
                    }
                    sp.end_read();
                }
            }
        }
        let any_spilled = mspilled.iter().any(|x| *x);
        if let Err(e) = sp.cleanup() {
            problems.push(("partition_spiller", "C33/partition_spiller/cleanup_err".into(), json!({"err": e.to_string()})));
        }
        drop(sp);
        if files {
            let left: Vec<String> = std::fs::read_dir(&dir).map(|d| d.filter_map(|e| e.ok()).map(|e| e.file_name().to_string_lossy().to_string()).collect()).unwrap_or_default();
            if !left.is_empty() {
                problems.push(("partition_spiller", "C33/partition_spiller/cleanup_left_files".into(), json!({"left": left})));
            }
        }
        let _ = any_spilled;
        problems.push(("__stats", String::new(), json!({"nspilled": mspilled.iter().filter(|x| **x).count(), "np": np})));
        for (_p, w, g) in mismatches {
            MISMATCH.with(|m| m.borrow_mut().push((w, g)));
        }
        problems
    });
    if files {
        let _ = std::fs::remove_dir_all(scratch.join(format!("ps{}", case)));
    }
    match r {
        Ok(problems) => {
            for (a, s, d) in problems {
                if a == "__stats" {
                    ctx.count("partition_spillers", 1);
                    ctx.count("partitions", d["np"].as_u64().unwrap_or(0));
                    ctx.count("partitions_spilled_to_file", d["nspilled"].as_u64().unwrap_or(0));
                    let rows: u64 = plan.len() as u64;
                    ctx.count("partition_rows", rows);
                    ctx.nontrivial(fnv(format!("ps:{}:{}:{}", d["np"], d["nspilled"], rows).as_bytes()) | 1 << 63);
                } else {
                    viol(ctx, a, &s, || json!({"case": case, "np": np, "per_partition_budget": per, "problem": d}));
                }
            }
            let mm: Vec<(Row, Row)> = MISMATCH.with(|m| std::mem::take(&mut *m.borrow_mut()));
            for (w, g) in mm {
                compare_rows(ctx, "partition_spiller", case, &w, &g);
            }
        }
        Err(p) => {
            MISMATCH.with(|m| m.borrow_mut().clear());
            viol(ctx, "no_panic", &format!("C33/no_panic/partition_spiller@{}", panic_site(&p)), || json!({"case": case, "np": np, "per_partition_budget": per, "panic": p}));
        }
    }
}

thread_local! {
    static MISMATCH: std::cell::RefCell<Vec<(Row, Row)>> = std::cell::RefCell::new(vec![]);
}

// ---------------------------------------------------------------- stage C: SpillableBuffer (subquery spill)

fn gen_owned(rng: &mut Rng, big: usize) -> OwnedValue {
    match rng.below(23) {
        0 => OwnedValue::Null,
        1 => OwnedValue::Bool(rng.chance(1, 2)),
        2 => OwnedValue::Int(gen_i64(rng)),
        3 => OwnedValue::Float(gen_f64(rng)),
        4 => {
            let l = gen_len(rng, big);
            OwnedValue::Text(gen_string(rng, l))
        }
        5 => {
            let l = gen_len(rng, big);
            OwnedValue::Blob(gen_bytes(rng, l))
        }
        6 => {
            let l = gen_len(rng, big / 4).min(2048);
            OwnedValue::Vector((0..l).map(|_| gen_f32(rng)).collect())
        }
        7 => OwnedValue::Date(gen_i32(rng)),
        8 => OwnedValue::Time(gen_i64(rng)),
        9 => OwnedValue::Timestamp(gen_i64(rng)),
        10 => OwnedValue::TimestampTz(gen_i64(rng), gen_i32(rng)),
        11 => OwnedValue::Uuid(gen_arr::<16>(rng)),
        12 => OwnedValue::MacAddr(gen_arr::<6>(rng)),
        13 => OwnedValue::Inet4(gen_arr::<4>(rng)),
        14 => OwnedValue::Inet6(gen_arr::<16>(rng)),
        15 => OwnedValue::Interval(gen_i64(rng), gen_i32(rng), gen_i32(rng)),
        16 => OwnedValue::Point(gen_f64(rng), gen_f64(rng)),
        17 => OwnedValue::Box((gen_f64(rng), gen_f64(rng)), (gen_f64(rng), gen_f64(rng))),
        18 => OwnedValue::Circle((gen_f64(rng), gen_f64(rng)), gen_f64(rng)),
        19 => {
            let l = gen_len(rng, big);
            OwnedValue::Jsonb(gen_bytes(rng, l))
        }
        20 => OwnedValue::Decimal(((((rng.next() as u128) << 64) | rng.next() as u128) as i128) >> rng.below(120), gen_i32(rng) as i16),
        21 => OwnedValue::Enum(rng.next() as u16, rng.next() as u16),
        _ => {
            let l = gen_len(rng, 40);
            OwnedValue::ToastPointer(gen_bytes(rng, l))
        }
    }
}

fn oname(v: &OwnedValue) -> String {
    let s = format!("{:?}", v);
    s.split(|c: char| c == '(' || c == ' ').next().unwrap_or("?").to_string()
}

fn owned_same(a: &OwnedValue, o: &OwnedValue) -> bool {
    use OwnedValue as O;
    match (a, o) {
        (O::Float(x), O::Float(y)) => b(*x, *y),
        (O::Vector(x), O::Vector(y)) => x.len() == y.len() && x.iter().zip(y.iter()).all(|(p, q)| p.to_bits() == q.to_bits()),
        (O::Point(a0, a1), O::Point(b0, b1)) => b(*a0, *b0) && b(*a1, *b1),
        (O::Box(al, ah), O::Box(bl, bh)) => b(al.0, bl.0) && b(al.1, bl.1) && b(ah.0, bh.0) && b(ah.1, bh.1),
        (O::Circle(ac, ar), O::Circle(bc, br)) => b(ac.0, bc.0) && b(ac.1, bc.1) && b(*ar, *br),
        _ => std::mem::discriminant(a) == std::mem::discriminant(o) && a == o,
    }
}

fn check_mrows(ctx: &mut Ctx, case: u64, which: &str, want: &[MaterializedRow], got: &[MaterializedRow], spilled: bool) {
    if want.len() != got.len() {
        viol(ctx, "subquery_spill", "C33/subquery_spill/row_count", || json!({"case": case, "buffer": which, "want": want.len(), "got": got.len(), "spilled": spilled}));
        return;
    }
    for (i, (w, g)) in want.iter().zip(got.iter()).enumerate() {
        if w.values.len() != g.values.len() {
            viol(ctx, "subquery_spill", "C33/subquery_spill/column_count", || json!({"case": case, "row": i, "spilled": spilled}));
            return;
        }
        for (wv, gv) in w.values.iter().zip(g.values.iter()) {
            if !owned_same(wv, gv) {
                let sig = if std::mem::discriminant(wv) != std::mem::discriminant(gv) {
                    format!("C33/subquery_spill/type_preserved/{}_decodes_as_{}", oname(wv), oname(gv))
                } else {
                    format!("C33/subquery_spill/value_preserved/{}", oname(wv))
                };
                viol(ctx, "subquery_spill", &sig, || json!({"case": case, "buffer": which, "row": i, "spilled": spilled, "in": trunc(format!("{:?}", wv)), "out": trunc(format!("{:?}", gv))}));
                return;
            }
        }
    }
}

fn stage_subquery(ctx: &mut Ctx, rng: &mut Rng, case: u64, files: bool) {
    ctx.eval();
    let two = rng.chance(1, 3);
    let mk = |rng: &mut Rng| -> (usize, Vec<MaterializedRow>) {
        let limit = if !files { usize::MAX / 4 } else { *rng.pick(&[0usize, 1, 100, 1000, 20_000, usize::MAX / 4]) };
        let n = rng.usize(0, 50);
        let rows = (0..n)
            .map(|_| {
                let nc = if rng.chance(1, 10) { 0 } else { rng.usize(1, 10) };
                MaterializedRow::new((0..nc).map(|_| gen_owned(rng, if files { 3000 } else { 100 })).collect())
            })
            .collect();
        let mut rows: Vec<MaterializedRow> = rows;
        // length prefixes: values around the 16-bit boundary (followed by another row, so mis-framing shows)
        if files && rng.chance(1, 10) {
            let l = *rng.pick(&[65_535usize, 65_536, 65_537, 70_000, 131_072]);
            let at = rng.usize(0, rows.len());
            let v = if rng.chance(2, 3) { OwnedValue::Text(gen_string(rng, l)) } else { OwnedValue::Blob(gen_bytes(rng, l)) };
            rows.insert(at, MaterializedRow::new(vec![OwnedValue::Int(l as i64), v, OwnedValue::Int(-1)]));
        }
        (limit, rows)
    };
    let (l1, r1) = mk(rng);
    let (l2, r2) = if two { mk(rng) } else { (0, vec![]) };
    let use_into_vec = rng.chance(1, 2);
    let r = catch(|| -> Result<(Vec<MaterializedRow>, bool, usize, Vec<MaterializedRow>, bool), String> {
        let mut b1 = SpillableBuffer::new(l1);
        let mut b2 = SpillableBuffer::new(l2);
        let m = r1.len().max(r2.len());
        for i in 0..m {
            if i < r1.len() {
                b1.push(r1[i].clone()).map_err(|e| format!("push: {}", e))?;
            }
            if two && i < r2.len() {
                b2.push(r2[i].clone()).map_err(|e| format!("push: {}", e))?;
            }
        }
        let s1 = b1.is_spilled();
        let s2 = b2.is_spilled();
        let c1 = b1.row_count();
        let g1: Vec<MaterializedRow> = if use_into_vec {
            b1.into_vec().map_err(|e| format!("into_vec: {}", e))?
        } else {
            let mut v = vec![];
            for x in b1.iter().map_err(|e| format!("iter: {}", e))? {
                v.push(x.map_err(|e| format!("iter item: {}", e))?);
            }
            v
        };
        let g2: Vec<MaterializedRow> = if two { b2.into_vec().map_err(|e| format!("into_vec: {}", e))? } else { vec![] };
        Ok((g1, s1, c1, g2, s2))
    });
    match r {
        Ok(Ok((g1, s1, c1, g2, s2))) => {
            if c1 != r1.len() {
                viol(ctx, "subquery_spill", "C33/subquery_spill/row_count_counter", || json!({"case": case, "row_count": c1, "pushed": r1.len()}));
            }
            if l1 >= usize::MAX / 4 && s1 {
                viol(ctx, "subquery_spill", "C33/subquery_spill/spilled_under_unbounded_limit", || json!({"case": case}));
            }
            check_mrows(ctx, case, "first", &r1, &g1, s1);
            if two {
                check_mrows(ctx, case, "second", &r2, &g2, s2);
            }
            ctx.count("subquery_buffers", 1 + two as u64);
            ctx.count("subquery_buffers_spilled", s1 as u64 + (two && s2) as u64);
            ctx.count("subquery_rows", (r1.len() + r2.len()) as u64);
            ctx.nontrivial(fnv(format!("sq:{}:{}:{}:{}", r1.len(), s1, r2.len(), s2).as_bytes()) | 1 << 62);
        }
        Ok(Err(e)) => viol(ctx, "subquery_spill", "C33/subquery_spill/err", || json!({"case": case, "err": e, "limit": l1})),
        Err(p) => viol(ctx, "no_panic", &format!("C33/no_panic/subquery_spill@{}", panic_site(&p)), || json!({"case": case, "panic": p})),
    }
}

pub fn run(a: &Args) -> i32 {
    let miri = cfg!(miri);
    let mut ctx = Ctx::new(
        "C33",
        &a.tier,
        a.seed,
        "exploration",
        "RowSerde: sequences of 1..8 rows (0..20 columns, 1 in 40 up to 300; styles: every variant once, one variant repeated, int/float/text join rows, random) over all 19 Value variants with boundary payloads (ints 0/+-1/MIN/MAX, floats +-0/NaN payloads/inf/subnormal by bits, empty and up-to-1-MiB text/blob/jsonb, vectors, 17-byte toast pointers) appended to a pre-filled buffer and decoded in order into one reused SmallVec; every strict prefix of the first row. PartitionSpiller: 1..8 partitions, per-partition budget 0..unbounded so in-memory and on-disk partitions coexist, two write phases (append after spill) each followed by two full reads of every partition, cleanup. SpillableBuffer: all 23 OwnedValue variants, limit 0..unbounded, iter/into_vec, two live buffers interleaved. A case = one decoded row (A) / one spiller (B) / one buffer pair (C). distinct_nontrivial = distinct (value class sequence, log2 encoded sizes) of rows that decoded and compared clean, plus distinct spiller/buffer shapes",
    );
    let mut rng = Rng::derive(a.seed, 33);
    let quick = ctx.quick();
    let files = !miri;
    let scratch = PathBuf::from(format!("/verif/scratch/c33-{}", std::process::id()));
    if files {
        let _ = std::fs::create_dir_all(&scratch);
        // SpillableBuffer spills into std::env::temp_dir(); keep that inside the scratch directory
        std::env::set_var("TMPDIR", &scratch);
    }
    let mut case = 0u64;

    // A
    let nseq: u64 = if miri { 30 } else if quick { 60_000 } else { 600_000 };
    for i in 0..nseq {
        let big = if miri {
            300
        } else if i % 500 == 7 {
            1 << 20
        } else if i % 20 == 3 {
            70_000
        } else {
            2_000
        };
        stage_serde(&mut ctx, &mut rng, case, if miri { 24 } else { 300 }, big, if quick { i % 4 == 0 } else { i % 2 == 0 });
        case += 1;
    }
    // the widest row the u16 column count can describe
    if !miri {
        let wide: Row = (0..65535u32).map(|i| if i % 3 == 0 { Value::Null } else { Value::Int(i as i64 - 7) }).collect();
        let mut buf = vec![];
        let r = catch(|| {
            RowSerde::serialize_row_into(&wide, &mut buf);
            let mut out = Row::new();
            let mut off = 0;
            let ok = RowSerde::deserialize_row_into(&buf, &mut off, &mut out).is_ok();
            (ok, off, out)
        });
        ctx.eval();
        match r {
            Ok((true, off, out)) if off == buf.len() && RowSerde::row_size(&wide) == buf.len() => {
                compare_rows(&mut ctx, "serde", case, &wide, &out);
            }
            Ok((ok, off, _)) => {
                viol(&mut ctx, "decode_ok", "C33/decode_ok/65535_column_row", || json!({"ok": ok, "offset": off, "len": buf.len()}));
            }
            Err(p) => {
                viol(&mut ctx, "no_panic", &format!("C33/no_panic/65535_column_row@{}", panic_site(&p)), || json!({"panic": p}));
            }
        }
        case += 1;
    }
    ctx.count("serde_sequences", nseq);
    ctx.extra.insert("stage_a_done_at_s".into(), json!(ctx.elapsed()));

    // B
    // every spill does two sync_all(): ~30 ms per spiller on this machine
    let nps: u64 = if miri { 3 } else if quick { 300 } else { 2_000 };
    for _ in 0..nps {
        stage_partition(&mut ctx, &mut rng, case, &scratch, files);
        case += 1;
    }
    ctx.extra.insert("stage_b_done_at_s".into(), json!(ctx.elapsed()));
    // C
    let nsq: u64 = if miri { 5 } else if quick { 3_000 } else { 50_000 };
    for _ in 0..nsq {
        stage_subquery(&mut ctx, &mut rng, case, files);
        case += 1;
    }
    if files {
        let left: Vec<String> = std::fs::read_dir(&scratch).map(|d| d.filter_map(|e| e.ok()).map(|e| e.file_name().to_string_lossy().to_string()).collect()).unwrap_or_default();
        ctx.extra.insert("scratch_entries_left_by_turdb".into(), json!(left.len()));
        if let Some(f) = left.iter().find(|f| f.starts_with("subquery_spill_")) {
            viol(&mut ctx, "subquery_spill", "C33/subquery_spill/temp_file_not_removed", || json!({"file": f, "count": left.len()}));
        }
        let _ = std::fs::remove_dir_all(&scratch);
    }
    ctx.sample(json!({"row": describe(&gen_row(&mut Rng::derive(a.seed, 3333), 8, 64))}));
    ctx.assumptions.push("NaN: only NaN-ness must survive RowSerde (the format documents a payload-free NAN tag); every other float is compared by bits, which makes -0.0 -> 0.0 or Float -> Int a violation".into());
    ctx.assumptions.push("PartitionSpiller spill decision follows the module doc: a partition is flushed when the sum of row_size of its in-memory rows exceeds memory_budget / num_partitions".into());
    if miri {
        ctx.assumptions.push("Miri run: no files; PartitionSpiller and SpillableBuffer stay on their in-memory paths".into());
    }
    ctx.finish()
}

//! C34: the freelist conserves pages.
//!
//! The real `turdb::storage::Freelist` is driven with generated release/allocate/reopen histories
//! over an in-memory `Storage`; a model (per-page state: held by the caller / free / handed out)
//! is the oracle. After every operation: `allocated_was_free`, `no_double_handout`,
//! `pages_in_range`, `no_panic`, `no_error`. At quiescent points (`Probe`): the reported
//! `free_count()` must equal the number of successful `allocate()` calls until `None`, measured on
//! a copy-on-write overlay of the storage with a `Freelist::with_head(head, count)` twin, so the
//! probe never perturbs the history (`free_count_matches`).
use crate::memstore::MemStore;
use crate::report::{catch, panic_site, Ctx};
use crate::rng::{fnv, Rng};
use crate::Args;
use eyre::{bail, Result};
use serde_json::{json, Value};
use std::cell::Cell;
use std::collections::{BTreeMap, HashSet};
use turdb::storage::{Freelist, Storage, TableFileHeader, TABLE_MAGIC, TRUNK_MAX_ENTRIES};

const PAGE: usize = 16384;
const HDR: usize = 16; // PageHeader size (documented trunk layout: next_trunk at 16, count at 20, entries from 24)
/// Pages are kept 8-byte aligned like mmap'd pages are (`TrunkHeader::from_bytes` needs 4): a
/// `Box<[u8]>` is only 1-aligned, which malloc hides natively but Miri does not.
static ZERO_WORDS: [u64; PAGE / 8] = [0u64; PAGE / 8];

struct APage(Box<[u64]>);

impl APage {
    fn zeroed() -> Self {
        APage(vec![0u64; PAGE / 8].into_boxed_slice())
    }
    fn copy_of(src: &[u8]) -> Self {
        let mut p = APage::zeroed();
        p.bytes_mut().copy_from_slice(src);
        p
    }
    fn bytes(&self) -> &[u8] {
        // SAFETY: u64 -> u8 reinterpretation of an initialised, exclusively owned buffer
        unsafe { std::slice::from_raw_parts(self.0.as_ptr() as *const u8, PAGE) }
    }
    fn bytes_mut(&mut self) -> &mut [u8] {
        // SAFETY: as above
        unsafe { std::slice::from_raw_parts_mut(self.0.as_mut_ptr() as *mut u8, PAGE) }
    }
}

impl Clone for APage {
    fn clone(&self) -> Self {
        APage(self.0.clone())
    }
}

fn zero_page() -> &'static [u8] {
    // SAFETY: u64 -> u8 reinterpretation of an immutable static
    unsafe { std::slice::from_raw_parts(ZERO_WORDS.as_ptr() as *const u8, PAGE) }
}

// ---------------------------------------------------------------------------------------------
// storages

/// Sparse in-memory storage: pages the freelist (or the caller) never wrote are not materialised,
/// which makes 17 000-page histories cheap natively and feasible under Miri.
#[derive(Clone)]
struct SparseStore {
    n: u32,
    pages: BTreeMap<u32, APage>,
}

impl SparseStore {
    fn new(n: u32) -> Self {
        SparseStore { n, pages: BTreeMap::new() }
    }
}

impl Storage for SparseStore {
    fn page(&self, p: u32) -> Result<&[u8]> {
        if p >= self.n {
            bail!("page {} out of bounds (page_count={})", p, self.n);
        }
        Ok(match self.pages.get(&p) {
            Some(b) => b.bytes(),
            None => zero_page(),
        })
    }
    fn page_mut(&mut self, p: u32) -> Result<&mut [u8]> {
        if p >= self.n {
            bail!("page {} out of bounds (page_count={})", p, self.n);
        }
        Ok(self.pages.entry(p).or_insert_with(APage::zeroed).bytes_mut())
    }
    fn grow(&mut self, c: u32) -> Result<()> {
        if c > self.n {
            self.n = c;
        }
        Ok(())
    }
    fn page_count(&self) -> u32 {
        self.n
    }
    fn sync(&self) -> Result<()> {
        Ok(())
    }
}

/// Records what the freelist touches: page 0 (the "none" sentinel / file header page, never a
/// freelist page) and pages beyond the end of the storage. Used to establish the *cause* of a
/// statement-level violation, not as an assertion of its own.
struct Tracked<S> {
    inner: S,
    page0: Cell<u64>,
    oob: Cell<u64>,
}

impl<S: Storage> Tracked<S> {
    fn new(inner: S) -> Self {
        Tracked { inner, page0: Cell::new(0), oob: Cell::new(0) }
    }
    fn note(&self, p: u32) {
        if p == 0 {
            self.page0.set(self.page0.get() + 1);
        }
        if p >= self.inner.page_count() {
            self.oob.set(self.oob.get() + 1);
        }
    }
}

impl<S: Storage> Storage for Tracked<S> {
    fn page(&self, p: u32) -> Result<&[u8]> {
        self.note(p);
        self.inner.page(p)
    }
    fn page_mut(&mut self, p: u32) -> Result<&mut [u8]> {
        self.note(p);
        self.inner.page_mut(p)
    }
    fn grow(&mut self, c: u32) -> Result<()> {
        self.inner.grow(c)
    }
    fn page_count(&self) -> u32 {
        self.inner.page_count()
    }
    fn sync(&self) -> Result<()> {
        Ok(())
    }
}

/// Copy-on-write view of a storage: semantically a clone, but only the pages the probe writes are
/// copied.
struct Overlay<'a, S> {
    base: &'a S,
    dirty: Vec<(u32, APage)>,
    page0: Cell<u64>,
    oob: Cell<u64>,
}

impl<'a, S: Storage> Overlay<'a, S> {
    fn new(base: &'a S) -> Self {
        Overlay { base, dirty: Vec::new(), page0: Cell::new(0), oob: Cell::new(0) }
    }
    fn note(&self, p: u32) {
        if p == 0 {
            self.page0.set(self.page0.get() + 1);
        }
        if p >= self.base.page_count() {
            self.oob.set(self.oob.get() + 1);
        }
    }
}

impl<'a, S: Storage> Storage for Overlay<'a, S> {
    fn page(&self, p: u32) -> Result<&[u8]> {
        self.note(p);
        match self.dirty.iter().find(|(q, _)| *q == p) {
            Some((_, b)) => Ok(b.bytes()),
            None => self.base.page(p),
        }
    }
    fn page_mut(&mut self, p: u32) -> Result<&mut [u8]> {
        self.note(p);
        // (a drain dirties one page per trunk in the chain: a handful)
        let i = match self.dirty.iter().position(|(q, _)| *q == p) {
            Some(i) => i,
            None => {
                let copy = APage::copy_of(self.base.page(p)?);
                self.dirty.push((p, copy));
                self.dirty.len() - 1
            }
        };
        Ok(self.dirty[i].1.bytes_mut())
    }
    fn grow(&mut self, _c: u32) -> Result<()> {
        bail!("probe overlay cannot grow")
    }
    fn page_count(&self) -> u32 {
        self.base.page_count()
    }
    fn sync(&self) -> Result<()> {
        Ok(())
    }
}

// ---------------------------------------------------------------------------------------------
// history description

#[derive(Clone, Copy, PartialEq, Eq, Debug)]
enum Op {
    /// caller gives page back
    Rel(u32),
    /// caller asks for a page
    Alloc,
    /// drop the Freelist value and rebuild it from (head_page, free_count), as a file header would
    Reopen,
    /// quiescent point: free_count() vs. drain on a copy
    Probe,
    /// emulate `k` releases of the pages `first..first+k` into the (non-full) head trunk by
    /// writing the documented trunk layout directly (validated against real releases at start-up);
    /// lets short (Miri) histories reach multi-trunk states
    Fill(u32, u32),
}

#[derive(Clone, Debug)]
struct Env {
    pages: u32,
    /// 0 = page 0 all zero; t > 0 = page 0 carries a TurDB table file header with table_id = t
    page0_table_id: u32,
    /// caller overwrites the start of every page it is handed (legitimate: it owns them)
    scribble: bool,
    /// 0 = SparseStore, 1 = crate::memstore::MemStore
    backing: u8,
}

impl Env {
    fn json(&self) -> Value {
        json!({"pages": self.pages, "page0_table_id": self.page0_table_id, "scribble": self.scribble, "backing": if self.backing == 0 { "sparse" } else { "memstore" }})
    }
}

fn ops_to_string(ops: &[Op]) -> String {
    let mut s = String::with_capacity(ops.len() * 4);
    for (i, op) in ops.iter().enumerate() {
        if i > 0 {
            s.push(' ');
        }
        match op {
            Op::Rel(p) => {
                s.push('R');
                s.push_str(&p.to_string());
            }
            Op::Alloc => s.push('A'),
            Op::Reopen => s.push('O'),
            Op::Probe => s.push('P'),
            Op::Fill(a, k) => s.push_str(&format!("F{}+{}", a, k)),
        }
    }
    s
}

fn ops_from_string(s: &str) -> Option<Vec<Op>> {
    let mut v = vec![];
    for t in s.split_whitespace() {
        let op = match t.as_bytes()[0] {
            b'R' => Op::Rel(t[1..].parse().ok()?),
            b'A' => Op::Alloc,
            b'O' => Op::Reopen,
            b'P' => Op::Probe,
            b'F' => {
                let mut it = t[1..].split('+');
                Op::Fill(it.next()?.parse().ok()?, it.next()?.parse().ok()?)
            }
            _ => return None,
        };
        v.push(op);
    }
    Some(v)
}

#[derive(Clone, Debug)]
struct Viol {
    assertion: &'static str,
    sig: String,
    info: Value,
    fatal: bool,
    /// number of ops executed when it was observed (prefix length that reproduces it)
    at: usize,
}

const HELD: u8 = 1; // owned by the caller, not obtained from allocate() since it last owned it
const FREE: u8 = 2; // released, not handed out since
const HANDED: u8 = 3; // owned by the caller, obtained from allocate()

#[derive(Default, Clone, Debug)]
struct Stats {
    releases: u64,
    allocs_some: u64,
    allocs_none: u64,
    reopens: u64,
    probes: u64,
    fills: u64,
    fill_pages: u64,
    chain_events: u64,
    hops: u64,
    max_chain: u32,
    max_free: usize,
    max_leaked: usize,
    skipped: u64,
}

struct Hist<S: Storage> {
    env: Env,
    store: Tracked<S>,
    fl: Freelist,
    state: Vec<u8>,
    /// page became the head trunk when it was released (observed through head_page()) and has not
    /// been handed out since
    trunk_seen: Vec<bool>,
    held: Vec<u32>,
    /// the model's free pages as a list (a page is in `held` or in `freev`; `pos` indexes either)
    freev: Vec<u32>,
    pos: Vec<u32>,
    n_free: usize,
    ops: Vec<Op>,
    stamp: Vec<u32>,
    epoch: u32,
    st: Stats,
    viols: Vec<Viol>,
    dead: bool,
    /// release/allocate calls since the last probe (probe cost is amortised against it)
    credit: usize,
    scribbled: usize,
}

fn mix(a: u64, b: u64) -> u64 {
    let mut z = a.wrapping_mul(0x9E3779B97F4A7C15) ^ b.wrapping_add(0xD1B54A32D192ED03);
    z = (z ^ (z >> 30)).wrapping_mul(0xBF58476D1CE4E5B9);
    z = (z ^ (z >> 27)).wrapping_mul(0x94D049BB133111EB);
    z ^ (z >> 31)
}

/// TurDB table file header bytes (layout of `TableFileHeader`, checked with its own parser).
fn table_header_bytes(table_id: u32) -> Vec<u8> {
    let mut b = vec![0u8; 128];
    b[..16].copy_from_slice(&TABLE_MAGIC[..]);
    b[16..24].copy_from_slice(&(table_id as u64).to_le_bytes());
    b[24..32].copy_from_slice(&1234u64.to_le_bytes()); // row_count
    b[32..36].copy_from_slice(&1u32.to_le_bytes()); // root_page
    b[36..40].copy_from_slice(&3u32.to_le_bytes()); // column_count
    b[40..48].copy_from_slice(&0u64.to_le_bytes()); // first_free_page
    b[48..56].copy_from_slice(&1235u64.to_le_bytes()); // auto_increment
    b
}

fn table_header_ok() -> bool {
    let b = table_header_bytes(7);
    match TableFileHeader::from_bytes(&b) {
        Ok(h) => h.table_id() == 7 && h.root_page() == 1 && h.row_count() == 1234,
        Err(_) => false,
    }
}

impl<S: Storage> Hist<S> {
    fn new(env: Env, inner: S) -> Self {
        let n = env.pages as usize;
        let mut store = Tracked::new(inner);
        if env.page0_table_id != 0 {
            let b = table_header_bytes(env.page0_table_id);
            store.inner.page_mut(0).unwrap()[..128].copy_from_slice(&b);
        }
        let mut h = Hist {
            env,
            store,
            fl: Freelist::new(),
            state: vec![HELD; n],
            trunk_seen: vec![false; n],
            held: Vec::with_capacity(n),
            freev: Vec::new(),
            pos: vec![u32::MAX; n],
            n_free: 0,
            ops: vec![],
            stamp: vec![0; n],
            epoch: 0,
            st: Stats::default(),
            viols: vec![],
            dead: false,
            credit: 0,
            scribbled: 0,
        };
        h.state[0] = 0;
        for p in 1..n as u32 {
            h.pos[p as usize] = h.held.len() as u32;
            h.held.push(p);
        }
        if h.env.scribble && n <= 256 {
            // the caller's pages hold the caller's data from the start
            for p in 1..n as u32 {
                h.scribble(p);
            }
        }
        h
    }

    fn hold(&mut self, p: u32) {
        self.pos[p as usize] = self.held.len() as u32;
        self.held.push(p);
    }

    /// held -> free
    fn unhold(&mut self, p: u32) {
        let i = self.pos[p as usize] as usize;
        let last = *self.held.last().unwrap();
        self.held.swap_remove(i);
        if last != p {
            self.pos[last as usize] = i as u32;
        }
        self.pos[p as usize] = self.freev.len() as u32;
        self.freev.push(p);
    }

    /// free -> held
    fn unfree(&mut self, p: u32) {
        let i = self.pos[p as usize] as usize;
        let last = *self.freev.last().unwrap();
        self.freev.swap_remove(i);
        if last != p {
            self.pos[last as usize] = i as u32;
        }
        self.hold(p);
    }

    /// caller data in a page the caller owns: plausible page numbers everywhere, and a non-zero
    /// word where a trunk would keep its entry count (a zero there could make a freelist that
    /// wrongly follows caller pages recurse without bound, which would take the harness down)
    fn scribble(&mut self, p: u32) {
        let n = self.env.pages as u64;
        let salt = self.ops.len() as u64;
        let page = self.store.inner.page_mut(p).unwrap();
        for i in 0..64usize {
            let r = mix(p as u64 * 64 + i as u64, salt);
            let v: u32 = match r % 8 {
                0 => (r >> 8) as u32,
                1 => n as u32 + ((r >> 8) % 5) as u32,
                _ => ((r >> 8) % n) as u32,
            };
            page[i * 4..i * 4 + 4].copy_from_slice(&v.to_le_bytes());
        }
        let r = mix(p as u64, salt ^ 0x55);
        let cnt: u32 = if r % 16 == 0 { 5000 + (r >> 8) as u32 % 100 } else { 1 + ((r >> 8) % 40) as u32 };
        page[HDR + 4..HDR + 8].copy_from_slice(&cnt.to_le_bytes());
    }

    fn cause_suffix(&self, probe_page0: u64) -> &'static str {
        // page 0 is harmless to read as a trunk only while it is all zero
        if self.env.page0_table_id != 0 && self.store.page0.get() + probe_page0 > 0 {
            "page0_sentinel_read_as_trunk"
        } else {
            "freelist_pages_only"
        }
    }

    fn viol(&mut self, assertion: &'static str, sig: String, info: Value, fatal: bool) {
        let at = self.ops.len();
        if fatal {
            self.dead = true;
        }
        self.viols.push(Viol { assertion, sig, info, fatal, at });
    }

    /// trunk chain as the documented on-page layout describes it (for statistics/diagnosis only)
    fn walk_chain(&self) -> (u32, u64, bool) {
        let mut trunks = 0u32;
        let mut entries = 0u64;
        let mut p = self.fl.head_page();
        let n = self.env.pages;
        let mut clean = true;
        while p != 0 {
            if p >= n || trunks > n {
                clean = false;
                break;
            }
            let pg = match self.store.inner.page(p) {
                Ok(x) => x,
                Err(_) => {
                    clean = false;
                    break;
                }
            };
            let next = u32::from_le_bytes(pg[HDR..HDR + 4].try_into().unwrap());
            let cnt = u32::from_le_bytes(pg[HDR + 4..HDR + 8].try_into().unwrap());
            trunks += 1;
            entries += cnt as u64;
            p = next;
        }
        (trunks, entries, clean)
    }

    /// check one page returned by allocate() (live or on the probe copy) against the model
    fn check_handout(&mut self, p: u32, probe: bool, probe_page0: u64) -> bool {
        let n = self.env.pages;
        let cause = self.cause_suffix(probe_page0);
        let ctxinfo = json!({"page": p, "on_probe_copy": probe, "page_count": n, "page0_accesses": self.store.page0.get() + probe_page0});
        if p >= n {
            self.viol("pages_in_range", format!("C34/pages_in_range/allocate_returned_page_beyond_storage/{}", cause), ctxinfo, true);
            return false;
        }
        let st = self.state[p as usize];
        let dup_in_probe = probe && self.stamp[p as usize] == self.epoch;
        if st == HANDED || dup_in_probe {
            self.viol("no_double_handout", format!("C34/no_double_handout/page_already_handed_out/{}", cause), ctxinfo, true);
            return false;
        }
        if st != FREE {
            let what = if p == 0 { "page0_returned" } else { "page_never_released" };
            self.viol("allocated_was_free", format!("C34/allocated_was_free/{}/{}", what, cause), ctxinfo, true);
            return false;
        }
        true
    }

    fn step(&mut self, op: Op) {
        if self.dead {
            return;
        }
        match op {
            Op::Rel(p) => {
                if p == 0 || p >= self.env.pages || (self.state[p as usize] != HELD && self.state[p as usize] != HANDED) {
                    self.st.skipped += 1;
                    return;
                }
                self.ops.push(op);
                self.credit += 1;
                let before_head = self.fl.head_page();
                let r = catch(|| self.fl.release(&mut self.store, p));
                match r {
                    Err(pm) => {
                        let site = panic_site(&pm);
                        self.viol("no_panic", format!("C34/no_panic/release@{}", site), json!({"panic": pm, "page": p}), true);
                    }
                    Ok(Err(e)) => {
                        let cause = self.cause_suffix(0);
                        self.viol("no_error", format!("C34/no_error/release/{}", cause), json!({"error": e.to_string(), "page": p, "oob_accesses": self.store.oob.get()}), true);
                    }
                    Ok(Ok(())) => {
                        self.st.releases += 1;
                        self.unhold(p);
                        self.state[p as usize] = FREE;
                        self.n_free += 1;
                        self.st.max_free = self.st.max_free.max(self.n_free);
                        if self.fl.head_page() == p {
                            self.trunk_seen[p as usize] = true;
                            if before_head != 0 {
                                self.st.chain_events += 1;
                            }
                        }
                    }
                }
            }
            Op::Alloc => {
                self.ops.push(op);
                self.credit += 1;
                let before_head = self.fl.head_page();
                let r = catch(|| self.fl.allocate(&mut self.store));
                match r {
                    Err(pm) => {
                        let site = panic_site(&pm);
                        self.viol("no_panic", format!("C34/no_panic/allocate@{}", site), json!({"panic": pm}), true);
                    }
                    Ok(Err(e)) => {
                        let cause = self.cause_suffix(0);
                        self.viol("no_error", format!("C34/no_error/allocate/{}", cause), json!({"error": e.to_string(), "oob_accesses": self.store.oob.get()}), true);
                    }
                    Ok(Ok(None)) => {
                        self.st.allocs_none += 1;
                    }
                    Ok(Ok(Some(p))) => {
                        if self.check_handout(p, false, 0) {
                            self.st.allocs_some += 1;
                            self.state[p as usize] = HANDED;
                            self.trunk_seen[p as usize] = false;
                            self.n_free -= 1;
                            self.unfree(p);
                            // (large storages: only low pages and a bounded number of others, to
                            // keep the sparse store sparse)
                            if self.env.scribble && (p < 64 || self.env.pages <= 4096 || self.scribbled < 256) {
                                self.scribbled += 1;
                                self.scribble(p);
                            }
                            let h = self.fl.head_page();
                            if before_head != 0 && h != 0 && h != before_head {
                                self.st.hops += 1;
                            }
                        }
                    }
                }
            }
            Op::Reopen => {
                self.ops.push(op);
                self.st.reopens += 1;
                let (h, c) = (self.fl.head_page(), self.fl.free_count());
                if self.st.reopens % 2 == 0 {
                    self.fl = Freelist::with_head(h, c);
                } else {
                    let mut f = Freelist::new();
                    f.set_head(h, c);
                    self.fl = f;
                }
            }
            Op::Fill(first, k) => {
                // only valid on a non-full head trunk with room for k entries, over held pages
                let head = self.fl.head_page();
                if head == 0 || k == 0 || first == 0 || first as u64 + k as u64 > self.env.pages as u64 {
                    self.st.skipped += 1;
                    return;
                }
                let cnt = {
                    let pg = self.store.inner.page(head).unwrap();
                    u32::from_le_bytes(pg[HDR + 4..HDR + 8].try_into().unwrap())
                };
                if cnt as usize + k as usize > TRUNK_MAX_ENTRIES || (first..first + k).any(|p| self.state[p as usize] != HELD && self.state[p as usize] != HANDED) {
                    self.st.skipped += 1;
                    return;
                }
                self.ops.push(op);
                self.st.fills += 1;
                {
                    let pg = self.store.inner.page_mut(head).unwrap();
                    for i in 0..k {
                        let off = HDR + 8 + (cnt + i) as usize * 4;
                        pg[off..off + 4].copy_from_slice(&(first + i).to_le_bytes());
                    }
                    pg[HDR + 4..HDR + 8].copy_from_slice(&(cnt + k).to_le_bytes());
                }
                let c = self.fl.free_count();
                self.fl.set_head(head, c + k);
                for p in first..first + k {
                    self.unhold(p);
                    self.state[p as usize] = FREE;
                }
                self.n_free += k as usize;
                self.st.fill_pages += k as u64;
                self.st.max_free = self.st.max_free.max(self.n_free);
            }
            Op::Probe => {
                self.ops.push(op);
                self.probe();
            }
        }
    }

    /// a probe costs O(free pages): take it only when enough operations have been executed since
    /// the last one to keep the total probe work within a small multiple of the op work
    fn probe_if_affordable(&mut self) {
        if self.credit * 6 >= self.n_free {
            self.step(Op::Probe);
        }
    }

    fn probe(&mut self) {
        self.credit = 0;
        self.st.probes += 1;
        let reported = self.fl.free_count();
        let head = self.fl.head_page();
        self.epoch += 1;
        let cap = reported as usize + self.n_free + 8;
        let mut drained: usize = 0;
        let mut terminated = false;
        let mut pending: Option<(&'static str, String, Value)> = None;
        let mut handed: Vec<u32> = vec![];
        let (p0, _oob) = {
            let mut ov = Overlay::new(&self.store.inner);
            let mut twin = Freelist::with_head(head, reported);
            // one unwind guard around the whole drain (a guard per call is what makes Miri crawl)
            let res = catch(|| {
                for _ in 0..=cap {
                    match twin.allocate(&mut ov) {
                        Err(e) => return Some(e.to_string()),
                        Ok(None) => {
                            terminated = true;
                            return None;
                        }
                        Ok(Some(p)) => handed.push(p),
                    }
                }
                None
            });
            match res {
                Err(pm) => {
                    let site = panic_site(&pm);
                    pending = Some(("no_panic", format!("C34/no_panic/allocate@{}", site), json!({"panic": pm, "on_probe_copy": true})));
                }
                Ok(Some(e)) => {
                    pending = Some(("no_error", "C34/no_error/allocate/".to_string(), json!({"error": e, "on_probe_copy": true, "oob_accesses": ov.oob.get()})));
                }
                Ok(None) => {}
            }
            (ov.page0.get(), ov.oob.get())
        };
        for p in handed {
            if !self.check_handout(p, true, p0) {
                return;
            }
            self.stamp[p as usize] = self.epoch;
            drained += 1;
        }
        if let Some((a, mut sig, info)) = pending {
            if sig.ends_with('/') {
                sig.push_str(self.cause_suffix(p0));
            }
            self.viol(a, sig, info, true);
            return;
        }
        if !terminated {
            self.viol(
                "free_count_matches",
                "C34/free_count_matches/drain_does_not_terminate".into(),
                json!({"reported_free_count": reported, "model_free": self.n_free, "allocations_made": drained}),
                true,
            );
            return;
        }
        let (trunks, entries, clean) = self.walk_chain();
        if clean && (self.env.page0_table_id == 0 || self.store.page0.get() == 0) {
            self.st.max_chain = self.st.max_chain.max(trunks);
        }
        if reported as usize != drained {
            // which free pages could not be obtained?
            let mut missing: Vec<u32> = vec![];
            let mut missing_all_trunks = true;
            let mut n_missing = 0usize;
            for &p in self.freev.iter() {
                if self.stamp[p as usize] != self.epoch {
                    n_missing += 1;
                    if !self.trunk_seen[p as usize] {
                        missing_all_trunks = false;
                    }
                    missing.push(p);
                }
            }
            missing.sort();
            missing.truncate(12);
            let over = reported as usize > drained;
            let cause = if over && n_missing > 0 && missing_all_trunks && reported as usize - drained <= n_missing {
                "trunk_page_not_allocatable"
            } else if over {
                "overcount_other"
            } else {
                "undercount"
            };
            self.viol(
                "free_count_matches",
                format!("C34/free_count_matches/{}", cause),
                json!({
                    "reported_free_count": reported,
                    "successful_allocations_until_none": drained,
                    "model_free_pages": self.n_free,
                    "head_page": head,
                    "chain_trunks": trunks,
                    "chain_entries": entries,
                    "free_pages_not_obtainable": missing,
                    "free_pages_not_obtainable_count": n_missing,
                    "all_of_them_were_trunk_pages": missing_all_trunks,
                    "probe_read_page0": p0 > 0,
                }),
                false,
            );
        } else {
            self.st.max_leaked = self.st.max_leaked.max(self.n_free - drained);
        }
    }
}

// ---------------------------------------------------------------------------------------------
// executing a fixed op list (replay, shrinking)

fn exec_ops(env: &Env, ops: &[Op]) -> (Vec<Viol>, Stats, Vec<Op>) {
    fn go<S: Storage>(mut h: Hist<S>, ops: &[Op]) -> (Vec<Viol>, Stats, Vec<Op>) {
        for op in ops {
            h.step(*op);
            if h.dead {
                break;
            }
        }
        (h.viols, h.st, h.ops)
    }
    if env.backing == 0 {
        go(Hist::new(env.clone(), SparseStore::new(env.pages)), ops)
    } else {
        go(Hist::new(env.clone(), MemStore::new(env.pages)), ops)
    }
}

fn reproduces(env: &Env, ops: &[Op], sig: &str) -> bool {
    exec_ops(env, ops).0.iter().any(|v| v.sig == sig)
}

/// ddmin over the op list (bounded), keeping the same signature
fn shrink(env: &Env, ops: &[Op], sig: &str, budget: usize) -> Vec<Op> {
    let mut cur: Vec<Op> = ops.to_vec();
    let mut used = 0usize;
    if !reproduces(env, &cur, sig) {
        return cur;
    }
    let mut n = 2usize;
    while cur.len() >= 2 && used < budget {
        let chunk = (cur.len() + n - 1) / n;
        let mut reduced = false;
        let mut i = 0;
        while i * chunk < cur.len() && used < budget {
            let lo = i * chunk;
            let hi = (lo + chunk).min(cur.len());
            let mut cand = Vec::with_capacity(cur.len() - (hi - lo) + 1);
            cand.extend_from_slice(&cur[..lo]);
            cand.extend_from_slice(&cur[hi..]);
            // the violation is observed at a probe or an allocate: keep a final probe
            used += 1;
            if !cand.is_empty() && reproduces(env, &cand, sig) {
                cur = cand;
                n = n.saturating_sub(1).max(2);
                reduced = true;
                break;
            }
            i += 1;
        }
        if !reduced {
            if n >= cur.len() {
                break;
            }
            n = (n * 2).min(cur.len());
        }
    }
    cur
}

// ---------------------------------------------------------------------------------------------
// generators (online: the next op depends on what the caller currently holds)

#[derive(Clone, Copy, Debug)]
enum Order {
    Random,
    Lowest,
    Highest,
}

fn pick_release<S: Storage>(h: &Hist<S>, rng: &mut Rng, order: Order) -> Option<u32> {
    if h.held.is_empty() {
        return None;
    }
    match order {
        Order::Random => Some(h.held[rng.below(h.held.len() as u64) as usize]),
        Order::Lowest => h.held.iter().copied().min(),
        Order::Highest => h.held.iter().copied().max(),
    }
}

/// drive towards a sequence of target free levels with a noisy release/allocate mix
fn gen_phased<S: Storage>(h: &mut Hist<S>, rng: &mut Rng, max_ops: usize, probe_every: u64, targets: &[usize]) {
    let usable = h.env.pages as usize - 1;
    let mut ops = 0usize;
    for &t in targets {
        let t = t.min(usable);
        let noise = *rng.pick(&[0u64, 0, 1, 3, 10]);
        let mut guard = 0usize;
        while h.n_free != t && ops < max_ops && !h.dead {
            guard += 1;
            if guard > 4 * usable + 64 {
                break;
            }
            let want_release = h.n_free < t;
            let do_release = if rng.below(100) < noise * 4 { !want_release } else { want_release };
            if do_release {
                match pick_release(h, rng, Order::Random) {
                    Some(p) => h.step(Op::Rel(p)),
                    None => h.step(Op::Alloc),
                }
            } else {
                let before = h.st.allocs_none;
                h.step(Op::Alloc);
                if h.st.allocs_none > before && !want_release {
                    // the freelist says it is empty although the model is not: the probe reports
                    // it; the level cannot be reached by allocating
                    h.step(Op::Probe);
                    break;
                }
            }
            ops += 1;
            if rng.below(probe_every) == 0 {
                h.probe_if_affordable();
            }
            if rng.below(probe_every * 3) == 0 {
                h.step(Op::Reopen);
            }
        }
        h.step(Op::Probe);
        if rng.chance(1, 3) {
            h.step(Op::Reopen);
            h.step(Op::Probe);
        }
        if ops >= max_ops || h.dead {
            break;
        }
    }
}

/// free levels at which trunk pages fill up / empty: k*(MAX+1) + d
fn boundary_levels(rng: &mut Rng, max_trunks: usize) -> Vec<usize> {
    let per = TRUNK_MAX_ENTRIES + 1;
    let mut v = vec![];
    let n = rng.usize(3, 9);
    for _ in 0..n {
        let k = rng.usize(0, max_trunks);
        let d = rng.range(-3, 3);
        let base = (k * per) as i64 + d;
        v.push(base.max(0) as usize);
        if rng.chance(1, 3) {
            v.push(0);
        }
        if rng.chance(1, 3) {
            v.push(rng.usize(0, max_trunks * per));
        }
    }
    v.push(0);
    v
}

// ---------------------------------------------------------------------------------------------
// run

struct Runner<'a> {
    ctx: &'a mut Ctx,
    shrunk: HashSet<String>,
    histories: u64,
    multi_trunk: u64,
    three_trunk: u64,
    violating_histories: u64,
    agg: Stats,
    sampled: usize,
}

impl<'a> Runner<'a> {
    fn finish_history<S: Storage>(&mut self, h: Hist<S>, label: &str) {
        self.histories += 1;
        let st = h.st.clone();
        self.ctx.evals(st.releases + st.allocs_some + st.allocs_none);
        self.agg.releases += st.releases;
        self.agg.allocs_some += st.allocs_some;
        self.agg.allocs_none += st.allocs_none;
        self.agg.reopens += st.reopens;
        self.agg.probes += st.probes;
        self.agg.fills += st.fills;
        self.agg.fill_pages += st.fill_pages;
        self.agg.chain_events += st.chain_events;
        self.agg.hops += st.hops;
        self.agg.max_chain = self.agg.max_chain.max(st.max_chain);
        self.agg.max_free = self.agg.max_free.max(st.max_free);
        self.agg.max_leaked = self.agg.max_leaked.max(st.max_leaked);
        if st.max_chain >= 2 {
            self.multi_trunk += 1;
            // structural hash of the history: its op list
            let s = ops_to_string(&h.ops);
            self.ctx.nontrivial(fnv(s.as_bytes()));
        }
        if st.max_chain >= 3 {
            self.three_trunk += 1;
        }
        if self.sampled < 4 && (st.max_chain >= 3 || (self.sampled < 2 && st.probes > 3 && st.allocs_some > 0)) {
            self.sampled += 1;
            let s = ops_to_string(&h.ops);
            let head: String = s.chars().take(160).collect();
            self.ctx.sample(json!({"kind": label, "env": h.env.json(), "ops_executed": h.ops.len(), "ops_prefix": head, "releases": st.releases, "allocations": st.allocs_some, "allocate_none": st.allocs_none, "reopens": st.reopens, "probes": st.probes, "max_trunks_in_chain": st.max_chain, "max_free_pages": st.max_free}));
        }
        if h.viols.is_empty() {
            return;
        }
        self.violating_histories += 1;
        let mut seen_here: HashSet<String> = HashSet::new();
        for v in h.viols.iter() {
            if !seen_here.insert(v.sig.clone()) {
                // one per signature and history is enough to count
                continue;
            }
            let known = self.ctx.is_known(&v.sig).is_some();
            if known || self.shrunk.contains(&v.sig) {
                self.ctx.violation(v.assertion, &v.sig, json!({"history": label, "observation": v.info}));
                continue;
            }
            self.shrunk.insert(v.sig.clone());
            let prefix = &h.ops[..v.at.min(h.ops.len())];
            // (under Miri a re-execution of a multi-trunk history costs seconds)
            let budget = if !cfg!(miri) { 300 } else if h.env.pages > 256 { 0 } else { 40 };
            let small = if budget == 0 { prefix.to_vec() } else { shrink(&h.env, prefix, &v.sig, budget) };
            let (viols2, _, executed) = exec_ops(&h.env, &small);
            let info2 = viols2.iter().find(|x| x.sig == v.sig).map(|x| x.info.clone()).unwrap_or(Value::Null);
            let detail = json!({
                "history": label,
                "env": h.env.json(),
                "ops": ops_to_string(&executed),
                "ops_len": executed.len(),
                "ops_legend": "Rn = release(page n), A = allocate(), O = rebuild Freelist from (head_page, free_count), P = probe (free_count vs drain on a copy), Fa+k = k releases of pages a.. emulated by writing the documented trunk layout",
                "observation": info2,
                "unshrunk_len": prefix.len(),
                "unshrunk_observation": v.info,
                "fatal_for_history": v.fatal,
            });
            self.ctx.violation(v.assertion, &v.sig, detail);
        }
    }
}

fn mk_env(rng: &mut Rng, pages: u32, allow_hostile_page0: bool, backing: u8) -> Env {
    let hostile = allow_hostile_page0 && rng.chance(1, 3);
    Env {
        pages,
        page0_table_id: if hostile { 1 + rng.below((pages as u64 - 1).min(40)) as u32 } else { 0 },
        scribble: rng.chance(1, 2) && pages <= 4096,
        backing,
    }
}

/// `Fill` must be indistinguishable from real releases: same head, count and trunk bytes
fn fill_is_faithful() -> bool {
    let k = 700u32;
    let env = Env { pages: k + 10, page0_table_id: 0, scribble: false, backing: 0 };
    let mut a = Hist::new(env.clone(), SparseStore::new(env.pages));
    let mut b = Hist::new(env.clone(), SparseStore::new(env.pages));
    a.step(Op::Rel(1));
    b.step(Op::Rel(1));
    a.step(Op::Rel(2));
    b.step(Op::Rel(2));
    for p in 3..3 + k {
        a.step(Op::Rel(p));
    }
    b.step(Op::Fill(3, k));
    if a.fl.head_page() != b.fl.head_page() || a.fl.free_count() != b.fl.free_count() || b.st.fills != 1 {
        return false;
    }
    let pa = a.store.inner.page(1).unwrap();
    let pb = b.store.inner.page(1).unwrap();
    pa == pb && a.store.inner.pages.len() == b.store.inner.pages.len()
}

pub fn run(a: &Args) -> i32 {
    let miri = cfg!(miri);
    let mut ctx = Ctx::new(
        "C34",
        &a.tier,
        a.seed,
        "exploration",
        "histories of release(p)/allocate()/rebuild-from-(head_page,free_count) on the real Freelist over an in-memory Storage, against a per-page model (held/free/handed out). Generators: every sequence over {release, allocate, reopen} up to a length bound on 6 pages; random mixes on 4..160 pages probed after every op; phased histories steering the number of free pages through k*(TRUNK_MAX_ENTRIES+1)+d for k up to 4 (trunk pages filling, chaining and emptying), random release order, allocate-until-empty, reopen at random points. A case = one release/allocate with its after-op assertions; quiescent probes compare free_count() with the number of successful allocate() calls until None on a copy-on-write copy. distinct_nontrivial = distinct histories (hash of the executed op list) whose trunk chain reached >= 2 trunk pages (measured by walking the documented on-page layout)",
    );
    let mut rng = Rng::derive(a.seed, 34);
    let quick = ctx.quick();
    let per = TRUNK_MAX_ENTRIES + 1;
    ctx.extra.insert("trunk_max_entries".into(), json!(TRUNK_MAX_ENTRIES));

    // replay of one stored witness
    if let Some(path) = &a.replay {
        let txt = std::fs::read_to_string(path).expect("replay file");
        let v: Value = serde_json::from_str(&txt).expect("replay json");
        let d = &v["detail"];
        let env = Env {
            pages: d["env"]["pages"].as_u64().unwrap_or(8) as u32,
            page0_table_id: d["env"]["page0_table_id"].as_u64().unwrap_or(0) as u32,
            scribble: d["env"]["scribble"].as_bool().unwrap_or(false),
            backing: if d["env"]["backing"].as_str() == Some("memstore") { 1 } else { 0 },
        };
        let ops = ops_from_string(d["ops"].as_str().unwrap_or("")).expect("ops");
        let (viols, st, executed) = exec_ops(&env, &ops);
        ctx.evals(st.releases + st.allocs_some + st.allocs_none);
        ctx.nontrivial(fnv(ops_to_string(&executed).as_bytes()));
        ctx.nontrivial(1);
        ctx.sample(json!({"replayed": path, "ops": executed.len()}));
        for x in viols {
            ctx.violation(x.assertion, &x.sig, json!({"env": env.json(), "ops": ops_to_string(&executed), "observation": x.info}));
        }
        return ctx.finish();
    }

    let hdr_ok = table_header_ok();
    if !hdr_ok {
        ctx.assumptions.push("the hand-built table file header for page 0 was not accepted by TableFileHeader::from_bytes; histories with a file header in page 0 were not generated".into());
    }
    let fill_ok = fill_is_faithful();
    ctx.extra.insert("fill_emulation_validated".into(), json!(fill_ok));

    let mut r = Runner { ctx: &mut ctx, shrunk: HashSet::new(), histories: 0, multi_trunk: 0, three_trunk: 0, violating_histories: 0, agg: Stats::default(), sampled: 0 };

    // wall-clock caps per section (only bite on an overloaded machine; a truncated section is
    // recorded, and the minimum coverage is still demanded below)
    let caps: [f64; 4] = if miri { [1e9; 4] } else if quick { [4.0, 12.0, 21.0, 27.0] } else { [30.0, 120.0, 220.0, 280.0] };
    let mut truncated: Vec<&str> = vec![];
    // 1. small-scope exhaustive: every word over {R, A, O} up to length L, 6 pages, probe after every op
    let max_len = if miri { 4 } else if quick { 9 } else { 11 };
'exh: for len in 1..=max_len {
        let total = 3u64.pow(len as u32);
        for code in 0..total {
            if code % 1024 == 0 && r.ctx.elapsed() > caps[0] {
                truncated.push("exhaustive_small");
                break 'exh;
            }
            let order = match (code + len as u64) % 3 {
                0 => Order::Lowest,
                1 => Order::Highest,
                _ => Order::Random,
            };
            let env = Env { pages: 6, page0_table_id: if hdr_ok && code % 4 == 3 { 1 + (code % 5) as u32 } else { 0 }, scribble: code % 2 == 1, backing: if code % 7 == 0 && !miri { 1 } else { 0 } };
            macro_rules! body {
                ($store:expr) => {{
                    let mut h = Hist::new(env.clone(), $store);
                    let mut c = code;
                    for _ in 0..len {
                        match c % 3 {
                            0 => match pick_release(&h, &mut rng, order) {
                                Some(p) => h.step(Op::Rel(p)),
                                None => h.step(Op::Alloc),
                            },
                            1 => h.step(Op::Alloc),
                            _ => h.step(Op::Reopen),
                        }
                        c /= 3;
                        h.step(Op::Probe);
                    }
                    r.finish_history(h, "exhaustive_small");
                }};
            }
            if env.backing == 1 {
                body!(MemStore::new(env.pages))
            } else {
                body!(SparseStore::new(env.pages))
            }
        }
    }

    let t1 = r.ctx.elapsed();
    if miri {
        eprintln!("C34 miri: exhaustive done at {:.0}s", t1);
    }
    // 2. random mixes on small page sets, probe after every op
    let n_small = if miri { 6 } else if quick { 3000 } else { 25_000 };
    for i in 0..n_small {
        if i % 64 == 0 && r.ctx.elapsed() > caps[1] {
            truncated.push("random_small");
            break;
        }
        let pages = rng.usize(4, if miri { 24 } else { 160 }) as u32;
        // (crate::memstore pages are 1-aligned boxes: fine behind malloc, not under Miri)
        let backing = if i % 5 == 0 && !miri { 1 } else { 0 };
        let env = mk_env(&mut rng, pages, hdr_ok, backing);
        let nops = rng.usize(5, if miri { 40 } else { 300 });
        let bias = rng.below(100);
        macro_rules! body {
            ($store:expr) => {{
                let mut h = Hist::new(env.clone(), $store);
                let mut drift = bias;
                for _ in 0..nops {
                    if rng.below(40) == 0 {
                        drift = rng.below(100);
                    }
                    let x = rng.below(100);
                    if x < 3 {
                        h.step(Op::Reopen);
                    } else if rng.below(100) < drift {
                        match pick_release(&h, &mut rng, Order::Random) {
                            Some(p) => h.step(Op::Rel(p)),
                            None => h.step(Op::Alloc),
                        }
                    } else {
                        h.step(Op::Alloc);
                    }
                    h.step(Op::Probe);
                    if h.dead {
                        break;
                    }
                }
                // allocate until empty, live
                let mut guard = 0;
                while !h.dead && guard < pages + 2 {
                    guard += 1;
                    let before = h.st.allocs_none;
                    h.step(Op::Alloc);
                    if h.st.allocs_none > before {
                        break;
                    }
                }
                h.step(Op::Probe);
                r.finish_history(h, "random_small");
            }};
        }
        if backing == 1 {
            body!(MemStore::new(pages))
        } else {
            body!(SparseStore::new(pages))
        }
    }

    let t2 = r.ctx.elapsed();
    // 3. multi-trunk histories with real releases (native only: >= 3 trunks need > 8182 releases)
    if !miri {
        let n_long = if quick { 60 } else { 700 };
        for i in 0..n_long {
            if r.ctx.elapsed() > caps[2] {
                truncated.push("multi_trunk_real_releases");
                break;
            }
            let max_trunks = if i % 4 == 0 { 4 } else { 3 };
            let pages = (max_trunks * per + rng.usize(8, 300)) as u32;
            let mut env = mk_env(&mut rng, pages, hdr_ok, 0);
            env.scribble = i % 6 == 0;
            let mut targets = vec![];
            match i % 5 {
                // straight burst past three trunks, then allocate until empty
                0 => {
                    targets.push(3 * per + rng.usize(0, 5));
                    targets.push(0);
                }
                // release everything, allocate everything, twice
                1 => {
                    targets.push(pages as usize - 1);
                    targets.push(0);
                    targets.push(2 * per + 1);
                    targets.push(0);
                }
                _ => targets = boundary_levels(&mut rng, max_trunks),
            }
            let mut h = Hist::new(env, SparseStore::new(pages));
            let probe_every = *rng.pick(&[20u64, 300, 2000]);
            gen_phased(&mut h, &mut rng, if quick { 60_000 } else { 120_000 }, probe_every, &targets);
            r.finish_history(h, "multi_trunk_real_releases");
        }
    }

    let t3 = r.ctx.elapsed();
    if miri {
        eprintln!("C34 miri: random done at {:.0}s", t3);
    }
    // 4. multi-trunk histories reached with Fill (short op lists; the only multi-trunk route under Miri)
    if fill_ok {
        let n_fill = if miri { 2 } else if quick { 300 } else { 3500 };
        for _ in 0..n_fill {
            if r.ctx.elapsed() > caps[3] {
                truncated.push("multi_trunk_fill");
                break;
            }
            let trunks = if miri { 2 } else { rng.usize(2, 4) };
            let pages = (trunks * per + rng.usize(8, 64)) as u32;
            let env = Env { pages, page0_table_id: if hdr_ok && rng.chance(1, 4) { 1 + rng.below(30) as u32 } else { 0 }, scribble: false, backing: 0 };
            let mut h = Hist::new(env, SparseStore::new(pages));
            // lay down `trunks` trunk pages: each real release of a trunk page + one real entry,
            // then Fill to d entries short of full, then real releases across the boundary
            let mut next = 1u32;
            let mut budget = if miri { 120usize } else { rng.usize(50, 1500) };
            for _t in 0..trunks {
                if h.dead {
                    break;
                }
                let short = rng.usize(0, 6) as u32;
                h.step(Op::Rel(next)); // becomes a trunk (head == 0 or head full)
                next += 1;
                h.step(Op::Rel(next));
                next += 1;
                let k = TRUNK_MAX_ENTRIES as u32 - 1 - short;
                h.step(Op::Fill(next, k));
                next += k;
                for _ in 0..short {
                    h.step(Op::Rel(next));
                    next += 1;
                }
                if !miri {
                    h.step(Op::Probe);
                }
            }
            // random tail around the boundaries
            while budget > 0 && !h.dead {
                budget -= 1;
                let x = rng.below(100);
                if x < 4 {
                    h.step(Op::Reopen);
                } else if x < 40 {
                    match pick_release(&h, &mut rng, Order::Random) {
                        Some(p) => h.step(Op::Rel(p)),
                        None => h.step(Op::Alloc),
                    }
                } else {
                    h.step(Op::Alloc);
                }
                if rng.below(if miri { 40 } else { 12 }) == 0 {
                    h.probe_if_affordable();
                }
            }
            h.step(Op::Probe);
            if miri {
                eprintln!("C34 miri: fill history generated at {:.0}s ({} ops, {} probes)", r.ctx.elapsed(), h.ops.len(), h.st.probes);
            }
            r.finish_history(h, "multi_trunk_fill");
        }
    } else {
        r.ctx.assumptions.push("Fill emulation differs from real releases on this tree; Fill histories skipped".into());
    }

    let t4 = r.ctx.elapsed();
    if miri {
        eprintln!("C34 miri sections: exhaustive {:.0}s random {:.0}s fill {:.0}s", t1, t2 - t1, t4 - t3);
    }
    r.ctx.extra.insert("section_wall_s".into(), json!({"exhaustive_small": t1, "random_small": t2 - t1, "multi_trunk_real": t3 - t2, "multi_trunk_fill": t4 - t3}));
    r.ctx.extra.insert("sections_truncated_by_time_cap".into(), json!(truncated));
    let (histories, multi, three, violating, agg) = (r.histories, r.multi_trunk, r.three_trunk, r.violating_histories, r.agg.clone());
    drop(r);
    ctx.count("histories", histories);
    ctx.count("histories_chain_ge2_trunks", multi);
    ctx.count("histories_chain_ge3_trunks", three);
    ctx.count("histories_with_violation", violating);
    ctx.count("releases", agg.releases);
    ctx.count("allocate_some", agg.allocs_some);
    ctx.count("allocate_none", agg.allocs_none);
    ctx.count("reopens", agg.reopens);
    ctx.count("probes", agg.probes);
    ctx.count("fill_ops", agg.fills);
    ctx.count("releases_emulated_by_fill", agg.fill_pages);
    ctx.count("trunk_chained_on_release", agg.chain_events);
    ctx.count("trunk_hops_on_allocate", agg.hops);
    ctx.extra.insert("max_trunks_in_chain".into(), json!(agg.max_chain));
    ctx.extra.insert("max_free_pages".into(), json!(agg.max_free));
    ctx.extra.insert("max_released_pages_neither_counted_nor_obtainable".into(), json!(agg.max_leaked));
    if three == 0 && !miri {
        ctx.inconclusive("no history chained >= 3 trunk pages");
    }
    ctx.assumptions.push("callers release only pages they own (never page 0, never a page that is already free); behaviour for other inputs is undocumented and not generated".into());
    ctx.assumptions.push("free_count is persisted together with head_page (Freelist::with_head needs both; there is no API that recounts the chain)".into());
    ctx.assumptions.push("released pages that are neither counted nor obtainable (lost after a drain) are reported as a number, not as a violation: the statement only relates free_count to what allocate can return".into());
    ctx.finish()
}

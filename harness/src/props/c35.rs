//! C35: the page cache never evicts pinned pages or mixes contents; a shard never holds more
//! entries than its capacity; budget accounting returns to zero when the cache is emptied.
//!
//! Real threads on `turdb::storage::PageCache` with schedule perturbation at the library's
//! yield points and between harness operations. Every page carries a self-identifying pattern
//! (key, generation = number of the init call that created it, stamp = unique id of the last
//! write) so that every read says which write it observed.
//!
//! This file also hosts `sched`, the schedule-perturbation / lane-runner helper that C37 shares.

use crate::report::{catch, panic_site, Ctx};
use crate::rng::Rng;
use crate::Args;
use parking_lot::Mutex;
use serde_json::{json, Value};
use std::collections::{BTreeMap, HashSet};
use std::sync::atomic::{AtomicU32, AtomicU64, Ordering::SeqCst};
use std::sync::Arc;
use std::time::{Duration, Instant};
use turdb::memory::{MemoryBudget, Pool};
use turdb::storage::{PageCache, PageKey, PageRef};

// ------------------------------------------------------------------------------------------------
// schedule perturbation, interleaving fingerprints, lane runner (shared with C37)
// ------------------------------------------------------------------------------------------------
pub mod sched {
    use crate::rng::{fnv, Rng};
    use parking_lot::Mutex;
    use std::cell::RefCell;
    use std::sync::atomic::{AtomicBool, AtomicU32, AtomicU64, Ordering::SeqCst};
    use std::sync::Arc;
    use std::time::{Duration, Instant};

    /// optional per-round observer called at every point: (thread index, thread tag, point name)
    pub type Extra = Arc<dyn Fn(usize, u64, &'static str) + Send + Sync>;

    /// profile without any random perturbation (directed schedules)
    pub const QUIET: u64 = 99;

    pub struct RoundShared {
        /// order-sensitive hash of the (thread index, point name) events in the order they happened
        pub fp: AtomicU64,
        pub events: AtomicU64,
        /// threads currently inside an instrumented call (maintained by the harness)
        pub in_window: AtomicU32,
        /// yield-point events at which >= 2 threads were inside the instrumented window
        pub overlap_events: AtomicU64,
        /// cumulative permille thresholds: nothing | yield_now | spin | sleep
        pub weights: [u32; 3],
        pub extra: Option<Extra>,
    }

    impl RoundShared {
        pub fn new(profile: u64, extra: Option<Extra>) -> Arc<RoundShared> {
            let weights = match profile % 4 {
                _ if profile == QUIET => [1000, 1000, 1000],
                0 => [400, 650, 850],
                1 => [850, 950, 990],
                2 => [100, 300, 500],
                _ => [300, 800, 950],
            };
            Arc::new(RoundShared {
                fp: AtomicU64::new(0xcbf29ce484222325),
                events: AtomicU64::new(0),
                in_window: AtomicU32::new(0),
                overlap_events: AtomicU64::new(0),
                weights,
                extra,
            })
        }
    }

    struct Tl {
        sh: Arc<RoundShared>,
        tidx: usize,
        rng: Rng,
        tag: u64,
        counts: Vec<(&'static str, u64)>,
    }

    thread_local! {
        static TL: RefCell<Option<Tl>> = RefCell::new(None);
    }

    /// register the process-wide yield hook (idempotent). Threads that did not call `enter` pass through.
    pub fn install() {
        use std::sync::Once;
        static ONCE: Once = Once::new();
        ONCE.call_once(|| {
            turdb::verif::set_yield_hook(Some(Arc::new(|name: &'static str| point(name))));
        });
    }

    /// bind the calling thread to a round; its PRNG is seeded from (seed, thread index, round)
    pub fn enter(sh: &Arc<RoundShared>, tidx: usize, seed: u64, round: u64) {
        let rng = Rng::derive(seed ^ round.wrapping_mul(0xA24BAED4963EE407), 0x5C4ED ^ ((tidx as u64 + 1) << 20));
        TL.with(|c| {
            *c.borrow_mut() = Some(Tl { sh: Arc::clone(sh), tidx, rng, tag: 0, counts: Vec::new() });
        });
    }

    /// unbind; returns the per-point event counts of this thread
    pub fn leave() -> Vec<(&'static str, u64)> {
        TL.with(|c| c.borrow_mut().take().map(|t| t.counts).unwrap_or_default())
    }

    pub fn set_tag(tag: u64) {
        TL.with(|c| {
            if let Some(t) = c.borrow_mut().as_mut() {
                t.tag = tag;
            }
        });
    }

    pub fn window_enter(sh: &RoundShared) {
        sh.in_window.fetch_add(1, SeqCst);
    }
    pub fn window_exit(sh: &RoundShared) {
        sh.in_window.fetch_sub(1, SeqCst);
    }

    /// a named point between two critical sections (called by the library hook and by the harness)
    pub fn point(name: &'static str) {
        let got = TL.with(|c| {
            let mut b = c.borrow_mut();
            let tl = b.as_mut()?;
            match tl.counts.iter_mut().find(|(n, _)| *n == name) {
                Some(e) => e.1 += 1,
                None => tl.counts.push((name, 1)),
            }
            let r = tl.rng.below(1000) as u32;
            let amt = tl.rng.next();
            Some((Arc::clone(&tl.sh), tl.tidx, tl.tag, r, amt))
        });
        let Some((sh, tidx, tag, r, amt)) = got else { return };
        let h = fnv(name.as_bytes()) ^ (tidx as u64 + 1).wrapping_mul(0x9E3779B97F4A7C15);
        let _ = sh.fp.fetch_update(SeqCst, SeqCst, |f| Some((f ^ h).wrapping_mul(0x100000001b3)));
        sh.events.fetch_add(1, SeqCst);
        if sh.in_window.load(SeqCst) >= 2 {
            sh.overlap_events.fetch_add(1, SeqCst);
        }
        if let Some(x) = &sh.extra {
            x(tidx, tag, name);
        }
        act(&sh.weights, r, amt);
    }

    fn act(w: &[u32; 3], r: u32, amt: u64) {
        if r < w[0] {
            return;
        }
        if cfg!(miri) || r < w[1] {
            std::thread::yield_now();
        } else if r < w[2] {
            let d = Duration::from_micros(1 + amt % 50);
            let t = Instant::now();
            while t.elapsed() < d {
                std::hint::spin_loop();
            }
        } else {
            std::thread::sleep(Duration::from_micros(1 + amt % 200));
        }
    }

    // -- environment stall detector: a heartbeat thread notices when the machine starves us -------
    static STALLS: AtomicU64 = AtomicU64::new(0);
    static HB_STOP: AtomicBool = AtomicBool::new(false);

    /// number of heartbeat oversleeps (> 150 ms on a 5 ms sleep) seen so far in this process
    pub fn stalls() -> u64 {
        STALLS.load(SeqCst)
    }

    pub fn start_heartbeat() -> Option<std::thread::JoinHandle<()>> {
        if cfg!(miri) {
            return None;
        }
        HB_STOP.store(false, SeqCst);
        Some(std::thread::spawn(|| {
            while !HB_STOP.load(SeqCst) {
                let t = Instant::now();
                std::thread::sleep(Duration::from_millis(5));
                if t.elapsed() > Duration::from_millis(150) {
                    STALLS.fetch_add(1, SeqCst);
                }
            }
        }))
    }

    pub fn stop_heartbeat(h: Option<std::thread::JoinHandle<()>>) {
        HB_STOP.store(true, SeqCst);
        if let Some(h) = h {
            let _ = h.join();
        }
    }

    /// Run `rounds` rounds on `lanes` lane threads (each lane runs whole rounds, one after the other),
    /// merging every result into the aggregate. Stops early at `deadline`.
    /// Returns (aggregate, rounds run, deadline hit, hung round).
    /// Watchdog: a round that does not finish within `hang_limit` (orders of magnitude above a normal
    /// round) means a call into the library never returned. The lanes are detached threads, so the
    /// caller gets back what was observed so far plus the index of the stuck round and must report the
    /// run as inconclusive (the stuck threads die with the process): a hang can never look like a pass.
    pub fn run_lanes<R: Send + 'static, A: Send + Default + 'static>(
        lanes: usize,
        rounds: u64,
        deadline: Instant,
        hang_limit: Duration,
        f: impl Fn(u64) -> R + Send + Sync + 'static,
        merge: impl Fn(&mut A, u64, R) + Send + Sync + 'static,
    ) -> (A, u64, bool, Option<u64>) {
        struct St<A> {
            next: AtomicU64,
            done: AtomicU64,
            hit: AtomicBool,
            live: AtomicU32,
            // per lane: (ms since t0 at which the current round started) + 1, 0 = idle; and the round index
            started: Vec<(AtomicU64, AtomicU64)>,
            agg: Mutex<A>,
        }
        let lanes = lanes.max(1);
        let t0 = Instant::now();
        let st = Arc::new(St {
            next: AtomicU64::new(0),
            done: AtomicU64::new(0),
            hit: AtomicBool::new(false),
            live: AtomicU32::new(lanes as u32),
            started: (0..lanes).map(|_| (AtomicU64::new(0), AtomicU64::new(0))).collect(),
            agg: Mutex::new(A::default()),
        });
        let f = Arc::new(f);
        let merge = Arc::new(merge);
        for lane in 0..lanes {
            let (st, f, merge) = (Arc::clone(&st), Arc::clone(&f), Arc::clone(&merge));
            std::thread::spawn(move || {
                loop {
                    let i = st.next.fetch_add(1, SeqCst);
                    if i >= rounds {
                        break;
                    }
                    if Instant::now() >= deadline {
                        st.hit.store(true, SeqCst);
                        break;
                    }
                    st.started[lane].1.store(i, SeqCst);
                    st.started[lane].0.store(t0.elapsed().as_millis() as u64 + 1, SeqCst);
                    let r = f(i);
                    st.started[lane].0.store(0, SeqCst);
                    merge(&mut st.agg.lock(), i, r);
                    st.done.fetch_add(1, SeqCst);
                }
                st.live.fetch_sub(1, SeqCst);
            });
        }
        let mut hung = None;
        'wait: while st.live.load(SeqCst) > 0 {
            if cfg!(miri) {
                std::thread::yield_now();
                continue;
            }
            std::thread::sleep(Duration::from_millis(50));
            let now = t0.elapsed().as_millis() as u64 + 1;
            for (b, idx) in st.started.iter() {
                let b = b.load(SeqCst);
                if b != 0 && now.saturating_sub(b) > hang_limit.as_millis() as u64 {
                    hung = Some(idx.load(SeqCst));
                    break 'wait;
                }
            }
        }
        let agg = std::mem::take(&mut *st.agg.lock());
        (agg, st.done.load(SeqCst), st.hit.load(SeqCst), hung)
    }
}

// ------------------------------------------------------------------------------------------------
// page pattern
// ------------------------------------------------------------------------------------------------
const PAGE: usize = 16384;
const MAGIC: u64 = 0x5455_5244_4243_3335;

fn stride() -> usize {
    if cfg!(miri) {
        4096
    } else {
        512
    }
}

fn mix(key: u64, gen: u64, stamp: u64, off: u64) -> u64 {
    let mut z = key.wrapping_mul(0x9E3779B97F4A7C15) ^ gen.wrapping_mul(0xC2B2AE3D27D4EB4F) ^ stamp.wrapping_mul(0x165667B19E3779F9) ^ off.wrapping_mul(0xD6E8FEB86659FD93);
    z = (z ^ (z >> 30)).wrapping_mul(0xBF58476D1CE4E5B9);
    z = (z ^ (z >> 27)).wrapping_mul(0x94D049BB133111EB);
    z ^ (z >> 31)
}

fn put(buf: &mut [u8], off: usize, v: u64) {
    buf[off..off + 8].copy_from_slice(&v.to_le_bytes());
}
fn get(buf: &[u8], off: usize) -> u64 {
    u64::from_le_bytes(buf[off..off + 8].try_into().unwrap())
}

/// header (magic, key, generation, stamp) + a word derived from all three every `stride` bytes and at the end
fn write_page(buf: &mut [u8], key: u64, gen: u64, stamp: u64) {
    put(buf, 0, MAGIC);
    put(buf, 8, key);
    put(buf, 16, gen);
    put(buf, 24, stamp);
    let st = stride();
    let mut off = st;
    while off + 8 <= PAGE {
        put(buf, off, mix(key, gen, stamp, off as u64));
        off += st;
    }
    put(buf, PAGE - 8, mix(key, gen, stamp, (PAGE - 8) as u64));
}

#[derive(Clone, Copy, Debug)]
struct Decoded {
    magic_ok: bool,
    key: u64,
    gen: u64,
    stamp: u64,
    /// first offset whose word disagrees with the header (None = page is one consistent write)
    bad_off: Option<usize>,
}

fn read_page(buf: &[u8]) -> Decoded {
    let (key, gen, stamp) = (get(buf, 8), get(buf, 16), get(buf, 24));
    let mut bad = None;
    let st = stride();
    let mut off = st;
    while off + 8 <= PAGE {
        if get(buf, off) != mix(key, gen, stamp, off as u64) {
            bad = Some(off);
            break;
        }
        off += st;
    }
    if bad.is_none() && get(buf, PAGE - 8) != mix(key, gen, stamp, (PAGE - 8) as u64) {
        bad = Some(PAGE - 8);
    }
    Decoded { magic_ok: buf.len() == PAGE && get(buf, 0) == MAGIC, key, gen, stamp, bad_off: bad }
}

fn key_u64(k: &PageKey) -> u64 {
    ((k.file_id as u64) << 32) | k.page_no as u64
}

// ------------------------------------------------------------------------------------------------
// round state
// ------------------------------------------------------------------------------------------------
#[derive(Default, Clone, Copy)]
struct Model {
    gen: u64,
    stamp: u64,
}

struct KeyState {
    key: PageKey,
    /// harness-side exclusivity for data access + the last (generation, stamp) the harness saw/wrote
    model: Mutex<Model>,
    /// number of times the init closure ran for this key (each run = the key was not resident)
    init_calls: AtomicU64,
    /// threads currently inside get_or_insert for this key
    goi_inflight: AtomicU32,
}

#[derive(Clone, Debug)]
pub struct Viol {
    pub assertion: &'static str,
    pub sig: String,
    pub detail: Value,
}

#[derive(Clone, Debug)]
struct Params {
    round: u64,
    threads: usize,
    capacity: usize,
    nkeys: usize,
    shards_used: usize,
    hot: usize,
    ops: usize,
    max_held: usize,
    budget_mode: u8, // 0 none, 1 budget (roomy), 2 budget binds at 33 pages (eviction-for-budget path), 3 total limit squeezed (allocate errors)
    budget_target_pages: usize,
    cache_ballast_pages: usize,
    init_fail_permille: u32,
    evict_all_permille: u32,
    empty_with_clear: bool,
    profile: u64,
}

struct Round<'a> {
    p: &'a Params,
    cache: &'a PageCache,
    keys: &'a [KeyState],
    sh: &'a Arc<sched::RoundShared>,
    stamp_ctr: &'a AtomicU64,
}

#[derive(Default)]
struct WorkerOut {
    c: BTreeMap<&'static str, u64>,
    viols: Vec<Viol>,
    trace: Vec<String>,
    points: Vec<(&'static str, u64)>,
    max_len: usize,
}

impl WorkerOut {
    fn bump(&mut self, k: &'static str) {
        *self.c.entry(k).or_insert(0) += 1;
    }
    fn add(&mut self, k: &'static str, n: u64) {
        *self.c.entry(k).or_insert(0) += n;
    }
    fn viol(&mut self, assertion: &'static str, sig: String, detail: Value) {
        self.bump("sub_assertion_failures");
        if self.viols.len() < 4 {
            self.viols.push(Viol { assertion, sig, detail });
        }
    }
}

struct Held<'a> {
    r: PageRef<'a>,
    k: usize,
    /// init_calls of the key right after the pin was obtained: must not move while the pin lives
    calls0: u64,
}

/// Observe (and optionally overwrite) the page behind a pinned reference, under the key's harness lock.
fn observe(rd: &Round, h: &mut Held, write: bool, tidx: usize, out: &mut WorkerOut, whence: &'static str) {
    let ks = &rd.keys[h.k];
    let want_key = key_u64(&ks.key);
    let mut m = ks.model.lock();
    // pinned_not_evicted, part 1: nobody may have re-created the page while we hold a pin on it
    let calls_now = ks.init_calls.load(SeqCst);
    if calls_now != h.calls0 {
        out.viol(
            "pinned_not_evicted",
            "C35/pinned_not_evicted/init_ran_for_key_while_pin_held".into(),
            json!({"key": [ks.key.file_id, ks.key.page_no], "init_calls_at_pin": h.calls0, "init_calls_now": calls_now, "at": whence, "thread": tidx, "round": rd.p.round}),
        );
        h.calls0 = calls_now;
    }
    sched::window_enter(rd.sh);
    let dec = catch(|| read_page(h.r.data()));
    sched::window_exit(rd.sh);
    out.bump("reads_validated");
    let dec = match dec {
        Ok(d) => d,
        Err(p) => {
            // pinned_not_evicted, part 2: data() must not panic while the PageRef lives
            out.viol(
                "pinned_not_evicted",
                format!("C35/pinned_not_evicted/data_panicked@{}", panic_site(&p)),
                json!({"key": [ks.key.file_id, ks.key.page_no], "panic": p, "at": whence, "thread": tidx, "round": rd.p.round}),
            );
            return;
        }
    };
    let detail = |what: &str| json!({"what": what, "key": [ks.key.file_id, ks.key.page_no], "expected_key_word": want_key, "observed": {"magic_ok": dec.magic_ok, "key_word": dec.key, "generation": dec.gen, "stamp": dec.stamp, "first_inconsistent_offset": dec.bad_off}, "model": {"generation": m.gen, "stamp": m.stamp}, "at": whence, "thread": tidx, "round": rd.p.round});
    let mut gen_for_write = m.gen.max(1);
    if !dec.magic_ok || dec.key != want_key {
        out.viol("content_is_last_write", "C35/content_is_last_write/page_holds_bytes_of_another_key".into(), detail("header does not name this key"));
    } else if dec.bad_off.is_some() {
        out.viol("content_is_last_write", "C35/content_is_last_write/page_is_a_mix_of_two_writes".into(), detail("filler words disagree with header"));
    } else if dec.gen < m.gen {
        out.viol("content_is_last_write", "C35/content_is_last_write/older_generation_resurfaced".into(), detail("generation went backwards"));
    } else if dec.gen == m.gen {
        gen_for_write = dec.gen;
        if dec.stamp != m.stamp {
            out.viol("content_is_last_write", "C35/content_is_last_write/stamp_is_not_last_write_of_resident_page".into(), detail("same generation, different stamp"));
        }
    } else {
        // a newer generation: the key was evicted (legitimate only while unpinned: checked by the pin
        // holders) and re-created by init; the first observation of a generation must be pristine
        gen_for_write = dec.gen;
        if m.gen != 0 {
            out.bump("evict_reinit_observed");
        }
        if dec.stamp != 0 {
            out.viol("content_is_last_write", "C35/content_is_last_write/fresh_generation_not_pristine".into(), detail("new generation first seen with a write stamp"));
        }
        m.gen = dec.gen;
        m.stamp = 0;
    }
    if write {
        let stamp = rd.stamp_ctr.fetch_add(1, SeqCst) + 1;
        sched::window_enter(rd.sh);
        let w = catch(|| {
            let buf = h.r.data_mut();
            write_page(buf, want_key, gen_for_write, stamp);
        });
        sched::window_exit(rd.sh);
        match w {
            Ok(()) => {
                m.gen = gen_for_write;
                m.stamp = stamp;
                out.bump("writes");
            }
            Err(p) => out.viol(
                "pinned_not_evicted",
                format!("C35/pinned_not_evicted/data_mut_panicked@{}", panic_site(&p)),
                json!({"key": [ks.key.file_id, ks.key.page_no], "panic": p, "at": whence, "thread": tidx, "round": rd.p.round}),
            ),
        }
    }
}

/// TV_C35_SKIP_DATA_MUT=1 turns writes into reads. Only meant for the Miri stage: every call of
/// PageRef::data_mut is reported by Miri as aliasing UB (cache.rs data_mut_unchecked), which stops the
/// interpreter before it can look at anything else.
fn skip_data_mut() -> bool {
    use std::sync::OnceLock;
    static S: OnceLock<bool> = OnceLock::new();
    *S.get_or_init(|| std::env::var("TV_C35_SKIP_DATA_MUT").map(|v| v == "1").unwrap_or(false))
}

fn classify_err(msg: &str) -> &'static str {
    if msg.contains("injected init failure") {
        "goi_err_init_injected"
    } else if msg.contains("all pages pinned") {
        "goi_err_shard_full_all_pinned"
    } else if msg.contains("memory budget exhausted") {
        "goi_err_budget_no_evictable"
    } else if msg.contains("memory budget exceeded") {
        "goi_err_budget_allocate"
    } else {
        "goi_err_other"
    }
}

fn worker<'a>(rd: &Round<'a>, tidx: usize, seed: u64, barrier: &std::sync::Barrier) -> WorkerOut {
    let p = rd.p;
    let mut out = WorkerOut::default();
    let mut rng = Rng::derive(seed ^ p.round.wrapping_mul(0x2545F4914F6CDD1D), 35_000 + tidx as u64);
    sched::enter(rd.sh, tidx, seed, p.round);
    barrier.wait();
    let mut held: Vec<Held<'a>> = Vec::new();
    let cache: &'a PageCache = rd.cache;
    for opi in 0..p.ops {
        sched::point("h.between_ops");
        out.bump("ops");
        let roll = rng.below(100);
        let want_acquire = held.is_empty() || (held.len() < p.max_held && roll < 42);
        if want_acquire {
            let k = if rng.chance(1, 2) { rng.below(p.hot as u64) as usize } else { rng.below(p.nkeys as u64) as usize };
            let ks = &rd.keys[k];
            let key = ks.key;
            sched::set_tag(k as u64 + 1);
            if rng.chance(3, 10) {
                sched::window_enter(rd.sh);
                let r = catch(|| cache.get(&key));
                sched::window_exit(rd.sh);
                match r {
                    Ok(Some(r)) => {
                        out.bump("get_hit");
                        let calls0 = ks.init_calls.load(SeqCst);
                        held.push(Held { r, k, calls0 });
                        if out.trace.len() < 40 {
                            out.trace.push(format!("get({},{}) hit", key.file_id, key.page_no));
                        }
                        sched::point("h.pinned");
                        let n = held.len() - 1;
                        observe(rd, &mut held[n], false, tidx, &mut out, "first read after get");
                    }
                    Ok(None) => out.bump("get_miss"),
                    Err(pn) => out.viol("no_panic", format!("C35/no_panic/get_panicked@{}", panic_site(&pn)), json!({"panic": pn, "round": p.round})),
                }
            } else {
                let fail = p.init_fail_permille > 0 && rng.below(1000) < p.init_fail_permille as u64;
                let mut init_ran = false;
                let want = key_u64(&key);
                ks.goi_inflight.fetch_add(1, SeqCst);
                sched::window_enter(rd.sh);
                let r = catch(|| {
                    cache.get_or_insert(key, |buf| {
                        init_ran = true;
                        let gen = ks.init_calls.fetch_add(1, SeqCst) + 1;
                        if fail {
                            eyre::bail!("injected init failure");
                        }
                        write_page(buf, want, gen, 0);
                        Ok(())
                    })
                });
                sched::window_exit(rd.sh);
                ks.goi_inflight.fetch_sub(1, SeqCst);
                if init_ran {
                    out.bump("init_calls");
                }
                match r {
                    Ok(Ok(r)) => {
                        out.bump(if init_ran { "goi_inserted" } else { "goi_found" });
                        let calls0 = ks.init_calls.load(SeqCst);
                        held.push(Held { r, k, calls0 });
                        if out.trace.len() < 40 {
                            out.trace.push(format!("get_or_insert({},{}) {}", key.file_id, key.page_no, if init_ran { "inserted" } else { "found" }));
                        }
                        sched::point("h.pinned");
                        let n = held.len() - 1;
                        observe(rd, &mut held[n], false, tidx, &mut out, "first read after get_or_insert");
                    }
                    Ok(Err(e)) => {
                        let msg = format!("{:#}", e);
                        let c = classify_err(&msg);
                        out.bump(c);
                        if c == "goi_err_init_injected" {
                            out.bump("init_failures");
                        }
                        if out.trace.len() < 40 {
                            out.trace.push(format!("get_or_insert({},{}) -> Err {}", key.file_id, key.page_no, c));
                        }
                    }
                    Err(pn) => out.viol("no_panic", format!("C35/no_panic/get_or_insert_panicked@{}", panic_site(&pn)), json!({"panic": pn, "round": p.round})),
                }
            }
            sched::set_tag(0);
        } else if roll < 62 {
            let i = rng.below(held.len() as u64) as usize;
            observe(rd, &mut held[i], false, tidx, &mut out, "read through held pin");
        } else if roll < 84 {
            let i = rng.below(held.len() as u64) as usize;
            observe(rd, &mut held[i], !skip_data_mut(), tidx, &mut out, "write through held pin");
            if out.trace.len() < 40 {
                let k = rd.keys[held[i].k].key;
                out.trace.push(format!("write({},{})", k.file_id, k.page_no));
            }
        } else {
            let i = rng.below(held.len() as u64) as usize;
            let mut h = held.swap_remove(i);
            // last look right before unpinning
            observe(rd, &mut h, false, tidx, &mut out, "read before unpin");
            sched::window_enter(rd.sh);
            let d = catch(move || drop(h));
            sched::window_exit(rd.sh);
            out.bump("unpins");
            if let Err(pn) = d {
                out.viol("no_panic", format!("C35/no_panic/unpin_panicked@{}", panic_site(&pn)), json!({"panic": pn, "round": p.round}));
            }
        }
        if p.evict_all_permille > 0 && rng.below(1000) < p.evict_all_permille as u64 {
            sched::window_enter(rd.sh);
            let r = catch(|| cache.evict_all_unpinned());
            sched::window_exit(rd.sh);
            match r {
                Ok(n) => {
                    out.bump("evict_all_unpinned_calls");
                    out.add("evicted_by_evict_all_unpinned", n as u64);
                }
                Err(pn) => out.viol("no_panic", format!("C35/no_panic/evict_all_unpinned_panicked@{}", panic_site(&pn)), json!({"panic": pn, "round": p.round})),
            }
        }
        if opi % 16 == 7 {
            check_occupancy(rd.cache, &mut out, p.round, "during run");
        }
    }
    while let Some(mut h) = held.pop() {
        observe(rd, &mut h, false, tidx, &mut out, "read before final unpin");
        if let Err(pn) = catch(move || drop(h)) {
            out.viol("no_panic", format!("C35/no_panic/unpin_panicked@{}", panic_site(&pn)), json!({"panic": pn, "round": p.round}));
        }
        out.bump("unpins");
    }
    out.points = sched::leave();
    out
}

fn check_occupancy(cache: &PageCache, out: &mut WorkerOut, round: u64, when: &str) {
    out.bump("occupancy_checks");
    let occ = cache.verif_shard_occupancy();
    out.max_len = out.max_len.max(occ.iter().map(|x| x.0).sum());
    for (i, (n, cap)) in occ.into_iter().enumerate() {
        if n > cap {
            out.viol("shard_len_le_capacity", "C35/shard_len_le_capacity/shard_holds_more_than_capacity".into(), json!({"shard": i, "entries": n, "capacity": cap, "when": when, "round": round}));
            break;
        }
    }
}

struct RoundOut {
    fp: u64,
    events: u64,
    overlapped: bool,
    c: BTreeMap<&'static str, u64>,
    viols: Vec<Viol>,
    sample: Option<Value>,
    points: Vec<(&'static str, u64)>,
    strat: String,
}

fn gen_params(seed: u64, round: u64, quick: bool) -> (Params, Rng) {
    let miri = cfg!(miri);
    let mut rng = Rng::derive(seed ^ round.wrapping_mul(0x9FB21C651E98DF25), 35);
    let threads = if miri { rng.usize(2, 3) } else { *rng.pick(&[2usize, 2, 3, 3, 4, 4, 6, 8]) };
    let capacity = if miri { *rng.pick(&[64usize, 96]) } else { *rng.pick(&[64usize, 64, 96, 128, 128, 192]) };
    let shards_used = if miri { rng.usize(1, 2) } else { *rng.pick(&[1usize, 2, 4, 4, 16, 64, 64]) };
    let nkeys = if miri { rng.usize(5, 10) } else { rng.usize(200, 400).max(shards_used * 3) };
    let hot = if miri { 3 } else { *rng.pick(&[2usize, 4, 8, 16, 64]) }.min(nkeys);
    let ops = if miri { rng.usize(12, 24) } else if quick { rng.usize(60, 300) } else { rng.usize(100, 1000) };
    let max_held = rng.usize(1, 4);
    let budget_mode = *rng.pick(&[0u8, 0, 0, 1, 1, 2, 2, 3]);
    // the budget can only bind before the shard capacities do if enough shards are in play
    let (capacity, shards_used) = if budget_mode == 2 && !miri { (*rng.pick(&[128usize, 192]), *rng.pick(&[16usize, 64, 64])) } else { (capacity, shards_used) };
    let nkeys = nkeys.max(shards_used * 3);
    let budget_target_pages = rng.usize(6, 28);
    let cache_ballast_pages = rng.usize(0, 2);
    // init failures only in their own stratum so that the other rounds stay free of that cause
    let init_fail_permille = if rng.chance(3, 20) { *rng.pick(&[40u32, 125, 300]) } else { 0 };
    let evict_all_permille = if rng.chance(1, 4) { *rng.pick(&[5u32, 20]) } else { 0 };
    let p = Params {
        round,
        threads,
        capacity,
        nkeys,
        shards_used,
        hot,
        ops,
        max_held,
        budget_mode,
        budget_target_pages,
        cache_ballast_pages,
        init_fail_permille,
        evict_all_permille,
        empty_with_clear: rng.chance(2, 3),
        profile: rng.below(4),
    };
    (p, rng)
}

fn run_round(seed: u64, round: u64, quick: bool) -> RoundOut {
    match catch(|| run_round_inner(seed, round, quick)) {
        Ok(r) => r,
        Err(pn) => {
            let mut out = WorkerOut::default();
            out.viol("no_panic", format!("C35/no_panic/round_panicked@{}", panic_site(&pn)), json!({"panic": pn, "round": round}));
            RoundOut { fp: 0, events: 0, overlapped: false, c: out.c, viols: out.viols, sample: None, points: vec![], strat: "panicked".into() }
        }
    }
}

fn run_round_inner(seed: u64, round: u64, quick: bool) -> RoundOut {
    let (p, mut rng) = gen_params(seed, round, quick);
    let strat = format!("t{}c{}s{}b{}f{}e{}", p.threads, p.capacity, p.shards_used, p.budget_mode, (p.init_fail_permille > 0) as u8, (p.evict_all_permille > 0) as u8);
    let mut out = WorkerOut::default();
    // keys: `shards_used` shards, distinct (file_id, page_no)
    let first_shard = rng.below(64) as usize;
    let keys: Arc<Vec<KeyState>> = Arc::new(
        (0..p.nkeys)
        .map(|i| {
            let shard = (first_shard + (i % p.shards_used) * if p.shards_used <= 4 { 1 } else { 64 / p.shards_used.min(64) }) % 64;
            let file_id = rng.below(4) as u32;
            let r = ((shard as i64 - file_id as i64 * 31).rem_euclid(64)) as u32;
            let key = PageKey::new(file_id, (i as u32) * 64 + r);
            KeyState { key, model: Mutex::new(Model::default()), init_calls: AtomicU64::new(0), goi_inflight: AtomicU32::new(0) }
        })
        .collect(),
    );
    // cache, optionally with a budget; the harness itself owns `cache_ballast_pages` of Pool::Cache so that
    // releasing too much is as visible as releasing too little
    let budget = if p.budget_mode > 0 { Some(Arc::new(MemoryBudget::with_limit(4 << 20))) } else { None };
    let mut shared_ballast = 0usize;
    if let Some(b) = &budget {
        let _ = b.allocate(Pool::Cache, p.cache_ballast_pages * PAGE);
        if p.budget_mode >= 2 {
            // mode 2: the cache pool (reserved 32 pages + what is left of the shared pool) is full at exactly
            // 33 pages, the one size at which can_allocate() and allocate() agree, so get_or_insert has to
            // evict to make room; mode 3: the total limit is reached earlier and allocate() reports errors
            let limit = b.total_limit();
            let want_free = if p.budget_mode == 2 { 33 * PAGE } else { (p.budget_target_pages + p.cache_ballast_pages) * PAGE };
            shared_ballast = limit.saturating_sub(want_free);
            if b.allocate(Pool::Shared, shared_ballast).is_err() {
                shared_ballast = 0;
            }
        }
    }
    let cache = match catch(|| PageCache::with_budget(p.capacity, budget.clone())) {
        Ok(Ok(c)) => c,
        other => {
            out.viol("no_panic", "C35/no_panic/cache_construction_failed".into(), json!({"capacity": p.capacity, "result": format!("{:?}", other.map(|r| r.map(|_| ()).map_err(|e| e.to_string())))}));
            return RoundOut { fp: 0, events: 0, overlapped: false, c: out.c, viols: out.viols, sample: None, points: vec![], strat };
        }
    };
    let same_key_race = Arc::new(AtomicU64::new(0));
    let extra: sched::Extra = {
        // at the point between the read-locked miss and the write lock: is another thread inside
        // get_or_insert for the very same key right now? (the double-check path is then exercised)
        let keys = Arc::clone(&keys);
        let race = Arc::clone(&same_key_race);
        Arc::new(move |_tidx, tag, name| {
            if name == "cache.upgrade" && tag > 0 && keys[tag as usize - 1].goi_inflight.load(SeqCst) >= 2 {
                race.fetch_add(1, SeqCst);
            }
        })
    };
    let sh = sched::RoundShared::new(p.profile, Some(extra));
    let stamp_ctr = AtomicU64::new(0);
    let rd = Round { p: &p, cache: &cache, keys: &keys[..], sh: &sh, stamp_ctr: &stamp_ctr };
    let barrier = std::sync::Barrier::new(p.threads);
    let outs: Vec<WorkerOut> = std::thread::scope(|s| {
        let hs: Vec<_> = (0..p.threads)
            .map(|t| {
                let rd = &rd;
                let barrier = &barrier;
                s.spawn(move || match catch(|| worker(rd, t, seed, barrier)) {
                    Ok(o) => o,
                    Err(pn) => {
                        let _ = sched::leave();
                        let mut o = WorkerOut::default();
                        o.viol("no_panic", format!("C35/no_panic/worker_thread_panicked@{}", panic_site(&pn)), json!({"panic": pn, "round": round}));
                        o
                    }
                })
            })
            .collect();
        hs.into_iter()
            .map(|h| match h.join() {
                Ok(o) => o,
                Err(_) => {
                    let mut o = WorkerOut::default();
                    o.viol("no_panic", "C35/no_panic/harness_worker_panicked".into(), json!({"round": round}));
                    o
                }
            })
            .collect()
    });
    let mut points: Vec<(&'static str, u64)> = vec![];
    let mut trace0 = vec![];
    for (i, o) in outs.into_iter().enumerate() {
        for (k, v) in o.c {
            out.add(k, v);
        }
        out.viols.extend(o.viols);
        out.max_len = out.max_len.max(o.max_len);
        for (n, c) in o.points {
            match points.iter_mut().find(|(m, _)| *m == n) {
                Some(e) => e.1 += c,
                None => points.push((n, c)),
            }
        }
        if i == 0 {
            trace0 = o.trace;
        }
    }
    // ---- quiescent checks -------------------------------------------------------------------------
    check_occupancy(&cache, &mut out, round, "after all threads finished");
    let mut resident = 0u64;
    for k in 0..keys.len() {
        let key = keys[k].key;
        match catch(|| cache.get(&key)) {
            Ok(Some(r)) => {
                resident += 1;
                let calls0 = keys[k].init_calls.load(SeqCst);
                let mut h = Held { r, k, calls0 };
                observe(&rd, &mut h, false, usize::MAX, &mut out, "final sweep of resident keys");
                if let Err(pn) = catch(move || drop(h)) {
                    out.viol("no_panic", format!("C35/no_panic/unpin_panicked@{}", panic_site(&pn)), json!({"panic": pn, "round": round}));
                }
            }
            Ok(None) => {}
            Err(pn) => out.viol("no_panic", format!("C35/no_panic/get_panicked@{}", panic_site(&pn)), json!({"panic": pn, "round": round})),
        }
    }
    out.add("resident_keys_at_end", resident);
    let total_cap: usize = cache.verif_shard_occupancy().iter().map(|x| x.1).sum();
    if cache.len() > total_cap {
        out.viol("shard_len_le_capacity", "C35/shard_len_le_capacity/total_len_exceeds_total_capacity".into(), json!({"len": cache.len(), "capacity": total_cap, "round": round}));
    }
    // ---- empty the cache; the budget must be back to what the harness itself holds ----------------
    let len_before = cache.len();
    let used_before = budget.as_ref().map(|b| b.stats().cache_used);
    let emptied = catch(|| {
        if p.empty_with_clear {
            cache.clear();
            len_before
        } else {
            cache.evict_all_unpinned()
        }
    });
    match emptied {
        Ok(n) => {
            if cache.len() != 0 || n != len_before {
                out.viol(
                    "budget_zero_after_clear",
                    format!("C35/budget_zero_after_clear/{}_left_entries_in_unpinned_cache", if p.empty_with_clear { "clear" } else { "evict_all_unpinned" }),
                    json!({"len_before": len_before, "removed": n, "len_after": cache.len(), "round": round}),
                );
            }
        }
        Err(pn) => out.viol("no_panic", format!("C35/no_panic/empty_panicked@{}", panic_site(&pn)), json!({"panic": pn, "round": round})),
    }
    if p.budget_mode == 2 && out.max_len + p.cache_ballast_pages >= 33 {
        out.bump("rounds_in_which_the_budget_bound_was_reached");
    }
    if let Some(b) = &budget {
        out.bump("budget_rounds");
        let ballast = p.cache_ballast_pages * PAGE;
        let used_after = b.stats().cache_used;
        let init_failures = *out.c.get("init_failures").unwrap_or(&0) as usize;
        if used_after != ballast {
            let sig = if used_after > ballast && (used_after - ballast) == init_failures * PAGE {
                "C35/budget_zero_after_clear/budget_of_page_not_released_when_init_fails"
            } else if used_after > ballast {
                "C35/budget_zero_after_clear/cache_pool_nonzero_after_cache_emptied"
            } else {
                "C35/budget_zero_after_clear/cache_pool_released_more_than_it_allocated"
            };
            out.viol(
                "budget_zero_after_clear",
                sig.into(),
                json!({"cache_used_after_empty_minus_harness_own": used_after as i64 - ballast as i64, "page_size": PAGE, "failed_init_calls": init_failures, "cache_used_before_empty": used_before, "entries_before_empty": len_before, "emptied_with": if p.empty_with_clear { "clear" } else { "evict_all_unpinned" }, "round": round, "params": format!("{:?}", p)}),
            );
        }
        b.release(Pool::Cache, ballast);
        b.release(Pool::Shared, shared_ballast);
    }
    let events = sh.events.load(SeqCst);
    let overlapped = sh.overlap_events.load(SeqCst) > 0;
    out.add("overlap_events", sh.overlap_events.load(SeqCst));
    out.add("same_key_upgrade_races", same_key_race.load(SeqCst));
    let sample = if round < 3 {
        Some(json!({"round": round, "params": format!("{:?}", p), "thread0_first_ops": trace0, "yield_point_events": events, "counters": out.c}))
    } else {
        None
    };
    RoundOut { fp: sh.fp.load(SeqCst), events, overlapped, c: out.c, viols: out.viols, sample, points, strat }
}

/// Directed, single-threaded: a budgeted cache, one get_or_insert whose init closure fails, then clear().
/// Returns the bytes still accounted to Pool::Cache (0 on a correct cache).
fn directed_init_failure(out: &mut WorkerOut) {
    let r = catch(|| {
        let budget = Arc::new(MemoryBudget::with_limit(4 << 20));
        let cache = PageCache::with_budget(64, Some(Arc::clone(&budget))).map_err(|e| e.to_string())?;
        let before = budget.stats().cache_used;
        let res = cache.get_or_insert(PageKey::new(1, 7), |_buf| eyre::bail!("injected init failure"));
        let is_err = res.is_err();
        drop(res);
        let after_failed_insert = budget.stats().cache_used;
        let len = cache.len();
        cache.clear();
        Ok::<_, String>((before, is_err, after_failed_insert, len, budget.stats().cache_used))
    });
    match r {
        Ok(Ok((before, is_err, after_insert, len, after_clear))) => {
            out.bump("directed_init_failure_cases");
            if after_clear != 0 {
                out.viol(
                    "budget_zero_after_clear",
                    "C35/budget_zero_after_clear/budget_of_page_not_released_when_init_fails".into(),
                    json!({"steps": ["PageCache::with_budget(64, MemoryBudget::with_limit(4 MiB))", "get_or_insert(PageKey(1,7), |_| Err(..))", "clear()"], "cache_used_before": before, "get_or_insert_returned_err": is_err, "cache_used_after_failed_insert": after_insert, "entries_after_failed_insert": len, "cache_used_after_clear": after_clear}),
                );
            }
        }
        other => out.viol("no_panic", "C35/no_panic/directed_init_failure_case_failed".into(), json!({"result": format!("{:?}", other)})),
    }
}

#[derive(Default)]
struct Agg {
    c: BTreeMap<&'static str, u64>,
    viols: Vec<Viol>,
    viol_sig_counts: BTreeMap<String, u64>,
    fps: HashSet<u64>,
    nontrivial: HashSet<u64>,
    strata: BTreeMap<String, u64>,
    samples: Vec<Value>,
    points: BTreeMap<&'static str, u64>,
    trivial_rounds: u64,
}

pub fn run(a: &Args) -> i32 {
    let miri = cfg!(miri);
    let mut ctx = Ctx::new(
        "C35",
        &a.tier,
        a.seed,
        "exploration",
        "a case = one round: a fresh PageCache (capacity 64..192 = 1..3 pages per shard; optionally with a MemoryBudget, roomy or squeezed to 6..28 pages) and 2..8 real threads doing get / get_or_insert(init writes key+generation pattern) / read / write(unique stamp, under the harness's own per-key lock) / unpin / evict_all_unpinned over 200..400 keys concentrated on 1..64 shards (hot subset of 2..64 keys), with random nothing|yield|spin|sleep at the library's yield points (cache.upgrade, budget.check_cas) and between harness operations. Stratified: failing init closures only in ~15% of rounds, evict_all_unpinned only in ~25%. distinct_nontrivial = distinct interleaving fingerprints (order-sensitive hash of (thread, yield point) events) of rounds in which >= 2 threads were inside cache calls at a yield-point event",
    );
    sched::install();
    let quick = ctx.quick();
    let cores = std::thread::available_parallelism().map(|n| n.get()).unwrap_or(4);
    let (lanes, rounds, budget_s) = if miri { (1usize, 3u64, 3600u64) } else if quick { ((cores / 4).clamp(1, 4), 6000u64, 36u64) } else { ((cores / 3).clamp(1, 6), 400_000u64, 420u64) };
    let deadline = Instant::now() + Duration::from_secs(budget_s);
    let seed = a.seed;
    let (agg, done, hit, hung): (Agg, u64, bool, Option<u64>) = sched::run_lanes(
        lanes,
        rounds,
        deadline,
        Duration::from_secs(90),
        move |i| run_round(seed, i, quick),
        |g: &mut Agg, _i, r: RoundOut| {
            for (k, v) in r.c {
                *g.c.entry(k).or_insert(0) += v;
            }
            for v in r.viols {
                *g.viol_sig_counts.entry(v.sig.clone()).or_insert(0) += 1;
                if g.viols.len() < 64 {
                    g.viols.push(v);
                }
            }
            g.fps.insert(r.fp);
            if r.overlapped && r.events > 0 {
                g.nontrivial.insert(r.fp);
            } else {
                g.trivial_rounds += 1;
            }
            *g.strata.entry(r.strat).or_insert(0) += 1;
            if let Some(s) = r.sample {
                g.samples.push(s);
            }
            for (n, c) in r.points {
                *g.points.entry(n).or_insert(0) += c;
            }
        },
    );
    ctx.evals(done);
    {
        let mut d = WorkerOut::default();
        directed_init_failure(&mut d);
        ctx.eval();
        for (k, v) in &d.c {
            ctx.count(k, *v);
        }
        // reported first so that the minimal witness is the one kept for this signature
        for v in &d.viols {
            ctx.violation(v.assertion, &v.sig, v.detail.clone());
        }
    }
    if let Some(r) = hung {
        ctx.inconclusive(&format!("watchdog: round {} did not finish within 90 s (a call into PageCache never returned: deadlock or endless loop); verdict covers the {} rounds completed before", r, done));
        ctx.extra.insert("hung_round".into(), json!({"round": r, "params": format!("{:?}", gen_params(seed, r, quick).0)}));
    }
    for h in &agg.nontrivial {
        ctx.nontrivial(*h);
    }
    for (k, v) in &agg.c {
        ctx.count(k, *v);
    }
    ctx.count("rounds", done);
    ctx.count("rounds_trivial_no_overlap", agg.trivial_rounds);
    for s in agg.samples.iter().take(3) {
        ctx.sample(s.clone());
    }
    // one report per signature first, then repeats while room remains
    let mut seen = HashSet::new();
    for v in agg.viols.iter().filter(|v| seen.insert(v.sig.clone())) {
        ctx.violation(v.assertion, &v.sig, v.detail.clone());
    }
    ctx.extra.insert("distinct_interleaving_fingerprints".into(), json!(agg.fps.len()));
    ctx.extra.insert("yield_point_events".into(), json!(agg.points));
    ctx.extra.insert("strata_rounds".into(), json!(agg.strata.len()));
    ctx.extra.insert("failed_sub_assertions_by_signature".into(), json!(agg.viol_sig_counts));
    ctx.extra.insert("lanes".into(), json!(lanes));
    ctx.extra.insert("wall_budget_hit".into(), json!(hit));
    ctx.extra.insert("page_cache_used_by_database".into(), json!(false));
    if skip_data_mut() {
        ctx.extra.insert("writes_skipped_TV_C35_SKIP_DATA_MUT".into(), json!(true));
    }
    ctx.assumptions.push("PageCache is not referenced by Database/any SQL path (only re-exported from storage/mod.rs and named in comments): the component is checked on its own API".into());
    ctx.assumptions.push("concurrent mutable access to one page is excluded by the harness (PageRef::data_mut documents that as the caller's duty); clear() is only called when no PageRef is alive (it removes pinned entries by design)".into());
    ctx.assumptions.push("the cache has no backing store here: after an eviction the key legitimately restarts from init; evictions are recognised by the generation number that every init call writes".into());
    ctx.assumptions.push("interleavings are sampled by perturbation, not enumerated".into());
    ctx.exhaustive = Some(false);
    ctx.finish()
}

//! C36: page write locks are mutually exclusive (PageLockManager under real threads).
//!
//! Real threads hammer 1-3 hot pages of one `PageLockManager` per round with page_read /
//! page_write / page_write_multi (optionally under a table intent lock, as the module's lock
//! hierarchy prescribes). The library announces the points between its critical sections
//! (`turdb::verif::yield_point`); the hook registered here perturbs the schedule there
//! (nothing / yield / spin / sleep from a per-thread PRNG) and logs (thread, point).
//!
//! Oracle (all harness-side, nothing read from the lock manager except the entry counts):
//!   * occupancy per page, updated INSIDE the critical section (right after the guard is
//!     returned, right before it is dropped): writers <= 1, writers * readers == 0, checked
//!     at entry and at exit;
//!   * bounded progress: a round (milliseconds of work) must finish within a generous
//!     watchdog; first expiry => the same round seed is re-run alone; only a second expiry is
//!     reported;
//!   * quiescence: after every guard was dropped `verif_entry_counts()` is (0, 0).
//! Table intent locks: the module documents IS/IX as blocking only the *table-exclusive* lock,
//! for which no acquisition API exists, so no mutual exclusion is asserted for them; they are
//! taken to exercise the table map and must be gone at quiescence and must never block.
//!
//! Besides the random rounds there are a few *directed* rounds: two threads and a hook that
//! parks thread A at "pl.cleanup.released" until thread B holds a lock obtained through a
//! freshly inserted map entry. They give the exact witness of the try_cleanup window.
use crate::report::{catch, Ctx};
use crate::rng::{fnv, Rng};
use crate::Args;
use parking_lot::{Mutex, RwLock};
use serde_json::{json, Value};
use std::cell::RefCell;
use std::collections::HashSet;
use std::sync::atomic::{AtomicBool, AtomicU32, AtomicU64, Ordering};
use std::sync::mpsc;
use std::sync::{Arc, Barrier};
use std::time::{Duration, Instant};
use turdb::database::page_locks::PageLockManager;

const MIRI: bool = cfg!(miri);

// ---- event log -------------------------------------------------------------------------
const EV_READ_GOT: u32 = 0; // hook "pl.read.got_entry"
const EV_WRITE_GOT: u32 = 1; // hook "pl.write.got_entry"
const EV_CLEANUP: u32 = 2; // hook "pl.cleanup.released"
const EV_CALL_R: u32 = 3;
const EV_CALL_W: u32 = 4;
const EV_CALL_M: u32 = 5;
const EV_ENTER_R: u32 = 6;
const EV_EXIT_R: u32 = 7;
const EV_ENTER_W: u32 = 8;
const EV_EXIT_W: u32 = 9;
const EV_DROP_DONE: u32 = 10;
const EV_OTHER_HOOK: u32 = 11;
const PAGE_MULTI: u32 = 0xFE;

fn ev_name(k: u32) -> &'static str {
    match k {
        EV_READ_GOT => "yield:pl.read.got_entry",
        EV_WRITE_GOT => "yield:pl.write.got_entry",
        EV_CLEANUP => "yield:pl.cleanup.released",
        EV_CALL_R => "call page_read",
        EV_CALL_W => "call page_write",
        EV_CALL_M => "call page_write_multi",
        EV_ENTER_R => "HOLDS read (monitor entry)",
        EV_EXIT_R => "about to drop read guard (monitor exit)",
        EV_ENTER_W => "HOLDS write (monitor entry)",
        EV_EXIT_W => "about to drop write guard (monitor exit)",
        EV_DROP_DONE => "guard drop returned",
        _ => "yield:other",
    }
}

fn ev(thread: usize, kind: u32, page: u32) -> u32 {
    ((thread as u32) << 16) | (kind << 8) | (page & 0xFF)
}

fn ev_fmt(e: u32) -> String {
    let p = e & 0xFF;
    let page = if p == PAGE_MULTI { "p*".to_string() } else { format!("p{}", p) };
    format!("T{} {} {}", e >> 16, ev_name((e >> 8) & 0xFF), page)
}

// ---- round configuration ---------------------------------------------------------------
#[derive(Clone, Debug)]
struct Cfg {
    nthreads: usize,
    pages: Vec<(u32, u32)>, // (table, page_no)
    ops: usize,
    p_write: u64, // percent
    p_multi: u64, // percent (only if >= 2 pages)
    p_table: u64, // percent of ops wrapped in a table intent lock
    // yield-hook profile: weights of nothing / yield / spin / sleep, and the forced-delay
    // percentage at "pl.cleanup.released"
    w: [u64; 4],
    cleanup_bias: u64,
    hold: u64, // 0 none, 1 light, 2 heavier holds inside the critical section
    directed: u8, // 0 = random round; 1..=3 directed variants
}

impl Cfg {
    fn structural_hash(&self) -> u64 {
        let s = format!(
            "{}|{:?}|{}|{}|{}|{}|{:?}|{}|{}|{}",
            self.nthreads, self.pages, self.ops, self.p_write, self.p_multi, self.p_table, self.w, self.cleanup_bias, self.hold, self.directed
        );
        fnv(s.as_bytes())
    }
    fn to_json(&self) -> Value {
        json!({"threads": self.nthreads, "pages": self.pages, "ops_per_thread": self.ops, "write_pct": self.p_write,
               "multi_pct": self.p_multi, "table_intent_pct": self.p_table, "hook_weights_nothing_yield_spin_sleep": self.w,
               "cleanup_delay_pct": self.cleanup_bias, "hold": self.hold, "directed": self.directed})
    }
}

fn gen_cfg(rng: &mut Rng, thorough: bool) -> Cfg {
    if MIRI {
        let npages = 1 + rng.below(2) as usize;
        return Cfg {
            nthreads: 2 + rng.below(2) as usize,
            pages: (0..npages).map(|i| (1, 7 + i as u32)).collect(),
            ops: 8 + rng.below(10) as usize,
            p_write: 70,
            p_multi: 10,
            p_table: 20,
            w: [60, 40, 0, 0],
            cleanup_bias: 50,
            hold: 0,
            directed: 0,
        };
    }
    let nthreads = match rng.below(10) {
        0 => 2,
        1 => 3,
        2..=5 => 4 + rng.below(2) as usize,
        _ => 6 + rng.below(3) as usize,
    };
    let npages = match rng.below(10) {
        0..=5 => 1,
        6..=8 => 2,
        _ => 3,
    };
    let table = 1 + rng.below(3) as u32;
    let base = rng.below(1000) as u32;
    let mut pages = vec![];
    for i in 0..npages {
        // neighbours, or pages that collide in one lock-manager shard (page_no + 256*k)
        let p = if rng.chance(1, 3) { base + 256 * i as u32 } else { base + i as u32 };
        let t = if rng.chance(1, 6) { table + i as u32 } else { table };
        pages.push((t, p));
    }
    pages.sort();
    pages.dedup();
    let ops = if thorough { rng.usize(100, 400) } else { rng.usize(60, 300) };
    let w = match rng.below(5) {
        0 => [100, 0, 0, 0],  // no perturbation at all: the raw race
        1 => [90, 6, 3, 1],
        2 => [75, 12, 10, 3],
        3 => [60, 20, 15, 5],
        _ => [85, 10, 5, 0],
    };
    Cfg {
        nthreads,
        pages,
        ops,
        p_write: *rng.pick(&[100u64, 90, 70, 50, 30]),
        p_multi: *rng.pick(&[0u64, 0, 10, 25]),
        p_table: *rng.pick(&[0u64, 10, 50]),
        w,
        cleanup_bias: *rng.pick(&[0u64, 5, 20, 50]),
        hold: rng.below(3),
        directed: 0,
    }
}

// ---- shared per-round state ------------------------------------------------------------
const W_ONE: u64 = 1 << 32;

#[derive(Clone, Debug)]
struct Viol {
    assertion: &'static str,
    cause: &'static str,
    at: &'static str,
    thread: usize,
    page: usize,
    log_pos: usize,
}

struct Directed {
    a_in_window: AtomicBool,
    b_holding: AtomicBool,
    a_done: AtomicBool,
    window_reached: AtomicBool,
}

struct Round {
    cfg: Cfg,
    mgr: PageLockManager,
    occ: Vec<AtomicU64>, // per page: writers << 32 | readers
    intents: AtomicU64,  // IS/IX currently held (harness view; informational)
    log: Mutex<Vec<u32>>,
    inside: AtomicU32,       // threads currently inside a lock-manager call (acquire or guard drop)
    overlap: AtomicU64,      // yield points reached while another thread was inside a call as well
    hook_actions: [AtomicU64; 4],
    viols: Mutex<Vec<Viol>>,
    viol_total: AtomicU64,
    barrier: Barrier,
    cur: Vec<AtomicU64>, // per thread: op index << 8 | phase, for the stuck report
    ops_done: AtomicU64,
    directed: Directed,
}

impl Round {
    fn new(cfg: Cfg) -> Round {
        let n = cfg.nthreads;
        let np = cfg.pages.len();
        let cap = if cfg.directed != 0 { 64 } else { n * cfg.ops * 10 + 64 };
        Round {
            mgr: PageLockManager::new(),
            occ: (0..np).map(|_| AtomicU64::new(0)).collect(),
            intents: AtomicU64::new(0),
            log: Mutex::new(Vec::with_capacity(cap)),
            inside: AtomicU32::new(0),
            overlap: AtomicU64::new(0),
            hook_actions: [AtomicU64::new(0), AtomicU64::new(0), AtomicU64::new(0), AtomicU64::new(0)],
            viols: Mutex::new(vec![]),
            viol_total: AtomicU64::new(0),
            barrier: Barrier::new(n),
            cur: (0..n).map(|_| AtomicU64::new(0)).collect(),
            ops_done: AtomicU64::new(0),
            directed: Directed {
                a_in_window: AtomicBool::new(false),
                b_holding: AtomicBool::new(false),
                a_done: AtomicBool::new(false),
                window_reached: AtomicBool::new(false),
            },
            cfg,
        }
    }

    fn push(&self, e: u32) -> usize {
        let mut l = self.log.lock();
        l.push(e);
        l.len()
    }

    fn viol(&self, assertion: &'static str, cause: &'static str, at: &'static str, thread: usize, page: usize, log_pos: usize) {
        self.viol_total.fetch_add(1, Ordering::Relaxed);
        let mut v = self.viols.lock();
        if v.len() < 4 {
            v.push(Viol { assertion, cause, at, thread, page, log_pos });
        }
    }

    // The four monitor updates. They run while the calling thread holds the guard.
    fn enter_w(&self, t: usize, pi: usize) {
        let pos = self.push(ev(t, EV_ENTER_W, pi as u32));
        let prev = self.occ[pi].fetch_add(W_ONE, Ordering::SeqCst);
        if prev >> 32 != 0 {
            self.viol("writers_le_1", "two_writers_on_page", "write_entry", t, pi, pos);
        }
        if prev & 0xFFFF_FFFF != 0 {
            self.viol("writers_times_readers", "writer_and_reader_on_page", "write_entry", t, pi, pos);
        }
    }
    fn exit_w(&self, t: usize, pi: usize) {
        let pos = self.push(ev(t, EV_EXIT_W, pi as u32));
        let prev = self.occ[pi].fetch_sub(W_ONE, Ordering::SeqCst);
        if prev >> 32 != 1 {
            self.viol("writers_le_1", "two_writers_on_page", "write_exit", t, pi, pos);
        }
        if prev & 0xFFFF_FFFF != 0 {
            self.viol("writers_times_readers", "writer_and_reader_on_page", "write_exit", t, pi, pos);
        }
    }
    fn enter_r(&self, t: usize, pi: usize) {
        let pos = self.push(ev(t, EV_ENTER_R, pi as u32));
        let prev = self.occ[pi].fetch_add(1, Ordering::SeqCst);
        if prev >> 32 != 0 {
            self.viol("writers_times_readers", "writer_and_reader_on_page", "read_entry", t, pi, pos);
        }
    }
    fn exit_r(&self, t: usize, pi: usize) {
        let pos = self.push(ev(t, EV_EXIT_R, pi as u32));
        let prev = self.occ[pi].fetch_sub(1, Ordering::SeqCst);
        if prev >> 32 != 0 {
            self.viol("writers_times_readers", "writer_and_reader_on_page", "read_exit", t, pi, pos);
        }
    }
}

// ---- the yield hook ----------------------------------------------------------------------
struct Tls {
    idx: usize,
    rng: Rng,
    page: u32,
    round: Arc<Round>,
    role: u8, // directed rounds: 1 = A (parks in its first cleanup window), 2 = B
    parked_once: bool,
}

thread_local! {
    static TLS: RefCell<Option<Tls>> = RefCell::new(None);
}

fn set_page(p: u32) {
    TLS.with(|t| {
        if let Some(t) = t.borrow_mut().as_mut() {
            t.page = p;
        }
    });
}

fn spin_for(us: u64) {
    if MIRI {
        std::thread::yield_now();
        return;
    }
    let t0 = Instant::now();
    let d = Duration::from_micros(us);
    while t0.elapsed() < d {
        std::hint::spin_loop();
    }
}

/// wait (yielding) until `flag` is set; bounded both in time and in iterations
fn wait_flag(flag: &AtomicBool, max: Duration) -> bool {
    let t0 = Instant::now();
    let mut it = 0u64;
    loop {
        if flag.load(Ordering::SeqCst) {
            return true;
        }
        it += 1;
        if MIRI {
            if it > 50_000 {
                return false;
            }
        } else if it % 64 == 0 && t0.elapsed() > max {
            return false;
        }
        std::thread::yield_now();
    }
}

fn hook(name: &'static str) {
    TLS.with(|cell| {
        let mut b = cell.borrow_mut();
        let t = match b.as_mut() {
            Some(t) => t,
            None => return, // a thread that is not part of a round
        };
        let kind = match name {
            "pl.read.got_entry" => EV_READ_GOT,
            "pl.write.got_entry" => EV_WRITE_GOT,
            "pl.cleanup.released" => EV_CLEANUP,
            _ => EV_OTHER_HOOK,
        };
        let r = t.round.clone();
        r.push(ev(t.idx, kind, t.page));
        if r.inside.load(Ordering::Relaxed) >= 2 {
            r.overlap.fetch_add(1, Ordering::Relaxed);
        }
        if r.cfg.directed != 0 {
            if t.role == 1 && kind == EV_CLEANUP && !t.parked_once {
                t.parked_once = true;
                r.directed.a_in_window.store(true, Ordering::SeqCst);
                // parked between `entry.release()` (ref_count 1 -> 0) and `self.locks.lock()`
                if wait_flag(&r.directed.b_holding, Duration::from_millis(400)) {
                    r.directed.window_reached.store(true, Ordering::SeqCst);
                }
            }
            return;
        }
        let w = &r.cfg.w;
        let total = w[0] + w[1] + w[2] + w[3];
        let mut x = t.rng.below(total);
        let mut act = 0;
        for (i, wi) in w.iter().enumerate() {
            if x < *wi {
                act = i;
                break;
            }
            x -= *wi;
        }
        if kind == EV_CLEANUP && act == 0 && r.cfg.cleanup_bias > 0 && t.rng.below(100) < r.cfg.cleanup_bias {
            act = 1 + t.rng.below(3) as usize;
        }
        if MIRI && act > 1 {
            act = 1;
        }
        r.hook_actions[act].fetch_add(1, Ordering::Relaxed);
        match act {
            0 => {}
            1 => std::thread::yield_now(),
            2 => {
                let us = 1 + t.rng.below(50);
                spin_for(us)
            }
            _ => {
                let us = 1 + t.rng.below(200);
                std::thread::sleep(Duration::from_micros(us))
            }
        }
    });
}

// ---- workers -------------------------------------------------------------------------------
fn hold(r: &Round, rng: &mut Rng) {
    if r.cfg.hold == 0 {
        return;
    }
    let x = rng.below(100);
    if r.cfg.hold == 1 {
        if x < 20 {
            std::hint::spin_loop();
        } else if x < 30 {
            std::thread::yield_now();
        }
    } else if x < 30 {
        std::thread::yield_now();
    } else if x < 45 {
        spin_for(1 + rng.below(20));
    }
}

enum Intent<'a> {
    None,
    S(turdb::database::page_locks::TableIntentSharedGuard<'a>),
    X(turdb::database::page_locks::TableIntentExclusiveGuard<'a>),
}

fn worker(r: &Arc<Round>, idx: usize, tseed: u64) {
    let mut rng = Rng::new(tseed);
    let cfg = &r.cfg;
    let np = cfg.pages.len();
    r.barrier.wait();
    for op in 0..cfg.ops {
        let opw = (op as u64) << 8;
        r.cur[idx].store(opw | 1, Ordering::Relaxed);
        let write = rng.below(100) < cfg.p_write;
        let multi = write && np >= 2 && rng.below(100) < cfg.p_multi;
        let pi = rng.below(np as u64) as usize;
        let (tbl, pno) = cfg.pages[pi];
        let intent = if rng.below(100) < cfg.p_table {
            r.cur[idx].store(opw | 2, Ordering::Relaxed);
            let g = if write { Intent::X(r.mgr.table_intent_exclusive(tbl)) } else { Intent::S(r.mgr.table_intent_shared(tbl)) };
            r.intents.fetch_add(1, Ordering::Relaxed);
            g
        } else {
            Intent::None
        };
        if multi {
            // a subset of >= 2 distinct pages, given in arbitrary order (the call sorts them)
            let mut sel: Vec<usize> = (0..np).collect();
            rng.shuffle(&mut sel);
            let k = rng.usize(2, np);
            sel.truncate(k);
            let req: Vec<(u32, u32)> = sel.iter().map(|i| cfg.pages[*i]).collect();
            set_page(PAGE_MULTI);
            r.push(ev(idx, EV_CALL_M, PAGE_MULTI));
            r.cur[idx].store(opw | 3, Ordering::Relaxed);
            r.inside.fetch_add(1, Ordering::Relaxed);
            let gs = r.mgr.page_write_multi(&req);
            r.inside.fetch_sub(1, Ordering::Relaxed);
            for i in &sel {
                r.enter_w(idx, *i);
            }
            hold(r, &mut rng);
            for i in &sel {
                r.exit_w(idx, *i);
            }
            r.cur[idx].store(opw | 4, Ordering::Relaxed);
            r.inside.fetch_add(1, Ordering::Relaxed);
            drop(gs);
            r.inside.fetch_sub(1, Ordering::Relaxed);
            r.push(ev(idx, EV_DROP_DONE, PAGE_MULTI));
        } else if write {
            set_page(pi as u32);
            r.push(ev(idx, EV_CALL_W, pi as u32));
            r.cur[idx].store(opw | 5, Ordering::Relaxed);
            r.inside.fetch_add(1, Ordering::Relaxed);
            let g = r.mgr.page_write(tbl, pno);
            r.inside.fetch_sub(1, Ordering::Relaxed);
            r.enter_w(idx, pi);
            hold(r, &mut rng);
            r.exit_w(idx, pi);
            r.cur[idx].store(opw | 6, Ordering::Relaxed);
            r.inside.fetch_add(1, Ordering::Relaxed);
            drop(g);
            r.inside.fetch_sub(1, Ordering::Relaxed);
            r.push(ev(idx, EV_DROP_DONE, pi as u32));
        } else {
            set_page(pi as u32);
            r.push(ev(idx, EV_CALL_R, pi as u32));
            r.cur[idx].store(opw | 7, Ordering::Relaxed);
            r.inside.fetch_add(1, Ordering::Relaxed);
            let g = r.mgr.page_read(tbl, pno);
            r.inside.fetch_sub(1, Ordering::Relaxed);
            r.enter_r(idx, pi);
            hold(r, &mut rng);
            r.exit_r(idx, pi);
            r.cur[idx].store(opw | 8, Ordering::Relaxed);
            r.inside.fetch_add(1, Ordering::Relaxed);
            drop(g);
            r.inside.fetch_sub(1, Ordering::Relaxed);
            r.push(ev(idx, EV_DROP_DONE, pi as u32));
        }
        match intent {
            Intent::None => {}
            _ => {
                r.cur[idx].store(opw | 9, Ordering::Relaxed);
                drop(intent);
                r.intents.fetch_sub(1, Ordering::Relaxed);
            }
        }
        r.ops_done.fetch_add(1, Ordering::Relaxed);
    }
    r.cur[idx].store(u64::MAX, Ordering::Relaxed);
}

/// Directed two-thread schedule around `PageLockShard::try_cleanup`.
/// variant 1: B holds WRITE, A then asks WRITE; 2: B holds WRITE, A asks READ; 3: B holds READ, A asks WRITE.
fn directed_worker(r: &Arc<Round>, idx: usize) {
    let (tbl, pno) = r.cfg.pages[0];
    let d = &r.directed;
    let b_write = r.cfg.directed != 3;
    let a_write = r.cfg.directed != 2;
    set_page(0);
    r.barrier.wait();
    if idx == 0 {
        // A: lock/unlock once; its guard drop takes ref_count 1 -> 0 and is parked by the hook
        r.push(ev(0, EV_CALL_W, 0));
        r.inside.fetch_add(1, Ordering::Relaxed);
        let g = r.mgr.page_write(tbl, pno);
        r.enter_w(0, 0);
        r.exit_w(0, 0);
        drop(g);
        r.push(ev(0, EV_DROP_DONE, 0));
        // A again: B is (still) inside its critical section now
        if a_write {
            r.push(ev(0, EV_CALL_W, 0));
            let g = r.mgr.page_write(tbl, pno);
            r.enter_w(0, 0);
            r.exit_w(0, 0);
            drop(g);
        } else {
            r.push(ev(0, EV_CALL_R, 0));
            let g = r.mgr.page_read(tbl, pno);
            r.enter_r(0, 0);
            r.exit_r(0, 0);
            drop(g);
        }
        r.inside.fetch_sub(1, Ordering::Relaxed);
        r.push(ev(0, EV_DROP_DONE, 0));
        d.a_done.store(true, Ordering::SeqCst);
    } else {
        wait_flag(&d.a_in_window, Duration::from_millis(400));
        r.inside.fetch_add(1, Ordering::Relaxed);
        // B: lock/unlock once (re-uses A's entry, takes it 0 -> 1 -> 0 and removes it from the map)
        r.push(ev(1, EV_CALL_W, 0));
        let g = r.mgr.page_write(tbl, pno);
        r.enter_w(1, 0);
        r.exit_w(1, 0);
        drop(g);
        r.push(ev(1, EV_DROP_DONE, 0));
        // B: lock again (inserts a NEW entry) and keep holding it
        if b_write {
            r.push(ev(1, EV_CALL_W, 0));
            let g = r.mgr.page_write(tbl, pno);
            r.enter_w(1, 0);
            d.b_holding.store(true, Ordering::SeqCst);
            wait_flag(&d.a_done, Duration::from_millis(30));
            r.exit_w(1, 0);
            drop(g);
        } else {
            r.push(ev(1, EV_CALL_R, 0));
            let g = r.mgr.page_read(tbl, pno);
            r.enter_r(1, 0);
            d.b_holding.store(true, Ordering::SeqCst);
            wait_flag(&d.a_done, Duration::from_millis(30));
            r.exit_r(1, 0);
            drop(g);
        }
        r.inside.fetch_sub(1, Ordering::Relaxed);
        r.push(ev(1, EV_DROP_DONE, 0));
    }
    r.ops_done.fetch_add(2, Ordering::Relaxed);
    r.cur[idx].store(u64::MAX, Ordering::Relaxed);
}

// ---- running one round -----------------------------------------------------------------------
struct RoundResult {
    round_no: u64,
    rseed: u64,
    cfg: Cfg,
    finished: bool,
    stuck: Vec<(usize, u64, u64)>, // (thread, op index, phase) of threads that did not finish
    panics: Vec<String>,
    viols: Vec<Viol>,
    viol_total: u64,
    witness: Vec<Vec<String>>, // per recorded violation: the events on that page leading to it
    entries_after: Option<(usize, usize)>,
    fingerprint: u64,
    yield_events: u64,
    overlap: u64,
    cleanup_windows_interleaved: u64,
    hook_actions: [u64; 4],
    ops: u64,
    first_expiry: bool,
    window_reached: bool,
    wall_ms: f64,
    full_log: Option<Vec<String>>,
}

fn phase_name(p: u64) -> &'static str {
    match p {
        1 => "before op",
        2 => "in table_intent_*",
        3 => "in page_write_multi",
        4 => "dropping multi guards",
        5 => "in page_write",
        6 => "dropping write guard",
        7 => "in page_read",
        8 => "dropping read guard",
        9 => "dropping table intent guard",
        _ => "?",
    }
}

fn run_round(round_no: u64, rseed: u64, cfg: &Cfg, timeout: Duration) -> RoundResult {
    let t0 = Instant::now();
    let round = Arc::new(Round::new(cfg.clone()));
    let n = cfg.nthreads;
    let (tx, rx) = mpsc::channel::<(usize, Result<(), String>)>();
    let mut handles = vec![];
    for i in 0..n {
        let r = round.clone();
        let tx = tx.clone();
        let tseed = rseed ^ (i as u64 + 1).wrapping_mul(0xA24BAED4963EE407) ^ round_no.wrapping_mul(0x9FB21C651E98DF25);
        let h = std::thread::Builder::new()
            .stack_size(512 * 1024)
            .spawn(move || {
                TLS.with(|t| {
                    *t.borrow_mut() = Some(Tls {
                        idx: i,
                        rng: Rng::new(tseed ^ 0x5bd1e995),
                        page: 0,
                        round: r.clone(),
                        role: if r.cfg.directed != 0 { i as u8 + 1 } else { 0 },
                        parked_once: false,
                    })
                });
                let res = catch(|| {
                    if r.cfg.directed != 0 {
                        directed_worker(&r, i)
                    } else {
                        worker(&r, i, tseed)
                    }
                });
                TLS.with(|t| *t.borrow_mut() = None);
                let _ = tx.send((i, res));
            })
            .expect("spawn");
        handles.push(h);
    }
    drop(tx);
    let mut done = vec![false; n];
    let mut panics = vec![];
    let mut ndone = 0;
    while ndone < n {
        let left = timeout.checked_sub(t0.elapsed()).unwrap_or(Duration::ZERO);
        let got = if MIRI { rx.recv().map_err(|_| ()) } else { rx.recv_timeout(left).map_err(|_| ()) };
        match got {
            Ok((i, res)) => {
                done[i] = true;
                ndone += 1;
                if let Err(p) = res {
                    panics.push(p);
                }
            }
            Err(_) => break,
        }
    }
    let finished = ndone == n;
    let mut stuck = vec![];
    if finished {
        for h in handles {
            let _ = h.join();
        }
    } else {
        for i in 0..n {
            if !done[i] {
                let c = round.cur[i].load(Ordering::Relaxed);
                stuck.push((i, c >> 8, c & 0xFF));
            }
        }
        // the stuck threads are leaked; they only reference this round's private state
    }
    let log: Vec<u32> = round.log.lock().clone();
    // schedule fingerprint: the order of (thread, yield point) events
    let mut fp_bytes = Vec::with_capacity(log.len());
    let mut yield_events = 0u64;
    for e in &log {
        let k = (e >> 8) & 0xFF;
        if k <= EV_CLEANUP || k == EV_OTHER_HOOK {
            fp_bytes.push(((e >> 16) as u8) << 4 | k as u8);
            yield_events += 1;
        }
    }
    let fingerprint = fnv(&fp_bytes);
    // how often did another thread get an entry for the page while a thread sat between
    // `release()` and the map lock (log order; informational)
    let mut open: Vec<Option<u32>> = vec![None; n]; // page of the thread's open cleanup window
    let mut cwi = 0u64;
    let mut counted = vec![false; n];
    for e in &log {
        let (t, k, p) = ((e >> 16) as usize, (e >> 8) & 0xFF, e & 0xFF);
        if t >= n {
            continue;
        }
        match k {
            EV_CLEANUP => {
                open[t] = Some(p);
                counted[t] = false;
            }
            EV_DROP_DONE | EV_CALL_R | EV_CALL_W | EV_CALL_M => open[t] = None,
            EV_READ_GOT | EV_WRITE_GOT => {
                for o in 0..n {
                    if o != t && !counted[o] {
                        if let Some(op) = open[o] {
                            if op == p || op == PAGE_MULTI || p == PAGE_MULTI {
                                cwi += 1;
                                counted[o] = true;
                            }
                        }
                    }
                }
            }
            _ => {}
        }
    }
    let viols: Vec<Viol> = round.viols.lock().clone();
    let mut witness = vec![];
    for v in &viols {
        let end = v.log_pos.min(log.len());
        let mut evs: Vec<String> = vec![];
        let mut i = end;
        while i > 0 && evs.len() < 40 {
            i -= 1;
            let p = log[i] & 0xFF;
            if p == v.page as u32 || p == PAGE_MULTI {
                evs.push(ev_fmt(log[i]));
            }
        }
        evs.reverse();
        witness.push(evs);
    }
    let entries_after = if finished { catch(|| round.mgr.verif_entry_counts()).ok() } else { None };
    let full_log = if cfg.directed != 0 { Some(log.iter().map(|e| ev_fmt(*e)).collect()) } else { None };
    RoundResult {
        round_no,
        rseed,
        cfg: cfg.clone(),
        finished,
        stuck,
        panics,
        viol_total: round.viol_total.load(Ordering::Relaxed),
        viols,
        witness,
        entries_after,
        fingerprint,
        yield_events,
        overlap: round.overlap.load(Ordering::Relaxed),
        cleanup_windows_interleaved: cwi,
        hook_actions: [
            round.hook_actions[0].load(Ordering::Relaxed),
            round.hook_actions[1].load(Ordering::Relaxed),
            round.hook_actions[2].load(Ordering::Relaxed),
            round.hook_actions[3].load(Ordering::Relaxed),
        ],
        ops: round.ops_done.load(Ordering::Relaxed),
        first_expiry: false,
        window_reached: round.directed.window_reached.load(Ordering::SeqCst),
        wall_ms: t0.elapsed().as_secs_f64() * 1000.0,
        full_log,
    }
}

static SOLO: RwLock<()> = RwLock::new(());

/// run a round; on watchdog expiry run the same seed once more, alone
fn run_round_guarded(round_no: u64, rseed: u64, cfg: &Cfg, timeout: Duration) -> RoundResult {
    let first = {
        let _g = SOLO.read();
        run_round(round_no, rseed, cfg, timeout)
    };
    if first.finished {
        return first;
    }
    let _g = SOLO.write();
    // alone (all other lanes paused) and with a much more generous limit
    let mut second = run_round(round_no, rseed, cfg, timeout * 6);
    second.first_expiry = true;
    if !second.finished {
        // keep what the first attempt saw as well
        second.panics.extend(first.panics);
    }
    second
}

// ---- driver ----------------------------------------------------------------------------------
pub fn run(a: &Args) -> i32 {
    let mut ctx = Ctx::new(
        "C36",
        &a.tier,
        a.seed,
        "exploration",
        "rounds of 2-8 real threads doing page_read/page_write/page_write_multi (+ table intent locks) on 1-3 hot pages of a fresh PageLockManager, schedule perturbed at the library's yield points (nothing/yield/spin 1-50us/sleep 1-200us from a per-thread PRNG), plus directed 2-thread rounds that park one thread in the try_cleanup window; occupancy monitor updated inside the critical section; distinct_nontrivial = distinct (round structure, schedule fingerprint) of rounds in which a yield point was reached while >= 2 threads were inside lock-manager calls",
    );
    let quick = ctx.quick();
    turdb::verif::set_yield_hook(Some(Arc::new(hook)));
    let mut master = Rng::derive(a.seed, 36);
    let timeout = Duration::from_secs(20);

    let (max_rounds, budget_s, lanes, ndirected): (u64, f64, usize, u64) = if MIRI {
        (4, 1e9, 1, 2)
    } else if quick {
        (3000, 30.0, 4, 9)
    } else {
        (60000, 400.0, 4, 60)
    };
    let deadline = Instant::now() + Duration::from_secs_f64(budget_s.min(1e8));

    let mut fingerprints: HashSet<u64> = HashSet::new();
    let mut trivial_rounds = 0u64;
    let mut slowest_ms = 0f64;
    let mut sampled_random = 0;
    let mut sampled_viol = 0;

    // results are folded into ctx here (single owner of ctx)
    let mut absorb = |ctx: &mut Ctx, res: RoundResult| {
        ctx.eval();
        let directed = res.cfg.directed != 0;
        ctx.count(if directed { "rounds_directed" } else { "rounds_random" }, 1);
        ctx.count("lock_ops", res.ops);
        ctx.count("yield_point_events", res.yield_events);
        ctx.count("yield_points_with_overlap", res.overlap);
        ctx.count("cleanup_windows_interleaved", res.cleanup_windows_interleaved);
        ctx.count("hook_nothing", res.hook_actions[0]);
        ctx.count("hook_yield", res.hook_actions[1]);
        ctx.count("hook_spin", res.hook_actions[2]);
        ctx.count("hook_sleep", res.hook_actions[3]);
        if res.wall_ms > slowest_ms {
            slowest_ms = res.wall_ms;
        }
        if res.first_expiry {
            ctx.count("watchdog_single_expiry", 1);
        }
        if !res.finished {
            let st: Vec<Value> = res.stuck.iter().map(|(t, op, ph)| json!({"thread": t, "op": op, "where": phase_name(*ph)})).collect();
            let place = res.stuck.first().map(|s| phase_name(s.2)).unwrap_or("?");
            ctx.violation(
                "progress",
                "C36/progress/round_stuck",
                json!({"round": res.round_no, "round_seed": res.rseed, "cfg": res.cfg.to_json(), "stuck_threads": st, "first_stuck_in": place,
                       "note": "watchdog expired twice: 20 s in the normal run and 120 s when the same round seed was re-run alone on an otherwise paused harness"}),
            );
            return;
        }
        let nontrivial = if directed { res.window_reached } else { res.overlap > 0 };
        if nontrivial {
            fingerprints.insert(res.fingerprint);
            ctx.nontrivial(res.cfg.structural_hash() ^ res.fingerprint.rotate_left(17));
            if res.cfg.nthreads >= 4 {
                ctx.count("rounds_nontrivial_ge4_threads", 1);
            }
        } else {
            trivial_rounds += 1;
            if directed {
                ctx.count("directed_window_not_reached", 1);
            }
        }
        for p in &res.panics {
            let site = crate::report::panic_site(p);
            ctx.violation("no_panic", &format!("C36/no_panic/{}", site), json!({"round": res.round_no, "round_seed": res.rseed, "cfg": res.cfg.to_json(), "panic": p}));
        }
        ctx.count("occupancy_violations", res.viol_total);
        if res.viol_total > 0 {
            ctx.count("rounds_with_occupancy_violation", 1);
        }
        for (v, w) in res.viols.iter().zip(res.witness.iter()) {
            let cause = if directed { "stale_cleanup_removes_live_entry" } else { v.cause };
            let sig = format!("C36/{}/{}", v.assertion, cause);
            let mut detail = json!({
                "round": res.round_no, "round_seed": res.rseed, "cfg": res.cfg.to_json(),
                "page": res.cfg.pages[v.page], "detected_at": v.at, "detected_by_thread": v.thread,
                "cleanup_windows_interleaved_in_round": res.cleanup_windows_interleaved,
                "events_on_page_before_detection": w,
            });
            if let Some(l) = &res.full_log {
                detail["full_event_order"] = json!(l);
            }
            ctx.violation(v.assertion, &sig, detail);
            if sampled_viol < 2 {
                sampled_viol += 1;
                ctx.sample(json!({"kind": if directed {"directed round with violation"} else {"random round with violation"}, "cfg": res.cfg.to_json(), "sig": sig, "events": res.full_log.clone().unwrap_or_else(|| w.clone())}));
            }
        }
        if let Some((p, t)) = res.entries_after {
            if p != 0 {
                ctx.violation("tables_empty_after_quiescence", "C36/tables_empty_after_quiescence/page_entries_left", json!({"round": res.round_no, "round_seed": res.rseed, "cfg": res.cfg.to_json(), "page_entries": p, "table_entries": t}));
            }
            if t != 0 {
                ctx.violation("tables_empty_after_quiescence", "C36/tables_empty_after_quiescence/table_entries_left", json!({"round": res.round_no, "round_seed": res.rseed, "cfg": res.cfg.to_json(), "page_entries": p, "table_entries": t}));
            }
            ctx.count("quiescence_checks", 1);
        } else {
            ctx.violation("tables_empty_after_quiescence", "C36/tables_empty_after_quiescence/accessor_panicked", json!({"round": res.round_no}));
        }
        if !directed && sampled_random < 2 && res.viol_total == 0 {
            sampled_random += 1;
            ctx.sample(json!({"kind": "random round", "cfg": res.cfg.to_json(), "lock_ops": res.ops, "yield_point_events": res.yield_events, "yield_points_with_overlap": res.overlap,
                              "cleanup_windows_interleaved": res.cleanup_windows_interleaved, "schedule_fingerprint": format!("{:016x}", res.fingerprint), "wall_ms": res.wall_ms}));
        }
    };

    // directed rounds first (sequential)
    for k in 0..ndirected {
        let cfg = Cfg {
            nthreads: 2,
            pages: vec![(1 + master.below(4) as u32, master.below(5000) as u32)],
            ops: 2,
            p_write: 100,
            p_multi: 0,
            p_table: 0,
            w: [1, 0, 0, 0],
            cleanup_bias: 0,
            hold: 0,
            directed: 1 + (k % 3) as u8,
        };
        let rseed = master.next();
        let res = run_round_guarded(1_000_000 + k, rseed, &cfg, timeout);
        absorb(&mut ctx, res);
    }

    // random rounds on parallel lanes
    let next = Arc::new(AtomicU64::new(0));
    let base_seed = master.next();
    let (tx, rx) = mpsc::channel::<RoundResult>();
    let mut lane_handles = vec![];
    let thorough = !quick;
    for _ in 0..lanes {
        let next = next.clone();
        let tx = tx.clone();
        lane_handles.push(std::thread::spawn(move || loop {
            let no = next.fetch_add(1, Ordering::SeqCst);
            if no >= max_rounds || Instant::now() >= deadline {
                break;
            }
            let mut rr = Rng::new(base_seed ^ no.wrapping_mul(0xD6E8FEB86659FD93));
            let cfg = gen_cfg(&mut rr, thorough);
            let rseed = rr.next();
            let res = run_round_guarded(no, rseed, &cfg, timeout);
            if tx.send(res).is_err() {
                break;
            }
        }));
    }
    drop(tx);
    for res in rx {
        absorb(&mut ctx, res);
    }
    for h in lane_handles {
        let _ = h.join();
    }
    turdb::verif::set_yield_hook(None);

    ctx.count("rounds_trivial_no_overlap", trivial_rounds);
    ctx.extra.insert("distinct_schedule_fingerprints".into(), json!(fingerprints.len()));
    ctx.extra.insert("slowest_round_ms".into(), json!((slowest_ms * 10.0).round() / 10.0));
    ctx.extra.insert("watchdog_s".into(), json!([timeout.as_secs(), timeout.as_secs() * 6]));
    ctx.extra.insert("lanes".into(), json!(lanes));
    ctx.assumptions.push("schedules are sampled by real threads with injected delays, not enumerated; a seed fixes workload and delays, not the OS schedule".into());
    ctx.assumptions.push("table intent locks: only non-blocking acquisition and cleanup are checked, because the documented conflict (table-exclusive) has no acquisition API".into());
    ctx.finish()
}

//! C37: group commit completes every commit exactly once.
//!
//! Real threads use `GroupCommitQueue` exactly as `transaction.rs::execute_small_commit` does
//! (submit_and_wait -> if Ok take_pending -> if Some(batch): flush every payload -> complete_batch /
//! fail_batch -> return). The "WAL" is a harness log under a mutex. Every thread records call/return
//! events with a global sequence counter (call event before invoking, return event after), the
//! log records a write event per payload, and an offline checker judges the merged event list:
//! exactly_once, written_before_ack, failure_reported_to_all, no_stuck.
//!
//! Besides perturbed random rounds there are two directed rounds that steer three threads through
//! the library's own yield points into the schedule "elected leader's payload is taken by a
//! committer that already finished" (every gate has a deadline, so a repaired queue cannot hang it).

use super::c35::{sched, Viol};
use crate::report::{catch, panic_site, Ctx};
use crate::rng::Rng;
use crate::Args;
use parking_lot::Mutex;
use serde_json::{json, Value};
use smallvec::SmallVec;
use std::collections::{BTreeMap, HashMap, HashSet};
use std::sync::atomic::{AtomicBool, AtomicU64, Ordering::SeqCst};
use std::sync::Arc;
use std::time::{Duration, Instant};
use turdb::database::group_commit::{CommitPayload, GroupCommitConfig, GroupCommitQueue, PendingCommit};
use turdb::memory::PageBufferPool;

#[derive(Clone, Debug)]
enum Ev {
    Call,
    SubmitRet { ok: bool, timeout: bool },
    TakeNone,
    Take { ids: Vec<u64> },
    FlushEnd { ok: bool },
    BatchDone { ok: bool },
    Return { ok: bool },
}

#[derive(Clone, Debug)]
struct E {
    seq: u64,
    t: usize,
    /// the commit (payload id) whose emulated execute_small_commit produced the event
    p: u64,
    ev: Ev,
    us: u64,
}

#[derive(Clone, Debug)]
struct W {
    seq: u64,
    id: u64,
    t: usize,
    by: u64,
}

struct Rd<'a> {
    q: &'a GroupCommitQueue,
    pool: &'a PageBufferPool,
    seq: &'a AtomicU64,
    log: &'a Mutex<Vec<W>>,
    sh: &'a Arc<sched::RoundShared>,
    t0: Instant,
    fail_permille: u32,
    /// directed rounds: the flush of this thread fails at position 0
    fail_thread: Option<usize>,
    max_entries: usize,
    round: u64,
}

fn build_payload(rd: &Rd, id: u64, n: usize) -> Option<CommitPayload> {
    let mut p: CommitPayload = SmallVec::new();
    for j in 0..n {
        let mut b = rd.pool.acquire()?;
        b[0..8].copy_from_slice(&id.to_le_bytes());
        b[8..16].copy_from_slice(&(j as u64).to_le_bytes());
        b[16..24].copy_from_slice(&(n as u64).to_le_bytes());
        p.push(((id >> 20) as u32, (id & 0xFFFFF) as u32, b, n as u32));
    }
    Some(p)
}

/// payload id as carried in the page bytes; Err if table/page/db_size/bytes disagree
fn decode_payload(c: &PendingCommit) -> Result<u64, String> {
    let first = c.payload.first().ok_or("empty payload in queue")?;
    let id = u64::from_le_bytes(first.2[0..8].try_into().unwrap());
    let n = c.payload.len();
    for (j, (table_id, page_no, buf, db_size)) in c.payload.iter().enumerate() {
        let bid = u64::from_le_bytes(buf[0..8].try_into().unwrap());
        let bj = u64::from_le_bytes(buf[8..16].try_into().unwrap());
        let bn = u64::from_le_bytes(buf[16..24].try_into().unwrap());
        if bid != id || bj != j as u64 || bn != n as u64 || *table_id != (id >> 20) as u32 || *page_no != (id & 0xFFFFF) as u32 || *db_size != n as u32 {
            return Err(format!("entry {} of payload {} is inconsistent", j, id));
        }
    }
    Ok(id)
}

#[derive(Default)]
struct ThreadOut {
    evs: Vec<E>,
    viols: Vec<Viol>,
    points: Vec<(&'static str, u64)>,
    pool_exhausted: u64,
}

fn ev(rd: &Rd, out: &mut Vec<E>, t: usize, p: u64, e: Ev) {
    let seq = rd.seq.fetch_add(1, SeqCst);
    out.push(E { seq, t, p, ev: e, us: rd.t0.elapsed().as_micros() as u64 });
}

/// the harness's WAL: append the ids of the batch under the log mutex; like execute_group_wal_flush it
/// stops at the first failing payload (earlier ones stay written)
fn flush(rd: &Rd, batch: &[Arc<PendingCommit>], t: usize, by: u64, fail_at: Option<usize>, viols: &mut Vec<Viol>) -> Result<(), String> {
    sched::point("h.flush_begin");
    let mut log = rd.log.lock();
    sched::point("h.flush_io");
    for (j, c) in batch.iter().enumerate() {
        if Some(j) == fail_at {
            return Err("injected WAL write failure".into());
        }
        match decode_payload(c) {
            Ok(id) => {
                let seq = rd.seq.fetch_add(1, SeqCst);
                log.push(W { seq, id, t, by });
            }
            Err(m) => {
                if viols.len() < 3 {
                    viols.push(Viol { assertion: "payload_intact", sig: "C37/payload_intact/queued_payload_differs_from_submitted".into(), detail: json!({"what": m, "round": rd.round}) });
                }
            }
        }
    }
    Ok(())
}

/// one emulated `execute_small_commit`
fn commit(rd: &Rd, t: usize, id: u64, rng: &mut Rng, out: &mut ThreadOut) {
    let n = 1 + rng.below(rd.max_entries as u64) as usize;
    let Some(payload) = build_payload(rd, id, n) else {
        // harness resource limit, not a verdict (buffers stay with a batch until its flusher drops it)
        out.pool_exhausted += 1;
        return;
    };
    sched::point("h.after_capture");
    sched::window_enter(rd.sh);
    ev(rd, &mut out.evs, t, id, Ev::Call);
    let r = catch(|| rd.q.submit_and_wait(payload));
    match r {
        Ok(Ok(_batch_id)) => {
            ev(rd, &mut out.evs, t, id, Ev::SubmitRet { ok: true, timeout: false });
            sched::point("h.before_take");
            let taken = catch(|| rd.q.take_pending());
            sched::point("h.after_take");
            match taken {
                Ok(Some(batch)) => {
                    let ids: Vec<u64> = batch.iter().map(|c| decode_payload(c).unwrap_or(u64::MAX)).collect();
                    let len = batch.len();
                    ev(rd, &mut out.evs, t, id, Ev::Take { ids });
                    let fail_at = if rd.fail_thread == Some(t) {
                        Some(0)
                    } else if rd.fail_permille > 0 && rng.below(1000) < rd.fail_permille as u64 {
                        Some(rng.below(len as u64) as usize)
                    } else {
                        None
                    };
                    let res = flush(rd, &batch, t, id, fail_at, &mut out.viols);
                    ev(rd, &mut out.evs, t, id, Ev::FlushEnd { ok: res.is_ok() });
                    sched::point("h.before_complete");
                    let done = catch(|| match &res {
                        Ok(()) => rd.q.complete_batch(&batch),
                        Err(e) => rd.q.fail_batch(&batch, e),
                    });
                    if let Err(pn) = done {
                        out.viols.push(Viol { assertion: "no_panic", sig: format!("C37/no_panic/complete_or_fail_batch_panicked@{}", panic_site(&pn)), detail: json!({"panic": pn, "round": rd.round}) });
                    }
                    ev(rd, &mut out.evs, t, id, Ev::BatchDone { ok: res.is_ok() });
                    drop(batch);
                    // `result?` in execute_small_commit: the flusher of a failed batch returns the error
                    ev(rd, &mut out.evs, t, id, Ev::Return { ok: res.is_ok() });
                }
                Ok(None) => {
                    ev(rd, &mut out.evs, t, id, Ev::TakeNone);
                    ev(rd, &mut out.evs, t, id, Ev::Return { ok: true });
                }
                Err(pn) => {
                    out.viols.push(Viol { assertion: "no_panic", sig: format!("C37/no_panic/take_pending_panicked@{}", panic_site(&pn)), detail: json!({"panic": pn, "round": rd.round}) });
                    ev(rd, &mut out.evs, t, id, Ev::Return { ok: false });
                }
            }
        }
        Ok(Err(e)) => {
            ev(rd, &mut out.evs, t, id, Ev::SubmitRet { ok: false, timeout: e.contains("timeout") });
            ev(rd, &mut out.evs, t, id, Ev::Return { ok: false });
        }
        Err(pn) => {
            out.viols.push(Viol { assertion: "no_panic", sig: format!("C37/no_panic/submit_and_wait_panicked@{}", panic_site(&pn)), detail: json!({"panic": pn, "round": rd.round}) });
            ev(rd, &mut out.evs, t, id, Ev::Return { ok: false });
        }
    }
    sched::window_exit(rd.sh);
}

// ------------------------------------------------------------------------------------------------
// offline checker
// ------------------------------------------------------------------------------------------------
#[derive(Default)]
struct Checked {
    viols: Vec<Viol>,
    c: BTreeMap<&'static str, u64>,
}

impl Checked {
    fn bump(&mut self, k: &'static str, n: u64) {
        *self.c.entry(k).or_insert(0) += n;
    }
    fn viol(&mut self, assertion: &'static str, sig: &str, detail: Value) {
        self.bump("sub_assertion_failures", 1);
        // one witness per signature and round is enough
        if !self.viols.iter().any(|v| v.sig == sig) {
            self.viols.push(Viol { assertion, sig: sig.to_string(), detail });
        }
    }
}

fn show(e: &E) -> String {
    let what = match &e.ev {
        Ev::Call => format!("commit {}: calls submit_and_wait", e.p),
        Ev::SubmitRet { ok, timeout } => format!("commit {}: submit_and_wait returned {}", e.p, if *ok { "Ok" } else if *timeout { "Err(group commit timeout)" } else { "Err" }),
        Ev::TakeNone => format!("commit {}: take_pending returned None", e.p),
        Ev::Take { ids } => format!("commit {}: take_pending returned batch {:?}", e.p, ids),
        Ev::FlushEnd { ok } => format!("commit {}: flush of its batch {}", e.p, if *ok { "succeeded" } else { "FAILED" }),
        Ev::BatchDone { ok } => format!("commit {}: {} returned", e.p, if *ok { "complete_batch" } else { "fail_batch" }),
        Ev::Return { ok } => format!("commit {}: execute_small_commit returns {}", e.p, if *ok { "Ok (caller told: committed)" } else { "Err" }),
    };
    format!("#{} T{} {}", e.seq, e.t, what)
}

/// events that concern commit `p` and the commit `q` whose submitter flushed it, in sequence order
fn witness(evs: &[E], writes: &[W], p: u64, q: Option<u64>) -> Vec<String> {
    let mut items: Vec<(u64, String)> = vec![];
    for e in evs {
        if e.p == p || Some(e.p) == q {
            items.push((e.seq, show(e)));
        }
    }
    for w in writes {
        if w.id == p {
            items.push((w.seq, format!("#{} T{} WAL write of payload {} (flusher: commit {})", w.seq, w.t, w.id, w.by)));
        }
    }
    items.sort();
    items.into_iter().map(|x| x.1).collect()
}

struct Final {
    pending: usize,
    flush_in_progress: bool,
    env_stalled: bool,
    /// 0 = wall-clock latencies are not judged (Miri); else the longest tolerated time a committer may
    /// spend inside submit_and_wait while no flush is in progress (60% of the shortened wait timeout)
    idle_wait_limit_us: u64,
}

fn check(evs: &[E], writes: &[W], fin: &Final, round: u64, params: &str) -> Checked {
    let mut ck = Checked::default();
    let mut submit_ret: HashMap<u64, (u64, bool, bool)> = HashMap::new();
    let mut ret: HashMap<u64, (u64, bool)> = HashMap::new();
    let mut own_take: HashMap<u64, Option<Vec<u64>>> = HashMap::new();
    let mut taken_by: HashMap<u64, Vec<(u64, u64)>> = HashMap::new(); // p -> [(take seq, taker commit)]
    let mut flush_ok: HashMap<u64, bool> = HashMap::new(); // taker commit -> result
    let mut batch_done: HashMap<u64, u64> = HashMap::new(); // taker commit -> seq
    let mut batch_of: HashMap<u64, Vec<u64>> = HashMap::new();
    let mut commits: Vec<u64> = vec![];
    for e in evs {
        match &e.ev {
            Ev::Call => commits.push(e.p),
            Ev::SubmitRet { ok, timeout } => {
                submit_ret.insert(e.p, (e.seq, *ok, *timeout));
            }
            Ev::TakeNone => {
                own_take.insert(e.p, None);
            }
            Ev::Take { ids } => {
                own_take.insert(e.p, Some(ids.clone()));
                batch_of.insert(e.p, ids.clone());
                ck.bump("batches", 1);
                if ids.len() >= 2 {
                    ck.bump("batches_with_2_or_more_commits", 1);
                }
                for id in ids {
                    taken_by.entry(*id).or_default().push((e.seq, e.p));
                    if *id != e.p {
                        ck.bump("commits_flushed_by_another_committer", 1);
                    }
                }
                if !ids.contains(&e.p) {
                    ck.bump("batches_not_containing_the_flushers_own_commit", 1);
                }
            }
            Ev::FlushEnd { ok } => {
                flush_ok.insert(e.p, *ok);
                if !*ok {
                    ck.bump("failed_batches", 1);
                }
            }
            Ev::BatchDone { .. } => {
                batch_done.insert(e.p, e.seq);
            }
            Ev::Return { ok } => {
                ret.insert(e.p, (e.seq, *ok));
            }
        }
    }
    let mut wr: HashMap<u64, Vec<&W>> = HashMap::new();
    for w in writes {
        wr.entry(w.id).or_default().push(w);
    }
    ck.bump("commits", commits.len() as u64);
    let subcase = |p: u64| -> &'static str {
        match own_take.get(&p) {
            Some(None) => "submitter's own take_pending returned None",
            Some(Some(ids)) if !ids.contains(&p) => "submitter was elected and flushed a batch that does not contain its own commit",
            Some(Some(_)) => "submitter flushed its own commit",
            None => "submitter never reached take_pending",
        }
    };
    for &p in &commits {
        let Some(&(rseq, rok)) = ret.get(&p) else { continue };
        let ws = wr.get(&p).map(|v| v.as_slice()).unwrap_or(&[]);
        let takers = taken_by.get(&p).cloned().unwrap_or_default();
        let taker = takers.first().map(|x| x.1);
        let foreign = taker.map(|q| q != p).unwrap_or(false);
        if rok {
            ck.bump("commits_acked", 1);
        } else {
            ck.bump("commits_reported_failed", 1);
        }
        // ---- exactly_once ------------------------------------------------------------------------
        if ws.len() > 1 || takers.len() > 1 {
            ck.viol(
                "exactly_once",
                if takers.len() > 1 { "C37/exactly_once/payload_taken_into_two_batches" } else { "C37/exactly_once/payload_written_more_than_once" },
                json!({"payload": p, "writes": ws.len(), "batches": takers.len(), "witness": witness(evs, writes, p, taker), "round": round, "params": params}),
            );
        }
        if rok && ws.is_empty() {
            let failed_foreign = foreign && taker.and_then(|q| flush_ok.get(&q)).map(|ok| !*ok).unwrap_or(false);
            let sig = if failed_foreign {
                "C37/exactly_once/acked_commit_never_written_its_batch_failed_in_another_flusher"
            } else if takers.is_empty() {
                "C37/exactly_once/acked_commit_never_taken_by_any_flusher"
            } else {
                "C37/exactly_once/acked_commit_never_written"
            };
            if failed_foreign {
                ck.bump("acked_but_never_written", 1);
            }
            ck.viol("exactly_once", sig, json!({"payload": p, "case": subcase(p), "witness": witness(evs, writes, p, taker), "round": round, "params": params}));
        }
        // ---- written_before_ack ------------------------------------------------------------------
        if rok {
            if let Some(w) = ws.first() {
                if w.seq > rseq {
                    ck.bump("acked_before_written", 1);
                    match own_take.get(&p) {
                        Some(None) => ck.bump("acked_before_written_own_take_none", 1),
                        Some(Some(_)) => ck.bump("acked_before_written_own_take_other_batch", 1),
                        None => {}
                    }
                    let sig = if foreign { "C37/written_before_ack/ok_returned_while_payload_is_in_the_batch_of_another_flusher" } else { "C37/written_before_ack/own_batch_written_after_return" };
                    ck.viol(
                        "written_before_ack",
                        sig,
                        json!({"payload": p, "ok_return_seq": rseq, "wal_write_seq": w.seq, "flushed_by_commit": w.by, "case": subcase(p), "witness": witness(evs, writes, p, taker), "round": round, "params": params}),
                    );
                }
            }
        }
    }
    // ---- failure_reported_to_all -------------------------------------------------------------------
    for (q, ok) in &flush_ok {
        if *ok {
            continue;
        }
        for p in batch_of.get(q).map(|v| v.as_slice()).unwrap_or(&[]) {
            if let Some(&(_, true)) = ret.get(p) {
                let sig = if p != q { "C37/failure_reported_to_all/ok_returned_while_payload_is_in_the_batch_of_another_flusher" } else { "C37/failure_reported_to_all/flusher_of_failed_batch_reported_ok" };
                ck.bump("failed_batch_member_told_ok", 1);
                ck.viol("failure_reported_to_all", sig, json!({"payload": p, "failed_batch_of_commit": q, "batch": batch_of.get(q), "case": subcase(*p), "witness": witness(evs, writes, *p, Some(*q)), "round": round, "params": params}));
            }
        }
    }
    // ---- no_stuck ----------------------------------------------------------------------------------
    let mut timeouts = 0u64;
    for &p in &commits {
        let Some(&(sseq, ok, timeout)) = submit_ret.get(&p) else { continue };
        if ok || !timeout {
            continue;
        }
        timeouts += 1;
        if fin.env_stalled {
            continue;
        }
        let takers = taken_by.get(&p).cloned().unwrap_or_default();
        let before: Option<&(u64, u64)> = takers.iter().find(|(s, _)| *s < sseq);
        match before {
            None => ck.viol("no_stuck", "C37/no_stuck/commit_timed_out_while_nobody_flushed_it", json!({"payload": p, "witness": witness(evs, writes, p, takers.first().map(|x| x.1)), "round": round, "params": params})),
            Some((_, q)) => {
                if batch_done.get(q).map(|d| *d < sseq).unwrap_or(false) {
                    ck.viol("no_stuck", "C37/no_stuck/commit_timed_out_although_its_batch_was_completed", json!({"payload": p, "witness": witness(evs, writes, p, Some(*q)), "round": round, "params": params}));
                } else {
                    ck.bump("timeouts_flusher_slower_than_timeout_not_judged", 1);
                }
            }
        }
    }
    // lost wake-up: the wait loop re-checks completion after its timed wait, so a missed notification shows
    // as a committer that sat in submit_and_wait for (nearly) the whole timeout although no flush was in
    // progress for most of that time, not as an error
    if fin.idle_wait_limit_us > 0 && !fin.env_stalled {
        let mut call_us: HashMap<u64, u64> = HashMap::new();
        let mut take_us: HashMap<u64, u64> = HashMap::new();
        let mut flushes: Vec<(u64, u64)> = vec![];
        for e in evs {
            match &e.ev {
                Ev::Call => {
                    call_us.insert(e.p, e.us);
                }
                Ev::Take { .. } => {
                    take_us.insert(e.p, e.us);
                }
                Ev::BatchDone { .. } => {
                    if let Some(t) = take_us.get(&e.p) {
                        flushes.push((*t, e.us));
                    }
                }
                _ => {}
            }
        }
        flushes.sort();
        for e in evs {
            let Ev::SubmitRet { .. } = &e.ev else { continue };
            let Some(&c0) = call_us.get(&e.p) else { continue };
            let total = e.us.saturating_sub(c0);
            if total <= fin.idle_wait_limit_us {
                continue;
            }
            // time inside [call, return] covered by somebody's take..complete interval
            let mut covered = 0u64;
            let mut cur = c0;
            for &(a, b) in &flushes {
                let (a, b) = (a.max(cur), b.min(e.us));
                if b > a {
                    covered += b - a;
                    cur = b;
                }
            }
            let idle = total.saturating_sub(covered);
            if idle > fin.idle_wait_limit_us {
                ck.bump("committers_that_slept_while_no_flush_was_in_progress", 1);
                let takers = taken_by.get(&e.p).cloned().unwrap_or_default();
                ck.viol(
                    "no_stuck",
                    "C37/no_stuck/committer_slept_in_submit_and_wait_while_no_flush_was_in_progress",
                    json!({"payload": e.p, "time_in_submit_and_wait_ms": total / 1000, "of_which_no_flush_in_progress_ms": idle / 1000, "limit_ms": fin.idle_wait_limit_us / 1000, "witness": witness(evs, writes, e.p, takers.first().map(|x| x.1)), "round": round, "params": params}),
                );
            }
        }
    }
    ck.bump("timeouts", timeouts);
    if fin.env_stalled && timeouts > 0 {
        ck.bump("rounds_with_timeouts_not_judged_environment_stalled", 1);
    }
    if timeouts == 0 {
        if fin.pending != 0 {
            ck.viol("no_stuck", "C37/no_stuck/commits_left_in_pending_after_all_committers_returned", json!({"pending": fin.pending, "flush_in_progress": fin.flush_in_progress, "round": round, "params": params}));
        }
        if fin.flush_in_progress {
            ck.viol("no_stuck", "C37/no_stuck/flush_in_progress_left_set_after_all_committers_returned", json!({"pending": fin.pending, "round": round, "params": params}));
        }
    }
    ck
}

// ------------------------------------------------------------------------------------------------
// rounds
// ------------------------------------------------------------------------------------------------
struct RoundOut {
    fp: u64,
    events: u64,
    overlapped: bool,
    ck: Checked,
    points: Vec<(&'static str, u64)>,
    sample: Option<Value>,
    strat: String,
    reproduced: bool,
}

fn finish_round(q: &GroupCommitQueue, outs: Vec<ThreadOut>, log: Vec<W>, sh: &sched::RoundShared, stalls0: u64, round: u64, params: String, strat: String, want_sample: bool) -> RoundOut {
    let mut evs: Vec<E> = vec![];
    let mut viols = vec![];
    let mut points: Vec<(&'static str, u64)> = vec![];
    let mut pool_exhausted = 0;
    for o in outs {
        pool_exhausted += o.pool_exhausted;
        evs.extend(o.evs);
        viols.extend(o.viols);
        for (n, c) in o.points {
            match points.iter_mut().find(|(m, _)| *m == n) {
                Some(e) => e.1 += c,
                None => points.push((n, c)),
            }
        }
    }
    evs.sort_by_key(|e| e.seq);
    let (pending, fip) = q.verif_state();
    let to = turdb::verif::group_commit_timeout_ms();
    let fin = Final { pending, flush_in_progress: fip, env_stalled: sched::stalls() != stalls0, idle_wait_limit_us: if cfg!(miri) { 0 } else { to * 600 } };
    let mut ck = check(&evs, &log, &fin, round, &params);
    for v in viols {
        ck.viol(v.assertion, &v.sig.clone(), v.detail);
    }
    ck.bump("harness_buffer_pool_exhausted_commit_skipped", pool_exhausted);
    let reproduced = ck.c.get("acked_before_written").copied().unwrap_or(0) > 0 || ck.c.get("failed_batch_member_told_ok").copied().unwrap_or(0) > 0;
    let sample = if want_sample {
        let mut items: Vec<(u64, String)> = evs.iter().map(|e| (e.seq, show(e))).collect();
        items.extend(log.iter().map(|w| (w.seq, format!("#{} T{} WAL write of payload {} (flusher: commit {})", w.seq, w.t, w.id, w.by))));
        items.sort();
        Some(json!({"round": round, "params": params, "first_events": items.into_iter().take(40).map(|x| x.1).collect::<Vec<_>>()}))
    } else {
        None
    };
    RoundOut { fp: sh.fp.load(SeqCst), events: sh.events.load(SeqCst), overlapped: sh.overlap_events.load(SeqCst) > 0, ck, points, sample, strat, reproduced }
}

fn run_round(seed: u64, round: u64, quick: bool) -> RoundOut {
    let miri = cfg!(miri);
    let mut rng = Rng::derive(seed ^ round.wrapping_mul(0x9FB21C651E98DF25), 37);
    let threads = if miri { rng.usize(2, 3) } else { *rng.pick(&[2usize, 2, 3, 3, 3, 4, 4, 6, 8]) };
    let commits = if miri { rng.usize(2, 4) } else if quick { rng.usize(3, 20) } else { rng.usize(3, 40) };
    let cfg_kind = rng.below(4);
    let config = match cfg_kind {
        0 | 1 => GroupCommitConfig::default(),
        2 => GroupCommitConfig::low_latency(),
        _ => GroupCommitConfig { max_batch_size: 2, max_wait_us: 50, min_batch_size: 1 },
    };
    let fail_permille = if rng.chance(2, 5) { *rng.pick(&[60u32, 250, 500]) } else { 0 };
    let max_entries = if miri { 1 } else { rng.usize(1, 3) };
    let think = rng.below(4);
    let profile = rng.below(4);
    let params = format!("threads={} commits_per_thread={} config={:?} flush_fail_permille={} entries<= {} think={} perturb_profile={}", threads, commits, config, fail_permille, max_entries, think, profile);
    let strat = format!("t{}k{}f{}p{}", threads, cfg_kind, (fail_permille > 0) as u8, profile);
    let q = GroupCommitQueue::new(config);
    let pool = PageBufferPool::new(threads * max_entries * 4 + 4);
    let seqc = AtomicU64::new(0);
    let log = Mutex::new(Vec::new());
    let sh = sched::RoundShared::new(profile, None);
    let stalls0 = sched::stalls();
    let rd = Rd { q: &q, pool: &pool, seq: &seqc, log: &log, sh: &sh, t0: Instant::now(), fail_permille, fail_thread: None, max_entries, round };
    let barrier = std::sync::Barrier::new(threads);
    let outs: Vec<ThreadOut> = std::thread::scope(|s| {
        let hs: Vec<_> = (0..threads)
            .map(|t| {
                let rd = &rd;
                let barrier = &barrier;
                s.spawn(move || {
                    let mut out = ThreadOut::default();
                    let mut rng = Rng::derive(seed ^ round.wrapping_mul(0x2545F4914F6CDD1D), 37_000 + t as u64);
                    sched::enter(rd.sh, t, seed, round);
                    barrier.wait();
                    for i in 0..commits {
                        // a stuck queue costs one wait timeout per commit: two are enough evidence for a round
                        if out.evs.iter().filter(|e| matches!(e.ev, Ev::SubmitRet { timeout: true, .. })).count() >= 2 {
                            break;
                        }
                        for _ in 0..rng.below(think + 1) {
                            sched::point("h.think");
                        }
                        commit(rd, t, (t as u64 + 1) * 1000 + i as u64 + 1, &mut rng, &mut out);
                    }
                    out.points = sched::leave();
                    out
                })
            })
            .collect();
        hs.into_iter().map(|h| h.join().unwrap_or(ThreadOut { viols: vec![Viol { assertion: "no_panic", sig: "C37/no_panic/harness_worker_panicked".into(), detail: json!({"round": round}) }], ..Default::default() })).collect()
    });
    let logv = std::mem::take(&mut *log.lock());
    finish_round(&q, outs, logv, &sh, stalls0, round, params, strat, round < 2)
}

fn wait_flag(f: &AtomicBool, max: Duration) -> bool {
    let t = Instant::now();
    let mut spins = 0u64;
    while !f.load(SeqCst) {
        spins += 1;
        if spins % 64 == 0 && t.elapsed() > max {
            return false;
        }
        std::thread::yield_now();
    }
    true
}

/// Directed schedule. T0 (commit 1001) is the first leader and flushes [1001, 2001]; T1 (commit 2001),
/// already completed, is held on its way to take_pending; T2 (commit 3001) is elected leader and held
/// before its take_pending; T1 takes [3001] and is held before writing; T2's take_pending returns None.
fn run_directed(seed: u64, round: u64, fail_in_t1: bool) -> RoundOut {
    #[derive(Default)]
    struct Flags {
        l0_elected: AtomicBool,
        b_enq: AtomicBool,
        l0_returned: AtomicBool,
        b_waitret: AtomicBool,
        a_elected: AtomicBool,
        b_take_done: AtomicBool,
        a_returned: AtomicBool,
    }
    let fl = Arc::new(Flags::default());
    let gate_max = if cfg!(miri) { Duration::from_secs(20) } else { Duration::from_millis(1500) };
    let hold_max = if cfg!(miri) { Duration::from_secs(5) } else { Duration::from_millis(400) };
    let extra: sched::Extra = {
        let fl = Arc::clone(&fl);
        Arc::new(move |tidx, _tag, name| match (tidx, name) {
            (0, "gc.wait_returned") => {
                fl.l0_elected.store(true, SeqCst);
                wait_flag(&fl.b_enq, gate_max);
                // give T1 time to go to sleep on the condition variable (it saw flush_in_progress)
                for _ in 0..50 {
                    std::thread::yield_now();
                }
            }
            (1, "gc.enqueued") => fl.b_enq.store(true, SeqCst),
            (1, "gc.wait_returned") => {
                fl.b_waitret.store(true, SeqCst);
                wait_flag(&fl.a_elected, gate_max);
            }
            (2, "gc.wait_returned") => {
                fl.a_elected.store(true, SeqCst);
                wait_flag(&fl.b_take_done, gate_max);
            }
            (1, "h.after_take") => fl.b_take_done.store(true, SeqCst),
            // T1 holds the batch it took and has not written it yet
            (1, "h.flush_begin") => {
                wait_flag(&fl.a_returned, hold_max);
            }
            _ => {}
        })
    };
    let q = GroupCommitQueue::with_default_config();
    let pool = PageBufferPool::new(6);
    let seqc = AtomicU64::new(0);
    let log = Mutex::new(Vec::new());
    // no random perturbation in the directed rounds
    let sh = sched::RoundShared::new(sched::QUIET, Some(extra));
    let stalls0 = sched::stalls();
    let rd = Rd { q: &q, pool: &pool, seq: &seqc, log: &log, sh: &sh, t0: Instant::now(), fail_permille: 0, fail_thread: if fail_in_t1 { Some(1) } else { None }, max_entries: 1, round };
    let outs: Vec<ThreadOut> = std::thread::scope(|s| {
        let hs: Vec<_> = (0..3usize)
            .map(|t| {
                let rd = &rd;
                let fl = &fl;
                s.spawn(move || {
                    let mut out = ThreadOut::default();
                    let mut rng = Rng::derive(seed, 37_900 + t as u64);
                    sched::enter(rd.sh, t, seed, round);
                    match t {
                        0 => {
                            commit(rd, 0, 1001, &mut rng, &mut out);
                            fl.l0_returned.store(true, SeqCst);
                        }
                        1 => {
                            wait_flag(&fl.l0_elected, gate_max);
                            commit(rd, 1, 2001, &mut rng, &mut out);
                        }
                        _ => {
                            wait_flag(&fl.b_waitret, gate_max);
                            wait_flag(&fl.l0_returned, gate_max);
                            commit(rd, 2, 3001, &mut rng, &mut out);
                            fl.a_returned.store(true, SeqCst);
                        }
                    }
                    out.points = sched::leave();
                    out
                })
            })
            .collect();
        hs.into_iter().map(|h| h.join().unwrap_or(ThreadOut::default())).collect()
    });
    let logv = std::mem::take(&mut *log.lock());
    let params = format!("directed schedule (3 threads, default config, no random perturbation){}", if fail_in_t1 { ", the flush performed by T1 fails" } else { "" });
    finish_round(&q, outs, logv, &sh, stalls0, round, params, format!("directed{}", fail_in_t1 as u8), true)
}

/// Observation only (outside the property's quantifier: Database uses the default config):
/// latency of a lone committer under `GroupCommitConfig::high_throughput()` (min_batch_size 4, max_wait 5 ms).
fn observe_high_throughput(timeout_ms: u64) -> Value {
    turdb::verif::set_group_commit_timeout_ms(timeout_ms);
    let q = GroupCommitQueue::new(GroupCommitConfig::high_throughput());
    let pool = PageBufferPool::new(2);
    let mut p: CommitPayload = SmallVec::new();
    let mut b = pool.acquire().unwrap();
    b[0] = 1;
    p.push((1, 1, b, 1));
    let t = Instant::now();
    let r = q.submit_and_wait(p);
    let ms = t.elapsed().as_millis() as u64;
    let took = q.take_pending();
    if let Some(batch) = &took {
        q.complete_batch(batch);
    }
    json!({"config": "high_throughput (min_batch_size=4, max_wait_us=5000)", "wait_timeout_override_ms": timeout_ms, "lone_committer_submit_and_wait_ms": ms, "result_ok": r.is_ok(), "note": "the waiter sleeps on flush_complete for the whole wait timeout (30 s in production) because nothing wakes it when max_wait_us elapses; not judged: Database uses the default config (min_batch_size=1)"})
}

#[derive(Default)]
struct Agg {
    c: BTreeMap<&'static str, u64>,
    viols: Vec<Viol>,
    viol_sig_counts: BTreeMap<String, u64>,
    fps: HashSet<u64>,
    nontrivial: HashSet<u64>,
    strata: HashSet<String>,
    samples: Vec<Value>,
    points: BTreeMap<&'static str, u64>,
    trivial_rounds: u64,
    rounds_reproducing: u64,
}

impl Agg {
    fn absorb(&mut self, o: Agg) {
        for (k, v) in o.c {
            *self.c.entry(k).or_insert(0) += v;
        }
        for (k, v) in o.viol_sig_counts {
            *self.viol_sig_counts.entry(k).or_insert(0) += v;
        }
        for v in o.viols {
            let have = self.viols.iter().filter(|x| x.sig == v.sig).count();
            if have < 2 && self.viols.len() < 48 {
                self.viols.push(v);
            }
        }
        self.fps.extend(o.fps);
        self.nontrivial.extend(o.nontrivial);
        self.strata.extend(o.strata);
        self.samples.extend(o.samples);
        for (n, c) in o.points {
            *self.points.entry(n).or_insert(0) += c;
        }
        self.trivial_rounds += o.trivial_rounds;
        self.rounds_reproducing += o.rounds_reproducing;
    }
}

fn merge(g: &mut Agg, r: RoundOut) {
    for (k, v) in r.ck.c {
        *g.c.entry(k).or_insert(0) += v;
    }
    for v in r.ck.viols {
        *g.viol_sig_counts.entry(v.sig.clone()).or_insert(0) += 1;
        let have = g.viols.iter().filter(|x| x.sig == v.sig).count();
        if have < 2 && g.viols.len() < 48 {
            g.viols.push(v);
        }
    }
    g.fps.insert(r.fp);
    if r.overlapped && r.events > 0 {
        g.nontrivial.insert(r.fp);
    } else {
        g.trivial_rounds += 1;
    }
    if r.reproduced {
        g.rounds_reproducing += 1;
    }
    g.strata.insert(r.strat);
    if let Some(s) = r.sample {
        g.samples.push(s);
    }
    for (n, c) in r.points {
        *g.points.entry(n).or_insert(0) += c;
    }
}

pub fn run(a: &Args) -> i32 {
    let miri = cfg!(miri);
    let mut ctx = Ctx::new(
        "C37",
        &a.tier,
        a.seed,
        "exploration",
        "a case = one round: a fresh GroupCommitQueue (default / low_latency / max_batch_size=2 config, all with min_batch_size=1 as Database uses) and 2..8 real threads each doing 3..40 emulated execute_small_commit calls (submit_and_wait -> take_pending -> flush to a harness log -> complete_batch/fail_batch), payloads of 1..3 pooled page buffers carrying a unique id; flush failures injected only in ~40% of rounds; random nothing|yield|spin|sleep at the library's yield points (gc.enqueued, gc.wait_returned, gc.marked_completed) and at harness points (before take_pending, before/inside the flush, before complete). Offline checker over the merged call/return/write event list. Plus two directed rounds that steer three threads into 'the elected leader's payload is taken by an already-finished committer'. distinct_nontrivial = distinct interleaving fingerprints of rounds in which >= 2 threads were inside the emulated commit at a yield-point event",
    );
    sched::install();
    let quick = ctx.quick();
    let hb = sched::start_heartbeat();
    let mut agg = Agg::default();
    // observation on the non-default preset (not judged)
    if !miri {
        let obs = observe_high_throughput(if quick { 400 } else { 1500 });
        ctx.extra.insert("observation_high_throughput_preset".into(), obs);
    }
    // a lost wake-up / stuck committer must show within seconds, not after the library's 30 s
    let timeout_ms = if miri { 0 } else { 2500 };
    turdb::verif::set_group_commit_timeout_ms(timeout_ms);
    // directed rounds
    let mut directed_repro = vec![];
    for (i, fail) in [false, true].into_iter().enumerate() {
        let r = run_directed(a.seed, 1_000_000 + i as u64, fail);
        directed_repro.push(json!({"flush_of_T1_fails": fail, "ack_before_write_or_unreported_failure_observed": r.reproduced}));
        ctx.eval();
        merge(&mut agg, r);
    }
    ctx.extra.insert("directed_rounds".into(), json!(directed_repro));
    let cores = std::thread::available_parallelism().map(|n| n.get()).unwrap_or(4);
    let (lanes, rounds, budget_s) = if miri { (1usize, 3u64, 3600u64) } else if quick { ((cores / 4).clamp(1, 4), 10_000u64, 34u64) } else { ((cores / 3).clamp(1, 6), 600_000u64, 400u64) };
    let deadline = Instant::now() + Duration::from_secs(budget_s);
    let seed = a.seed;
    let (agg2, done, hit, hung): (Agg, u64, bool, Option<u64>) = sched::run_lanes(lanes, rounds, deadline, Duration::from_secs(120), move |i| run_round(seed, i, quick), |g: &mut Agg, _i, r: RoundOut| merge(g, r));
    agg.absorb(agg2);
    if let Some(r) = hung {
        ctx.inconclusive(&format!("watchdog: round {} did not finish within 120 s although every wait in the queue is bounded by the (shortened) timeout; verdict covers the {} rounds completed before", r, done));
    }
    sched::stop_heartbeat(hb);
    turdb::verif::set_group_commit_timeout_ms(0);
    ctx.evals(done);
    for h in &agg.nontrivial {
        ctx.nontrivial(*h);
    }
    for (k, v) in &agg.c {
        ctx.count(k, *v);
    }
    ctx.count("rounds", done + 2);
    ctx.count("rounds_trivial_no_overlap", agg.trivial_rounds);
    ctx.count("rounds_with_ack_before_write_or_unreported_failure", agg.rounds_reproducing);
    ctx.count("environment_stalls_seen_by_heartbeat", sched::stalls());
    for s in agg.samples.iter().take(4) {
        ctx.sample(s.clone());
    }
    let mut seen = HashSet::new();
    for v in agg.viols.iter().filter(|v| seen.insert(v.sig.clone())) {
        ctx.violation(v.assertion, &v.sig, v.detail.clone());
    }
    ctx.extra.insert("distinct_interleaving_fingerprints".into(), json!(agg.fps.len()));
    ctx.extra.insert("yield_point_events".into(), json!(agg.points));
    ctx.extra.insert("strata_seen".into(), json!(agg.strata.len()));
    ctx.extra.insert("failed_sub_assertions_by_signature".into(), json!(agg.viol_sig_counts));
    ctx.extra.insert("lanes".into(), json!(lanes));
    ctx.extra.insert("wall_budget_hit".into(), json!(hit));
    ctx.extra.insert("group_commit_wait_timeout_override_ms".into(), json!(timeout_ms));
    ctx.assumptions.push("'told it succeeded' = the emulated execute_small_commit returns Ok (after its own take_pending/flush/complete step), exactly as transaction.rs does; the WAL is a harness log, so WAL I/O itself is not part of this check".into());
    ctx.assumptions.push("ordering is judged by a global sequence counter: a return event is stamped after the call returned and a write event while the log mutex is held, so 'write seq > Ok-return seq' proves the write happened after the return".into());
    ctx.assumptions.push("lost wake-ups are judged by wall clock: a committer that spends more than 60% of the (shortened, 2.5 s) wait timeout inside submit_and_wait while no take..complete interval of any thread is open; skipped when the harness heartbeat saw a scheduler stall (>150 ms oversleep) during the round, and under Miri".into());
    ctx.assumptions.push("a 'group commit timeout' (override 2.5 s) is judged only when the harness heartbeat saw no scheduler stall in that round, and only if the event list shows that nobody had taken the commit (or its batch had already completed)".into());
    ctx.assumptions.push("interleavings are sampled by perturbation (plus two directed schedules), not enumerated".into());
    ctx.exhaustive = Some(false);
    ctx.finish()
}

//! C38: concurrent commits log page images in commit order; every page a committed transaction modified is in the
//! log before COMMIT returns.
//!
//! Rounds run in worker subprocesses (`tv C38 worker ...`) under the supervisor of c08.rs: 2-6 threads on cloned
//! handles, `PRAGMA wal = ON`, every thread commits transactions / autocommit statements that insert uniquely stamped
//! rows into the same two tables (small rows, an indexed text column, a TOASTed column), with the yield hook
//! stretching the window between page-image capture and queue submission (and between log write and storage sync).
//! When the threads are done the database directory is copied while all handles are still open (no Drop, no
//! checkpoint: the process-kill image) and the handles are leaked. A fresh judge subprocess (`tv C38 judge ...`)
//! reads the WAL segments of the copy with the public reader, then opens the copy (recovery) and looks for every
//! row whose COMMIT returned Ok.
use super::c08::{cleanup_worker_scratch, supervise, Outcome};
use crate::report::{catch, Ctx};
use crate::rng::{fnv, Rng};
use crate::sqlm::db::Scratch;
use crate::Args;
use serde_json::{json, Value as J};
use std::collections::{BTreeMap, BTreeSet, HashMap, HashSet};
use std::io::{Read, Seek, SeekFrom, Write};
use std::path::{Path, PathBuf};
use std::sync::atomic::{AtomicBool, AtomicU64, Ordering};
use std::sync::{Arc, Mutex};
use std::time::{Duration, Instant};
use turdb::{Database, ExecuteResult, OwnedValue};

const PAGE: usize = 16384;
const FRAME_HDR: usize = 32;
const TABLES: [&str; 2] = ["t", "u"];

fn exec(db: &Database, sql: &str) -> Result<ExecuteResult, String> {
    match catch(|| db.execute(sql)) {
        Ok(Ok(r)) => Ok(r),
        Ok(Err(e)) => Err(format!("{:#}", e)),
        Err(p) => Err(format!("PANIC: {}", p)),
    }
}

// ------------------------------------------------------------------------------------------------ stamps

/// all `<open>stamp<close>` occurrences in a byte string (stamps are [A-Za-z0-9:]+)
fn find_marked(data: &[u8], open: &[u8; 2], close: &[u8; 2], out: &mut HashSet<String>) {
    let mut i = 0;
    while i + 4 <= data.len() {
        if data[i] == open[0] && data[i + 1] == open[1] {
            let mut j = i + 2;
            while j < data.len() && j - i < 40 && (data[j].is_ascii_alphanumeric() || data[j] == b':') {
                j += 1;
            }
            if j + 1 < data.len() && j > i + 2 && data[j] == close[0] && data[j + 1] == close[1] {
                out.insert(String::from_utf8_lossy(&data[i + 2..j]).to_string());
                i = j + 2;
                continue;
            }
        }
        i += 1;
    }
}

#[derive(Default, Clone)]
struct Marks {
    /// number of leaf cells (or raw occurrences) carrying `[[x]]`
    big_n: HashMap<String, u32>,
    /// `<<x>>` row stamp (column s of the table row)
    row: HashSet<String>,
    /// `[[x]]` body of the big column
    big: HashSet<String>,
    /// `((x))` indexed column k
    key: HashSet<String>,
}

fn marks_raw(data: &[u8]) -> Marks {
    let mut m = Marks::default();
    find_marked(data, b"<<", b">>", &mut m.row);
    find_marked(data, b"[[", b"]]", &mut m.big);
    for x in &m.big {
        m.big_n.insert(x.clone(), 1);
    }
    find_marked(data, b"((", b"))", &mut m.key);
    m
}

/// marks inside the live cells of a page if it decodes as a B-tree leaf, else raw scan of the page
fn marks_of_page(data: &[u8]) -> (Marks, bool) {
    let leaf = catch(|| -> Option<Marks> {
        let leaf = turdb::btree::LeafNode::from_page(data).ok()?;
        let n = leaf.cell_count() as usize;
        let mut m = Marks::default();
        for i in 0..n {
            let k = leaf.key_at(i).ok()?;
            let v = leaf.value_at(i).ok()?;
            for part in [k, v] {
                find_marked(part, b"<<", b">>", &mut m.row);
                let mut cell_big = HashSet::new();
                find_marked(part, b"[[", b"]]", &mut cell_big);
                for x in cell_big {
                    *m.big_n.entry(x.clone()).or_insert(0) += 1;
                    m.big.insert(x);
                }
                find_marked(part, b"((", b"))", &mut m.key);
            }
        }
        Some(m)
    });
    match leaf {
        Ok(Some(m)) => (m, true),
        _ => (marks_raw(data), false),
    }
}

fn big_body(stamp: &str, len: usize) -> String {
    let unit = format!("[[{}]]", stamp);
    let mut s = String::with_capacity(len + unit.len());
    while s.len() < len {
        s.push_str(&unit);
    }
    s
}

// ------------------------------------------------------------------------------------------------ worker

#[derive(Clone, Debug)]
struct RowPlan {
    tab: usize,
    id: i64,
    stamp: String,
    big_len: usize,
}

#[derive(Clone, Debug)]
struct TxnPlan {
    explicit: bool,
    rows: Vec<RowPlan>,
}

struct RoundPlan {
    threads: usize,
    mode: &'static str,
    fat: bool,
    plans: Vec<Vec<TxnPlan>>,
    preload: Vec<RowPlan>,
}

fn plan_round(seed: u64, nofat: bool) -> RoundPlan {
    let mut rng = Rng::derive(seed, 38);
    let fat = rng.chance(1, 6) && !nofat;
    let threads = if fat { rng.usize(2, 3) } else { rng.usize(2, 6) };
    let mode = if fat {
        "fat_hold_after_log"
    } else {
        match rng.below(10) {
            0..=5 => "hold_after_capture",
            6..=8 => "random_yield",
            _ => "no_hook",
        }
    };
    let mut plans = vec![];
    for tid in 0..threads {
        let ntx = if fat { rng.usize(2, 4) } else { rng.usize(3, 9) };
        let mut v = vec![];
        let mut next_id = (tid as i64 + 1) * 100_000;
        for x in 0..ntx {
            let explicit = fat || rng.chance(3, 4);
            let nrows = if explicit { if fat { rng.usize(2, 4) } else { rng.usize(1, 4) } } else { 1 };
            let mut rows = vec![];
            for r in 0..nrows {
                let tab = if rng.chance(1, 4) { 1 } else { 0 };
                let big_len = if fat {
                    rng.usize(20_000, 60_000)
                } else {
                    match rng.below(6) {
                        0 => rng.usize(1_500, 3_000),
                        1 => rng.usize(4_100, 9_000),
                        _ => rng.usize(0, 40),
                    }
                };
                rows.push(RowPlan { tab, id: next_id, stamp: format!("T{}:X{}:R{}", tid, x, r), big_len });
                next_id += 1;
            }
            v.push(TxnPlan { explicit, rows });
        }
        plans.push(v);
    }
    let npre = rng.usize(0, 30);
    let preload = (0..npre).map(|i| RowPlan { tab: i % 2, id: 1 + i as i64, stamp: format!("P:X0:R{}", i), big_len: if i % 7 == 0 { 1600 } else { 10 } }).collect();
    RoundPlan { threads, mode, fat, plans, preload }
}

fn insert_sql(r: &RowPlan) -> String {
    format!("INSERT INTO {} VALUES ({}, '<<{}>>', '(({}))', '{}')", TABLES[r.tab], r.id, r.stamp, r.stamp, big_body(&r.stamp, r.big_len))
}

/// incremental reader of the WAL files on disk: which marks have reached the log so far
#[derive(Default)]
struct WalTail {
    offsets: HashMap<PathBuf, u64>,
    /// stamp -> logged as part of a table row
    row: HashSet<String>,
    /// `[[x]]` seen in a frame that does not carry the row `<<x>>` (a TOAST page)
    toast: HashSet<String>,
    /// `((x))` seen in a frame that does not carry the row `<<x>>` (an index page)
    index: HashSet<String>,
    frames: u64,
}

impl WalTail {
    fn scan(&mut self, wal_dir: &Path) {
        let mut files: Vec<PathBuf> = std::fs::read_dir(wal_dir).map(|rd| rd.flatten().map(|e| e.path()).collect()).unwrap_or_default();
        files.sort();
        for f in files {
            let Ok(mut file) = std::fs::File::open(&f) else { continue };
            let len = file.metadata().map(|m| m.len()).unwrap_or(0);
            let off = *self.offsets.get(&f).unwrap_or(&0);
            let fsz = (FRAME_HDR + PAGE) as u64;
            let mut pos = off;
            if file.seek(SeekFrom::Start(pos)).is_err() {
                continue;
            }
            let mut buf = vec![0u8; FRAME_HDR + PAGE];
            while pos + fsz <= len {
                if file.read_exact(&mut buf).is_err() {
                    break;
                }
                let m = marks_raw(&buf[FRAME_HDR..]);
                for x in &m.big {
                    if !m.row.contains(x) {
                        self.toast.insert(x.clone());
                    }
                }
                for x in &m.key {
                    if !m.row.contains(x) {
                        self.index.insert(x.clone());
                    }
                }
                self.row.extend(m.row);
                self.frames += 1;
                pos += fsz;
            }
            self.offsets.insert(f, pos);
        }
    }
}

fn copy_dir(src: &Path, dst: &Path) -> std::io::Result<()> {
    std::fs::create_dir_all(dst)?;
    for e in std::fs::read_dir(src)? {
        let e = e?;
        let p = e.path();
        let d = dst.join(e.file_name());
        if p.is_dir() {
            copy_dir(&p, &d)?;
        } else {
            std::fs::copy(&p, &d)?;
        }
    }
    Ok(())
}

thread_local! {
    static TID: std::cell::Cell<usize> = std::cell::Cell::new(99);
    static HRNG: std::cell::RefCell<Option<Rng>> = std::cell::RefCell::new(None);
    static CAPTURES: std::cell::Cell<u64> = std::cell::Cell::new(0);
    static OVERTAKEN: std::cell::Cell<bool> = std::cell::Cell::new(false);
}

/// state shared by the committer threads of one round
struct Shared {
    /// held for reading around every statement; a crash image is copied under the write lock, i.e. at an
    /// instant at which no statement is in flight (a real kill between statements)
    gate: std::sync::RwLock<()>,
    committed: Mutex<Vec<J>>,
    /// thread is inside COMMIT / an autocommit INSERT
    inflight: Vec<AtomicBool>,
    in_window: Vec<AtomicBool>,
    overlap: AtomicU64,
    commits_done: AtomicU64,
    overtaken: AtomicU64,
    hook_log: Mutex<Vec<(usize, &'static str)>>,
    tail: Mutex<WalTail>,
    snaps: Mutex<Vec<J>>,
    mid_snaps: AtomicU64,
}

/// copy the live directory (caller guarantees no statement is in flight) + manifest of rows committed so far
fn snapshot(sh: &Shared, live: &Path, root: &Path, idx: u64, tag: &str) -> Result<(), String> {
    let k = sh.snaps.lock().unwrap().len();
    let copy = root.join(format!("crash{}_{}", idx, k));
    let _ = std::fs::remove_dir_all(&copy);
    copy_dir(live, &copy).map_err(|e| format!("copy: {}", e))?;
    let manifest = root.join(format!("manifest{}_{}.json", idx, k));
    let committed = sh.committed.lock().unwrap().clone();
    let n = committed.len();
    std::fs::write(&manifest, serde_json::to_string(&json!({"committed": committed})).unwrap()).map_err(|e| e.to_string())?;
    sh.snaps.lock().unwrap().push(json!({"dir": copy, "manifest": manifest, "at": tag, "committed_rows": n}));
    Ok(())
}

fn run_round(idx: u64, seed: u64, nofat: bool, scratch: &Scratch) -> Result<J, String> {
    let plan = plan_round(seed, nofat);
    let dir = scratch.dir(&format!("live{}", idx));
    let db = match catch(|| Database::create(&dir)) {
        Ok(Ok(d)) => d,
        Ok(Err(e)) => return Err(format!("create: {:#}", e)),
        Err(p) => return Err(format!("create panicked: {}", p)),
    };
    exec(&db, "PRAGMA wal = ON").map_err(|e| format!("PRAGMA wal = ON: {}", e))?;
    for t in TABLES {
        exec(&db, &format!("CREATE TABLE {} (id INT PRIMARY KEY, s TEXT, k TEXT, big TEXT)", t))?;
        exec(&db, &format!("CREATE INDEX {}_k ON {} (k)", t, t))?;
    }
    let n = plan.threads;
    let sh = Arc::new(Shared {
        gate: std::sync::RwLock::new(()),
        committed: Mutex::new(vec![]),
        inflight: (0..8).map(|_| AtomicBool::new(false)).collect(),
        in_window: (0..8).map(|_| AtomicBool::new(false)).collect(),
        overlap: AtomicU64::new(0),
        commits_done: AtomicU64::new(0),
        overtaken: AtomicU64::new(0),
        hook_log: Mutex::new(vec![]),
        tail: Mutex::new(WalTail::default()),
        snaps: Mutex::new(vec![]),
        mid_snaps: AtomicU64::new(0),
    });
    exec(&db, "BEGIN")?;
    for r in &plan.preload {
        exec(&db, &insert_sql(r))?;
    }
    exec(&db, "COMMIT")?;
    for r in &plan.preload {
        sh.committed.lock().unwrap().push(json!({"tab": r.tab, "id": r.id, "stamp": r.stamp, "big_len": r.big_len, "thread": -1}));
    }
    if plan.mode != "no_hook" {
        let sh = sh.clone();
        let mode = plan.mode;
        turdb::verif::set_yield_hook(Some(Arc::new(move |name: &'static str| {
            let tid = TID.with(|t| t.get());
            if tid == 99 {
                return;
            }
            sh.hook_log.lock().unwrap().push((tid, name));
            if name == "commit.after_capture" {
                CAPTURES.with(|c| c.set(c.get() + 1));
                sh.in_window[tid].store(true, Ordering::SeqCst);
                if sh.in_window.iter().enumerate().any(|(i, w)| i != tid && w.load(Ordering::SeqCst)) {
                    sh.overlap.fetch_add(1, Ordering::SeqCst);
                }
            }
            HRNG.with(|r| {
                let mut g = r.borrow_mut();
                let Some(rng) = g.as_mut() else { return };
                match (mode, name) {
                    ("hold_after_capture", "commit.after_capture") => {
                        if rng.chance(2, 3) {
                            // let somebody else complete a whole commit that starts after this capture
                            let c0 = sh.commits_done.load(Ordering::SeqCst);
                            let need = 1 + rng.below(2);
                            let t0 = Instant::now();
                            let limit = Duration::from_millis(2 + rng.below(40));
                            while t0.elapsed() < limit {
                                if sh.commits_done.load(Ordering::SeqCst) >= c0 + need {
                                    sh.overtaken.fetch_add(1, Ordering::SeqCst);
                                    OVERTAKEN.with(|o| o.set(true));
                                    break;
                                }
                                std::thread::sleep(Duration::from_micros(100));
                            }
                        }
                    }
                    ("fat_hold_after_log", "commit.after_log") => {
                        // this committer still owns the page buffers of the batch it wrote: wait for another
                        // thread to enter COMMIT, then a little longer
                        let t0 = Instant::now();
                        while t0.elapsed() < Duration::from_millis(150) {
                            if sh.inflight.iter().enumerate().any(|(i, f)| i != tid && f.load(Ordering::SeqCst)) {
                                break;
                            }
                            std::thread::sleep(Duration::from_micros(200));
                        }
                        std::thread::sleep(Duration::from_millis(5 + rng.below(30)));
                    }
                    ("hold_after_capture", _) | ("fat_hold_after_log", _) | ("random_yield", _) => match rng.below(6) {
                        0 | 1 => {}
                        2 => std::thread::yield_now(),
                        3 | 4 => std::thread::sleep(Duration::from_micros(1 + rng.below(300))),
                        _ => std::thread::sleep(Duration::from_micros(300 + rng.below(3000))),
                    },
                    _ => {}
                }
            });
        })));
    }
    let wal_dir = dir.join("wal");
    let barrier = Arc::new(std::sync::Barrier::new(n));
    let mut joins = vec![];
    for tid in 0..n {
        let h = db.clone();
        let txns = plan.plans[tid].clone();
        let barrier = barrier.clone();
        let sh = sh.clone();
        let wal_dir = wal_dir.clone();
        let live = dir.clone();
        let root = scratch.root.clone();
        let tseed = seed.wrapping_mul(131).wrapping_add(tid as u64);
        joins.push(std::thread::spawn(move || {
            TID.with(|t| t.set(tid));
            HRNG.with(|r| *r.borrow_mut() = Some(Rng::derive(tseed, 3838)));
            let mut lrng = Rng::derive(tseed, 3839);
            let mut failed: Vec<J> = vec![];
            let mut cover: Vec<J> = vec![];
            let mut commits = 0u64;
            let gexec = |sql: &str, committing: bool| -> Result<ExecuteResult, String> {
                let _g = sh.gate.read().unwrap();
                if committing {
                    sh.inflight[tid].store(true, Ordering::SeqCst);
                }
                let r = exec(&h, sql);
                r
            };
            barrier.wait();
            for (x, t) in txns.iter().enumerate() {
                let cap0 = CAPTURES.with(|c| c.get());
                OVERTAKEN.with(|o| o.set(false));
                let mut err: Option<String> = None;
                if t.explicit {
                    if let Err(e) = gexec("BEGIN", false) {
                        err = Some(format!("BEGIN: {}", e));
                    }
                }
                if err.is_none() {
                    for r in &t.rows {
                        if let Err(e) = gexec(&insert_sql(r), !t.explicit) {
                            err = Some(format!("INSERT: {}", e.chars().take(200).collect::<String>()));
                            break;
                        }
                    }
                }
                if t.explicit {
                    if err.is_none() {
                        if let Err(e) = gexec("COMMIT", true) {
                            err = Some(format!("COMMIT: {}", e));
                            let _ = gexec("ROLLBACK", false);
                        }
                    } else {
                        let _ = gexec("ROLLBACK", false);
                    }
                }
                // who else is inside a commit right now (they may own page images that are not written yet)
                let others_inflight = sh.inflight.iter().enumerate().any(|(i, f)| i != tid && f.load(Ordering::SeqCst));
                sh.inflight[tid].store(false, Ordering::SeqCst);
                sh.in_window[tid].store(false, Ordering::SeqCst);
                sh.commits_done.fetch_add(1, Ordering::SeqCst);
                commits += 1;
                let captured = CAPTURES.with(|c| c.get()) > cap0;
                match err {
                    None => {
                        // the commit returned Ok: its pages must be in the log file now
                        {
                            let mut tl = sh.tail.lock().unwrap();
                            tl.scan(&wal_dir);
                            for r in &t.rows {
                                let mut missing = vec![];
                                if !tl.row.contains(&r.stamp) {
                                    missing.push("table");
                                }
                                if r.big_len >= 1200 && !tl.toast.contains(&r.stamp) {
                                    missing.push("toast");
                                }
                                if !tl.index.contains(&r.stamp) {
                                    missing.push("index");
                                }
                                for m in missing {
                                    cover.push(json!({"kind": m, "stamp": r.stamp, "explicit": t.explicit, "this_commit_captured_pages": captured, "another_commit_in_flight": others_inflight, "txn": x}));
                                }
                            }
                        }
                        let mut c = sh.committed.lock().unwrap();
                        for r in &t.rows {
                            c.push(json!({"tab": r.tab, "id": r.id, "stamp": r.stamp, "big_len": r.big_len, "thread": tid}));
                        }
                    }
                    Some(e) => failed.push(json!({"thread": tid, "txn": x, "error": e, "stamps": t.rows.iter().map(|r| r.stamp.clone()).collect::<Vec<_>>()})),
                }
                // a committer that was overtaken between capture and submission has just written an older
                // image after a newer one: crash now (between statements)
                if OVERTAKEN.with(|o| o.get()) && sh.mid_snaps.fetch_add(1, Ordering::SeqCst) < 2 {
                    let _w = sh.gate.write().unwrap();
                    let _ = snapshot(&sh, &live, &root, idx, "after_overtaken_commit");
                }
                if lrng.chance(1, 3) {
                    std::thread::sleep(Duration::from_micros(lrng.below(400)));
                }
            }
            (failed, cover, commits)
        }));
    }
    let mut failed: Vec<J> = vec![];
    let mut cover: Vec<J> = vec![];
    let mut commits = 0;
    for j in joins {
        match j.join() {
            Ok((f, c, k)) => {
                failed.extend(f);
                cover.extend(c);
                commits += k;
            }
            Err(_) => {
                turdb::verif::set_yield_hook(None);
                return Err("committer thread panicked outside a statement".into());
            }
        }
    }
    turdb::verif::set_yield_hook(None);
    // crash: copy the directory as it is while every handle is still open, then leak the handle
    snapshot(&sh, &dir, &scratch.root, idx, "end_of_round")?;
    std::mem::forget(db);
    let _ = std::fs::remove_dir_all(&dir);
    let hl = sh.hook_log.lock().unwrap().clone();
    let fp = fnv(format!("{}|{:?}", n, hl).as_bytes());
    let frames = sh.tail.lock().unwrap().frames;
    let committed_rows = sh.committed.lock().unwrap().len();
    let snaps = sh.snaps.lock().unwrap().clone();
    Ok(json!({
        "case": idx, "threads": n, "mode": plan.mode, "fat": plan.fat, "snapshots": snaps, "commits": commits, "committed_rows": committed_rows,
        "failed": failed, "coverage": cover, "fp": fp, "hook_events": hl.len(), "commit_window_overlaps": sh.overlap.load(Ordering::SeqCst), "held_and_overtaken": sh.overtaken.load(Ordering::SeqCst),
        "frames_seen_by_tail": frames, "seed": seed,
    }))
}

fn emit(v: J) {
    let out = std::io::stdout();
    let mut l = out.lock();
    let _ = writeln!(l, "{}", v);
    let _ = l.flush();
}

fn round_seed(seed: u64, idx: u64) -> u64 {
    seed.wrapping_mul(0x9E37_79B9).wrapping_add(idx.wrapping_mul(7919)).wrapping_add(38)
}

/// `tv C38 --tier T --seed S worker <start> <budget s> <fat|nofat> [only]`
fn worker_main(a: &Args) -> i32 {
    let start: u64 = a.rest.get(1).and_then(|s| s.parse().ok()).unwrap_or(0);
    let budget: f64 = a.rest.get(2).and_then(|s| s.parse().ok()).unwrap_or(10.0);
    let nofat = a.rest.get(3).map(|s| s == "nofat").unwrap_or(false);
    let only = a.rest.get(4).map(|s| s == "only").unwrap_or(false);
    let stride: u64 = a.rest.get(5).and_then(|s| s.parse().ok()).unwrap_or(1).max(1);
    let t0 = Instant::now();
    // the directory must outlive this process: the supervisor judges the copies and removes them
    let scratch = Scratch::new("c38w");
    let mut idx = start;
    loop {
        if t0.elapsed().as_secs_f64() > budget && !only {
            break;
        }
        emit(json!({"start": idx}));
        match run_round(idx, round_seed(a.seed, idx), nofat, &scratch) {
            Ok(v) => emit(v),
            Err(e) => emit(json!({"case": idx, "setup_error": e})),
        }
        idx += stride;
        if only {
            break;
        }
    }
    emit(json!({"done": true, "next": idx}));
    // no destructors: the leaked handles must not checkpoint, the copies stay for the judge
    std::mem::forget(scratch);
    0
}

// ------------------------------------------------------------------------------------------------ judge

/// `tv C38 judge <dir> <manifest>`: frame-level check of the copied WAL, then recovery + row lookups
fn judge_main(a: &Args) -> i32 {
    let dir = PathBuf::from(&a.rest[1]);
    let manifest: J = std::fs::read_to_string(&a.rest[2]).ok().and_then(|s| serde_json::from_str(&s).ok()).unwrap_or(J::Null);
    let committed: Vec<J> = manifest["committed"].as_array().cloned().unwrap_or_default();
    let committed_stamps: HashSet<String> = committed.iter().filter_map(|r| r["stamp"].as_str().map(|s| s.to_string())).collect();
    let mut out = serde_json::Map::new();

    // 1. table ids of the .tbd files (frames carry the table id as file id)
    let mut file_of: HashMap<u64, PathBuf> = HashMap::new();
    let root = dir.join("root");
    if let Ok(rd) = std::fs::read_dir(&root) {
        for e in rd.flatten() {
            let p = e.path();
            if p.extension().map(|x| x == "tbd").unwrap_or(false) {
                let mut hdr = vec![0u8; 128];
                if std::fs::File::open(&p).and_then(|mut f| f.read_exact(&mut hdr)).is_ok() {
                    if let Ok(Ok(h)) = catch(|| turdb::storage::TableFileHeader::from_bytes(&hdr).map(|h| h.table_id())) {
                        file_of.insert(h, p.clone());
                    }
                }
            }
        }
    }
    let kind_of = |p: &Path| -> &'static str {
        let n = p.file_name().map(|n| n.to_string_lossy().to_string()).unwrap_or_default();
        if n.contains("toast") {
            "toast"
        } else {
            "table"
        }
    };
    // 2. frames, in log order
    struct Fr {
        marks: Marks,
        leaf: bool,
        hash: u64,
    }
    let mut per_page: BTreeMap<(u64, u32), Vec<Fr>> = BTreeMap::new();
    let mut nframes = 0u64;
    let mut unattributed = 0u64;
    let mut index_like_frames = 0u64;
    let mut wal_files: Vec<PathBuf> = std::fs::read_dir(dir.join("wal")).map(|rd| rd.flatten().map(|e| e.path()).collect()).unwrap_or_default();
    wal_files.sort();
    for (i, wf) in wal_files.iter().enumerate() {
        let seg = catch(|| turdb::storage::WalSegment::open(wf, i as u64 + 1));
        let Ok(Ok(mut seg)) = seg else { continue };
        loop {
            match catch(|| seg.read_frame()) {
                Ok(Ok((h, data))) => {
                    nframes += 1;
                    if !h.is_redo_frame() {
                        continue;
                    }
                    let fid = h.actual_file_id();
                    if !file_of.contains_key(&fid) {
                        unattributed += 1;
                    }
                    let (marks, leaf) = marks_of_page(&data);
                    if marks.key.iter().any(|k| !marks.row.contains(k)) {
                        index_like_frames += 1;
                    }
                    per_page.entry((fid, h.page_no)).or_default().push(Fr { marks, leaf, hash: fnv(&data) });
                }
                _ => break,
            }
        }
    }
    out.insert("frames".into(), json!(nframes));
    out.insert("pages_in_wal".into(), json!(per_page.len()));
    out.insert("frames_for_unknown_files".into(), json!(unattributed));
    out.insert("index_like_frames".into(), json!(index_like_frames));
    // 3. last frame against the live page of the copy (every transaction has committed, nothing is in flight:
    //    the live page IS the most recent committed version)
    let mut regress: Vec<J> = vec![];
    let mut differs = 0u64;
    let mut pages_multi = 0u64;
    for ((fid, page_no), frames) in &per_page {
        let Some(path) = file_of.get(fid) else { continue };
        if frames.len() > 1 {
            pages_multi += 1;
        }
        let mut live = vec![0u8; PAGE];
        let ok = std::fs::File::open(path).and_then(|mut f| {
            f.seek(SeekFrom::Start(*page_no as u64 * PAGE as u64))?;
            f.read_exact(&mut live)
        });
        if ok.is_err() {
            continue;
        }
        let last = frames.last().unwrap();
        if fnv(&live) == last.hash {
            continue;
        }
        differs += 1;
        let (lm, _) = marks_of_page(&live);
        let kind = kind_of(path);
        // per stamp: number of cells carrying it (a TOAST value spans several chunks = several cells)
        let pick = |m: &Marks| -> HashMap<String, u32> { if kind == "toast" { m.big_n.clone() } else { m.row.iter().map(|s| (s.clone(), 1)).collect() } };
        let live_set = pick(&lm);
        let last_set = pick(&last.marks);
        // committed stamps the live page has and the page image that recovery will install has not
        let lost: Vec<String> = live_set.iter().filter(|(s, n)| committed_stamps.contains(*s) && last_set.get(*s).copied().unwrap_or(0) < **n).map(|(s, _)| s.clone()).collect();
        if lost.is_empty() {
            continue;
        }
        let mut in_earlier = 0;
        let mut newest_earlier: Option<usize> = None;
        for s in &lost {
            let need = live_set[s];
            if let Some(pos) = frames[..frames.len() - 1].iter().rposition(|f| pick(&f.marks).get(s).copied().unwrap_or(0) >= need) {
                in_earlier += 1;
                newest_earlier = Some(newest_earlier.map(|p| p.max(pos)).unwrap_or(pos));
            }
        }
        regress.push(json!({"kind": kind, "file": path.file_name().map(|n| n.to_string_lossy().to_string()), "page": page_no, "frames_of_page": frames.len(), "lost_committed_stamps": lost.len(), "lost_present_in_an_earlier_frame": in_earlier,
            "earlier_newer_frame_index": newest_earlier, "example": lost.iter().take(3).collect::<Vec<_>>(), "leaf": last.leaf}));
    }
    out.insert("pages_whose_last_frame_differs_from_live".into(), json!(differs));
    out.insert("pages_with_several_frames".into(), json!(pages_multi));
    out.insert("regressions".into(), json!(regress));
    // 4. the files as they are, WITHOUT the log (what the tables hold before replay): rows that are unreachable here
    //    were lost by the concurrent statements themselves, not by the log
    let nowal = PathBuf::from(format!("{}.nowal", dir.display()));
    let _ = std::fs::remove_dir_all(&nowal);
    let mut before: Option<Lookup> = None;
    if copy_dir(&dir, &nowal).is_ok() {
        let _ = std::fs::remove_dir_all(nowal.join("wal"));
        before = Some(lookup_all(&nowal, &committed));
        let _ = std::fs::remove_dir_all(&nowal);
    }
    // 5. open the copy (recovery) and look for every committed row
    let after = lookup_all(&dir, &committed);
    if let Some(e) = &after.open_error {
        out.insert("open_error".into(), json!(e));
    }
    let empty = Lookup::default();
    let b = before.as_ref().unwrap_or(&empty);
    let mut lost_by_replay: BTreeMap<&'static str, Vec<String>> = BTreeMap::new();
    let mut missing_before: BTreeMap<&'static str, Vec<String>> = BTreeMap::new();
    for (path, xs) in &after.missing {
        for x in xs {
            if b.open_error.is_none() && before.is_some() && !b.missing.get(path).map(|v| v.contains(x)).unwrap_or(false) {
                lost_by_replay.entry(path).or_default().push(x.clone());
            }
        }
    }
    for (path, xs) in &b.missing {
        missing_before.entry(path).or_default().extend(xs.iter().cloned());
    }
    out.insert("missing".into(), json!(lost_by_replay));
    out.insert("missing_before_replay".into(), json!(missing_before));
    out.insert("before_replay_open_error".into(), json!(b.open_error));
    out.insert("query_errors".into(), json!(after.errors));
    out.insert("query_errors_before_replay".into(), json!(b.errors));
    out.insert("plans".into(), json!(after.plans));
    println!("{}", J::Object(out));
    0
}

#[derive(Default)]
struct Lookup {
    open_error: Option<String>,
    missing: BTreeMap<&'static str, Vec<String>>,
    errors: BTreeMap<String, u64>,
    plans: BTreeMap<String, String>,
}

/// open `dir` and look for every committed row by full scan, PK lookup, secondary index lookup; big values by PK
fn lookup_all(dir: &Path, committed: &[J]) -> Lookup {
    let mut l = Lookup::default();
    let db = match catch(|| Database::open(dir)) {
        Ok(Ok(d)) => d,
        Ok(Err(e)) => {
            l.open_error = Some(format!("{:#}", e));
            return l;
        }
        Err(p) => {
            l.open_error = Some(format!("PANIC: {}", p));
            return l;
        }
    };
    let text = |v: &OwnedValue| -> Option<String> {
        match v {
            OwnedValue::Text(s) => Some(s.clone()),
            _ => None,
        }
    };
    let cls = |e: &str| -> String { e.split(|c: char| !c.is_ascii_alphabetic()).filter(|w| !w.is_empty()).take(6).collect::<Vec<_>>().join("_").to_lowercase() };
    for (ti, t) in TABLES.iter().enumerate() {
        let rows_of_tab: Vec<&J> = committed.iter().filter(|r| r["tab"].as_u64() == Some(ti as u64)).collect();
        // full scan (without the big column: one unreadable TOAST value must not hide every other row)
        let mut scan: HashMap<i64, String> = HashMap::new();
        match exec(&db, &format!("SELECT id, s, k FROM {}", t)) {
            Ok(ExecuteResult::Select { rows, .. }) => {
                for r in rows {
                    if let Some(OwnedValue::Int(id)) = r.values.first() {
                        scan.insert(*id, r.values.get(1).and_then(text).unwrap_or_default());
                    }
                }
            }
            Ok(_) => {}
            Err(e) => {
                *l.errors.entry(format!("scan {}: {}", t, cls(&e))).or_insert(0) += 1;
            }
        }
        for (q, name) in [(format!("SELECT id FROM {} WHERE id = 1", t), "pk"), (format!("SELECT id FROM {} WHERE k = '((x))'", t), "index")] {
            if let Ok(ExecuteResult::Explain { plan }) = exec(&db, &format!("EXPLAIN {}", q)) {
                l.plans.insert(format!("{}:{}", t, name), plan.chars().take(300).collect());
            }
        }
        for r in rows_of_tab {
            let id = r["id"].as_i64().unwrap_or(0);
            let stamp = r["stamp"].as_str().unwrap_or("").to_string();
            let big_len = r["big_len"].as_u64().unwrap_or(0) as usize;
            let want_s = format!("<<{}>>", stamp);
            if scan.get(&id) != Some(&want_s) {
                l.missing.entry("scan").or_default().push(stamp.clone());
            }
            let mut pk_found = false;
            match exec(&db, &format!("SELECT id, s FROM {} WHERE id = {}", t, id)) {
                Ok(ExecuteResult::Select { rows, .. }) => {
                    pk_found = rows.iter().any(|r| r.values.get(1).and_then(text).as_deref() == Some(want_s.as_str()));
                    if !pk_found {
                        l.missing.entry("pk").or_default().push(stamp.clone());
                    }
                }
                Ok(_) => {}
                Err(e) => {
                    *l.errors.entry(format!("pk {}: {}", t, cls(&e))).or_insert(0) += 1;
                    l.missing.entry("pk").or_default().push(stamp.clone());
                }
            }
            match exec(&db, &format!("SELECT id, s FROM {} WHERE k = '(({}))'", t, stamp)) {
                Ok(ExecuteResult::Select { rows, .. }) => {
                    if !rows.iter().any(|r| r.values.get(1).and_then(text).as_deref() == Some(want_s.as_str())) {
                        l.missing.entry("index").or_default().push(stamp.clone());
                    }
                }
                Ok(_) => {}
                Err(e) => {
                    *l.errors.entry(format!("index {}: {}", t, cls(&e))).or_insert(0) += 1;
                    l.missing.entry("index").or_default().push(stamp.clone());
                }
            }
            // the TOASTed value (only where the row itself is reachable: a missing row is reported once)
            if big_len >= 1200 && pk_found {
                match exec(&db, &format!("SELECT big FROM {} WHERE id = {}", t, id)) {
                    Ok(ExecuteResult::Select { rows, .. }) => {
                        if rows.first().and_then(|r| r.values.first()).and_then(text).as_deref() != Some(big_body(&stamp, big_len).as_str()) {
                            l.missing.entry("toast").or_default().push(stamp.clone());
                        }
                    }
                    Ok(_) => {}
                    Err(e) => {
                        *l.errors.entry(format!("toast {}: {}", t, cls(&e))).or_insert(0) += 1;
                        l.missing.entry("toast").or_default().push(stamp.clone());
                    }
                }
            }
        }
    }
    // no Drop (no checkpoint of the image)
    std::mem::forget(db);
    l
}

fn judge(a: &Args, dir: &str, manifest: &str) -> J {
    let exe = std::env::current_exe().unwrap();
    let mut cmd = std::process::Command::new(exe);
    cmd.arg("C38").arg("--tier").arg(&a.tier).arg("--seed").arg(a.seed.to_string()).arg("judge").arg(dir).arg(manifest);
    cmd.env("RUST_BACKTRACE", "0");
    let mut child = match cmd.stdout(std::process::Stdio::piped()).stderr(std::process::Stdio::null()).spawn() {
        Ok(c) => c,
        Err(e) => return json!({"harness_error": e.to_string()}),
    };
    let mut stdout = child.stdout.take().unwrap();
    let (tx, rx) = std::sync::mpsc::channel();
    std::thread::spawn(move || {
        let mut s = String::new();
        let _ = stdout.read_to_string(&mut s);
        let _ = tx.send(s);
    });
    match rx.recv_timeout(Duration::from_secs(90)) {
        Ok(s) => {
            let st = child.wait();
            match st {
                Ok(st) if st.success() => serde_json::from_str(s.lines().last().unwrap_or("{}")).unwrap_or(json!({"harness_error": "bad judge output"})),
                Ok(st) => json!({"abort": format!("{:?}", st)}),
                Err(e) => json!({"harness_error": e.to_string()}),
            }
        }
        Err(_) => {
            let _ = child.kill();
            let _ = child.wait();
            json!({"hang": true})
        }
    }
}

// ------------------------------------------------------------------------------------------------ supervisor

pub fn run(a: &Args) -> i32 {
    if cfg!(miri) {
        // Database needs mmap'ed files and the drivers need worker subprocesses: neither exists under Miri
        println!("INCONCLUSIVE property=C38 reason=not runnable under Miri (mmap, subprocesses)");
        return 2;
    }
    match a.rest.first().map(|s| s.as_str()) {
        Some("worker") => return worker_main(a),
        Some("judge") => return judge_main(a),
        Some("sqlopen") => {
            // debugging aid: open an existing directory and run statements
            let db = Database::open(&a.rest[1]).expect("open");
            for q in &a.rest[2..] {
                println!("> {}", q);
                match exec(&db, q) {
                    Ok(ExecuteResult::Select { rows, .. }) => {
                        for r in rows {
                            println!("  {}", format!("{:?}", r.values).chars().take(200).collect::<String>());
                        }
                    }
                    Ok(o) => println!("  {}", format!("{:?}", o).chars().take(200).collect::<String>()),
                    Err(e) => println!("  ERR {}", e),
                }
            }
            std::mem::forget(db);
            return 0;
        }
        _ => {}
    }
    let mut ctx = Ctx::new(
        "C38",
        &a.tier,
        a.seed,
        "exploration",
        "rounds of 2-6 threads on cloned handles, PRAGMA wal=ON (synchronous FULL): each thread commits explicit transactions (1-4 inserts) and autocommit inserts of uniquely stamped rows into the same two tables (small rows sharing leaf pages, an indexed text column, a big column of 0-60 KB that is TOASTed above 1000 bytes); yield hook modes: hold a committer between page-image capture and queue submission until another thread completed a commit; hold between log write and storage sync with many-page transactions; random yields; none. At every COMMIT/autocommit return the log files on disk are read: commit_covered_by_log per page kind. Crash images (directory copied with all handles open and no statement in flight = process kill between statements) are taken right after a committer that was overtaken in the capture..submit window returns, and at the end of the round; a judge subprocess checks no_page_regression on each (per (file,page): committed stamps of the live page that the LAST frame of the page lacks; 'earlier frame newer' if an earlier frame has them) and, after opening the copy (recovery), every_committed_row_present by full scan, PK lookup, secondary index lookup and TOAST content. distinct_nontrivial = distinct yield-hook event orders of rounds in which >= 2 threads were inside the capture..return window at the same time",
    );
    let quick = ctx.quick();
    // a round normally takes 1-3 s; (round limit, limit of the solitary re-run)
    let (budget, stall, alone) = if quick { (55.0, 10u64, 15u64) } else { (560.0, 30u64, 60u64) };
    let t0 = Instant::now();
    // the rounds are bound by fsync latency, not CPU: LANES supervisors, lane i runs rounds i, i+LANES, ...
    const LANES: u64 = 3;
    struct State {
        ctx: Ctx,
        fps: BTreeSet<u64>,
        sig_examples: BTreeMap<String, J>,
        plans_seen: BTreeMap<String, String>,
    }
    let st = Mutex::new(State { ctx, fps: BTreeSet::new(), sig_examples: BTreeMap::new(), plans_seen: BTreeMap::new() });
    let nofat = AtomicBool::new(false);
    let stuck_confirmed = AtomicBool::new(false);
    std::thread::scope(|scope| {
        for lane in 0..LANES {
            let st = &st;
            let nofat = &nofat;
            let stuck_confirmed = &stuck_confirmed;
            scope.spawn(move || {
                let mut start_idx = lane;
                let mut restarts = 0;
                loop {
                    let remaining = budget - t0.elapsed().as_secs_f64();
                    if remaining < 3.0 || restarts > if quick { 6 } else { 80 } {
                        break;
                    }
                    let nf = nofat.load(Ordering::SeqCst);
                    // leave room for one watchdog expiry plus its solitary re-run at the end of the budget
                    let worker_budget = remaining - if stuck_confirmed.load(Ordering::SeqCst) { stall.min(8) as f64 + 1.0 } else { (stall + alone) as f64 + 1.0 };
                    if worker_budget < 2.0 {
                        break;
                    }
                    let fat_arg = if nf { "nofat".to_string() } else { "fat".to_string() };
                    let args = vec![start_idx.to_string(), format!("{:.1}", worker_budget), fat_arg.clone(), "all".to_string(), LANES.to_string()];
                    // once the deadlock is confirmed a silent round is cut short sooner (it costs a restart, not a report)
                    let limit = if stuck_confirmed.load(Ordering::SeqCst) { stall.min(8) } else { stall };
                    let outcome = supervise("C38", &a.tier, a.seed, &args, Duration::from_secs(limit), &mut |v: &J| {
                        if v.get("case").is_none() {
                            return;
                        }
                        if let Some(e) = v.get("setup_error").and_then(|e| e.as_str()) {
                            st.lock().unwrap().ctx.violation("setup", "C38/setup_failed", json!({"error": e, "round": v["case"]}));
                            return;
                        }
                        // judge outside the lock, book under the lock
                        let judged = judge_snapshots(a, v);
                        let mut g = st.lock().unwrap();
                        let State { ctx, fps, sig_examples, plans_seen } = &mut *g;
                        handle_round(ctx, a, v, &judged, nf, fps, sig_examples, plans_seen);
                    });
                    match outcome {
                        Outcome::Finished => break,
                        Outcome::Stalled(idx) | Outcome::Died(_, idx) => {
                            let died = if let Outcome::Died(s, _) = &outcome { Some(s.clone()) } else { None };
                            restarts += 1;
                            let Some(idx) = idx else {
                                st.lock().unwrap().ctx.inconclusive(&format!("worker failed before announcing a round: {:?}", died));
                                break;
                            };
                            st.lock().unwrap().ctx.count("rounds_not_finished_in_time_or_worker_death", 1);
                            start_idx = idx + LANES;
                            if stuck_confirmed.load(Ordering::SeqCst) && died.is_none() {
                                st.lock().unwrap().ctx.count("further_silent_rounds_after_confirmed_deadlock", 1);
                                continue;
                            }
                            if budget - t0.elapsed().as_secs_f64() < alone as f64 + 1.0 {
                                st.lock().unwrap().ctx.count("silent_rounds_not_rerun_for_lack_of_time", 1);
                                break;
                            }
                            let plan = plan_round(round_seed(a.seed, idx), nf);
                            let args = vec![idx.to_string(), "0".to_string(), fat_arg.clone(), "only".to_string()];
                            let mut second: Option<J> = None;
                            let again = supervise("C38", &a.tier, a.seed, &args, Duration::from_secs(alone), &mut |v: &J| {
                                if v.get("case").is_some() {
                                    second = Some(v.clone());
                                }
                            });
                            let judged = match (&again, &second) {
                                (Outcome::Finished, Some(v)) if v.get("setup_error").is_none() => Some(judge_snapshots(a, v)),
                                _ => None,
                            };
                            let mut g = st.lock().unwrap();
                            let State { ctx, fps, sig_examples, plans_seen } = &mut *g;
                            match (&again, &died) {
                                (Outcome::Stalled(_), _) => {
                                    ctx.violation(
                                        "progress",
                                        "C38/progress/committers_stuck",
                                        json!({"round": idx, "round_seed": round_seed(a.seed, idx), "threads": plan.threads, "mode": plan.mode, "replay": format!("tv C38 --tier {} --seed {} worker {} 0 {} only", a.tier, a.seed, idx, fat_arg),
                                            "why": format!("the round did not finish within {} s, and again not within {} s when re-run alone (a round normally takes 1-3 s)", limit, alone)}),
                                    );
                                    // the deadlock is established: spend the rest of the budget on the other assertions
                                    stuck_confirmed.store(true, Ordering::SeqCst);
                                    nofat.store(true, Ordering::SeqCst);
                                }
                                (Outcome::Died(s2, _), _) => {
                                    ctx.violation("no_crash", "C38/process_death", json!({"round": idx, "status": s2, "first_status": died, "threads": plan.threads, "mode": plan.mode}));
                                }
                                (Outcome::Finished, Some(s)) => {
                                    ctx.count("worker_deaths_not_reproduced", 1);
                                    ctx.extra.insert("last_unreproduced_death".into(), json!({"round": idx, "status": s}));
                                }
                                (Outcome::Finished, None) => {
                                    ctx.count("stalls_not_reproduced", 1);
                                    ctx.extra.insert("last_unreproduced_stall".into(), json!({"round": idx, "threads": plan.threads, "mode": plan.mode}));
                                }
                            }
                            if let (Some(j), Some(v)) = (&judged, &second) {
                                handle_round(ctx, a, v, j, nf, fps, sig_examples, plans_seen);
                            }
                        }
                    }
                }
            });
        }
    });
    let State { mut ctx, fps, sig_examples, plans_seen } = st.into_inner().unwrap();
    cleanup_worker_scratch("c38w");
    ctx.count("distinct_hook_event_orders", fps.len() as u64);
    ctx.extra.insert("first_example_per_signature".into(), json!(sig_examples));
    ctx.extra.insert("judge_query_plans".into(), json!(plans_seen));
    ctx.assumptions.push("only rows whose COMMIT (or autocommit INSERT) returned Ok before the crash image was taken are required; rows of failed statements are ignored; the crash image is the process-kill image between statements (files as the kernel has them), so the mmap'ed table files already hold every write and only log replay can take rows away; Database::open twice on one directory is not exercised (no lock file, no shared state between the two instances: unsupported)".into());
    ctx.finish()
}

/// run the judge subprocess on every crash image of a round (and remove the images)
fn judge_snapshots(a: &Args, v: &J) -> Vec<(J, J)> {
    let mut out = vec![];
    for snap in v["snapshots"].as_array().cloned().unwrap_or_default() {
        let (Some(dir), Some(man)) = (snap["dir"].as_str(), snap["manifest"].as_str()) else { continue };
        let j = judge(a, dir, man);
        let _ = std::fs::remove_dir_all(dir);
        let _ = std::fs::remove_dir_all(format!("{}.nowal", dir));
        let _ = std::fs::remove_file(man);
        out.push((snap.clone(), j));
    }
    out
}

fn handle_round(ctx: &mut Ctx, a: &Args, v: &J, judged: &[(J, J)], nofat: bool, fps: &mut BTreeSet<u64>, sig_examples: &mut BTreeMap<String, J>, plans_seen: &mut BTreeMap<String, String>) {
    let threads = v["threads"].as_u64().unwrap_or(0);
    let mode = v["mode"].as_str().unwrap_or("?").to_string();
    ctx.eval();
    ctx.count("rounds", 1);
    ctx.count(&format!("rounds_mode_{}", mode), 1);
    ctx.count(&format!("rounds_threads_{}", threads), 1);
    ctx.count("commits", v["commits"].as_u64().unwrap_or(0));
    ctx.count("committed_rows", v["committed_rows"].as_u64().unwrap_or(0));
    ctx.count("hook_events", v["hook_events"].as_u64().unwrap_or(0));
    ctx.count("held_committers_overtaken_by_a_complete_commit", v["held_and_overtaken"].as_u64().unwrap_or(0));
    let overl = v["commit_window_overlaps"].as_u64().unwrap_or(0);
    if overl > 0 {
        ctx.count("rounds_with_two_threads_in_commit_window", 1);
        ctx.nontrivial(v["fp"].as_u64().unwrap_or(0));
    }
    fps.insert(v["fp"].as_u64().unwrap_or(0));
    let base = json!({"round": v["case"], "round_seed": v["seed"], "threads": threads, "mode": mode, "replay": format!("tv C38 --tier {} --seed {} worker {} 0 {} only", a.tier, a.seed, v["case"], if nofat { "nofat" } else { "fat" })});
    let mut report = |ctx: &mut Ctx, assertion: &str, sig: String, mut detail: J| {
        if let Some(o) = detail.as_object_mut() {
            o.insert("round".into(), base.clone());
        }
        sig_examples.entry(sig.clone()).or_insert_with(|| detail.clone());
        ctx.violation(assertion, &sig, detail);
    };
    if let Some(f) = v["failed"].as_array() {
        ctx.count("failed_transactions", f.len() as u64);
        for x in f {
            let e = x["error"].as_str().unwrap_or("");
            if e.contains("PANIC: ") {
                let site = crate::report::panic_site(e);
                report(ctx, "no_panic", format!("C38/panic/{}", site.rsplit('/').next().unwrap_or("")), json!({"error": e}));
            } else {
                let class: String = e.split(|c: char| !c.is_ascii_alphabetic()).filter(|w| !w.is_empty()).take(6).collect::<Vec<_>>().join("_").to_lowercase();
                ctx.count(&format!("failed_txn:{}", class), 1);
            }
        }
    }
    // coverage at commit return
    if let Some(c) = v["coverage"].as_array() {
        let mut per: BTreeMap<String, Vec<&J>> = BTreeMap::new();
        for x in c {
            let kind = x["kind"].as_str().unwrap_or("?");
            let cause = if kind == "index" {
                "never_logged"
            } else if x["another_commit_in_flight"].as_bool().unwrap_or(false) {
                // the shared dirty-page set was drained by a concurrent committer that has captured the page
                // image (with this transaction's rows) but not written it yet
                "image_held_by_concurrent_committer"
            } else {
                "ack_before_write"
            };
            per.entry(format!("{}.{}", kind, cause)).or_default().push(x);
        }
        for (k, xs) in per {
            ctx.count(&format!("uncovered_at_commit_return:{}", k), xs.len() as u64);
            report(ctx, "commit_covered_by_log", format!("C38/commit_covered_by_log/{}/t{}", k, threads), json!({"rows": xs.len(), "examples": xs.iter().take(3).collect::<Vec<_>>(), "why": "COMMIT (autocommit INSERT) returned Ok but no frame in the log files carries the row's page image"}));
        }
    }
    // the judged crash images
    for (snap, j) in judged {
        let at = snap["at"].as_str().unwrap_or("?");
        ctx.count("crash_images_judged", 1);
        ctx.count(&format!("crash_images_{}", at), 1);
        ctx.count("wal_frames_read", j["frames"].as_u64().unwrap_or(0));
        ctx.count("wal_pages_with_several_frames", j["pages_with_several_frames"].as_u64().unwrap_or(0));
        ctx.count("wal_pages_last_frame_differs_from_live_page", j["pages_whose_last_frame_differs_from_live"].as_u64().unwrap_or(0));
        ctx.count("wal_frames_for_unknown_files", j["frames_for_unknown_files"].as_u64().unwrap_or(0));
        ctx.count("wal_index_like_frames", j["index_like_frames"].as_u64().unwrap_or(0));
        if let Some(p) = j["plans"].as_object() {
            for (k, v) in p {
                plans_seen.entry(k.clone()).or_insert_with(|| v.as_str().unwrap_or("").to_string());
            }
        }
        if ctx.samples.len() < 4 {
            ctx.sample(json!({"round": base, "crash_image": at, "commits": v["commits"], "committed_rows_at_image": snap["committed_rows"], "frames": j["frames"], "pages_in_wal": j["pages_in_wal"], "commit_window_overlaps": overl, "regressions": j["regressions"].as_array().map(|a| a.len()), "missing": j["missing"].as_object().map(|m| m.iter().map(|(k, v)| (k.clone(), v.as_array().map(|a| a.len()).unwrap_or(0))).collect::<BTreeMap<_, _>>())}));
        }
        if j.get("hang").is_some() {
            report(ctx, "recovery_terminates", format!("C38/recovery_hang/t{}", threads), json!({"why": "opening the crash image did not finish within 90 s", "crash_image": at}));
            continue;
        }
        if let Some(s) = j.get("abort") {
            report(ctx, "recovery_no_crash", format!("C38/recovery_abort/t{}", threads), json!({"status": s, "crash_image": at}));
            continue;
        }
        if let Some(e) = j.get("harness_error") {
            ctx.count("judge_harness_errors", 1);
            ctx.extra.insert("last_judge_harness_error".into(), e.clone());
            continue;
        }
        if let Some(r) = j["regressions"].as_array() {
            let mut per: BTreeMap<String, Vec<&J>> = BTreeMap::new();
            for x in r {
                let kind = x["kind"].as_str().unwrap_or("?");
                let cause = if x["lost_present_in_an_earlier_frame"].as_u64().unwrap_or(0) > 0 { "earlier_frame_newer" } else { "latest_version_never_logged" };
                per.entry(format!("{}.{}", kind, cause)).or_default().push(x);
            }
            for (k, xs) in per {
                ctx.count(&format!("regressed_pages:{}", k), xs.len() as u64);
                report(ctx, "no_page_regression", format!("C38/no_page_regression/{}/t{}", k, threads), json!({"pages": xs.len(), "crash_image": at, "examples": xs.iter().take(3).collect::<Vec<_>>(), "why": "the last log frame of the page lacks committed rows that the page holds; replay installs the older image"}));
            }
        }
        if let Some(e) = j.get("open_error").or(j.get("open_panic")) {
            let class: String = e.as_str().unwrap_or("").split(|c: char| !c.is_ascii_alphabetic()).filter(|w| !w.is_empty()).take(6).collect::<Vec<_>>().join("_").to_lowercase();
            report(ctx, "every_committed_row_present", format!("C38/every_committed_row_present/open_failed:{}/t{}", class, threads), json!({"error": e, "crash_image": at}));
            continue;
        }
        if let Some(m) = j["missing"].as_object() {
            for (path, xs) in m {
                let n = xs.as_array().map(|a| a.len()).unwrap_or(0);
                if n == 0 {
                    continue;
                }
                ctx.count(&format!("committed_rows_missing_after_recovery:{}", path), n as u64);
                report(ctx, "every_committed_row_present", format!("C38/every_committed_row_present/{}/t{}", path, threads), json!({"missing_rows": n, "crash_image": at, "examples": xs.as_array().map(|a| a.iter().take(5).cloned().collect::<Vec<_>>()), "query_errors": j["query_errors"], "regressions_in_this_image": j["regressions"]}));
            }
        }
        if let Some(m) = j["missing_before_replay"].as_object() {
            for (path, xs) in m {
                let n = xs.as_array().map(|a| a.len()).unwrap_or(0);
                if n == 0 {
                    continue;
                }
                ctx.count(&format!("committed_rows_unreachable_before_replay:{}", path), n as u64);
                report(ctx, "committed_row_present_before_replay", format!("C38/committed_row_present_before_replay/{}/t{}", path, threads), json!({"rows": n, "crash_image": at, "examples": xs.as_array().map(|a| a.iter().take(5).cloned().collect::<Vec<_>>()), "query_errors": j["query_errors_before_replay"],
                    "why": "a row whose COMMIT returned Ok cannot be found in the table files as they are (log ignored): lost by the concurrent statements themselves, not by log order"}));
            }
        }
        if let Some(e) = j["query_errors"].as_object() {
            if !e.is_empty() {
                ctx.count("judge_query_errors", e.len() as u64);
            }
        }
    }
}

//! C39: the memory budget is a hard limit (MemoryBudget under real threads).
//!
//! Barrier-synchronised rounds on a fresh `MemoryBudget`: before each step the main thread
//! (alone, quiescent) tops the Shared pool up/down so that the headroom `limit - total_used`
//! is smaller than what the threads are about to request; then all threads run their 1-3
//! allocate/release calls concurrently (same pool, different pools, mixed), the library's
//! yield point between the limit check and the CAS is perturbed by the hook registered here;
//! then a barrier, and ONLY THERE (quiescent) the oracle is evaluated:
//!   * total_le_limit : total_used() <= total_limit()
//!   * pool_ledger    : stats().<pool>_used == sum(successful allocate) - sum(release), from a
//!                      harness-side ledger fed with the call results
//!   * zero_after_release : after every holder released everything, all counters are 0.
//! Mid-flight sums are never judged (they are legitimately transient).
//! Directed rounds: two threads, the hook parks thread 0 at "budget.check_cas" until thread
//! 1's allocate (other pool / same pool as control) has returned: the exact witness of the
//! cross-pool check-then-act window.
//! A small sequential probe checks that an absurdly large request fails with Err (the module
//! documents "allocations that would exceed the budget fail immediately").
use crate::report::{catch, panic_site, Ctx};
use crate::rng::{fnv, Rng};
use crate::Args;
use parking_lot::Mutex;
use serde_json::{json, Value};
use std::cell::RefCell;
use std::collections::HashSet;
use std::sync::atomic::{AtomicBool, AtomicI64, AtomicU32, AtomicU64, Ordering};
use std::sync::mpsc;
use std::sync::{Arc, Barrier};
use std::time::{Duration, Instant};
use turdb::memory::{MemoryBudget, Pool};

const MIRI: bool = cfg!(miri);
const POOLS: [Pool; 5] = [Pool::Cache, Pool::Query, Pool::Recovery, Pool::Schema, Pool::Shared];

fn pool_idx(p: Pool) -> usize {
    match p {
        Pool::Cache => 0,
        Pool::Query => 1,
        Pool::Recovery => 2,
        Pool::Schema => 3,
        Pool::Shared => 4,
    }
}

const EV_HOOK: u32 = 0;
const EV_CALL_ALLOC: u32 = 1;
const EV_ALLOC_OK: u32 = 2;
const EV_ALLOC_ERR: u32 = 3;
const EV_RELEASE: u32 = 4;
const EV_OTHER_HOOK: u32 = 5;

fn ev(thread: usize, kind: u32, pool: usize) -> u32 {
    ((thread as u32) << 16) | (kind << 8) | pool as u32
}
fn ev_fmt(e: u32) -> String {
    let k = match (e >> 8) & 0xFF {
        EV_HOOK => "yield:budget.check_cas (limit check passed, CAS not yet done)",
        EV_CALL_ALLOC => "call allocate",
        EV_ALLOC_OK => "allocate returned Ok",
        EV_ALLOC_ERR => "allocate returned Err",
        EV_RELEASE => "release returned",
        _ => "yield:other",
    };
    format!("T{} {} pool={}", e >> 16, k, POOLS[(e & 0xFF) as usize % 5].name())
}

#[derive(Clone, Debug)]
enum Call {
    Alloc(usize, usize), // pool index, bytes
    Release,             // release one of the thread's own holdings (if any)
    ReleaseAll,
}

#[derive(Clone, Debug)]
struct Cfg {
    nthreads: usize,
    steps: usize,
    limit: usize,
    mode: u8, // 0 every thread its own pool, 1 all in one pool, 2 random pool per call, 3 two pools
    size_lo: usize,
    size_hi: usize,
    p_release: u64,
    w: [u64; 4],
    directed: u8, // 0 random; 1 directed cross-pool; 2 directed same-pool (control)
}

impl Cfg {
    fn to_json(&self) -> Value {
        json!({"threads": self.nthreads, "steps": self.steps, "limit": self.limit, "pool_mode": (["own_pool_per_thread", "one_pool", "random_pool_per_call", "two_pools"][self.mode as usize]),
               "size_range": [self.size_lo, self.size_hi], "release_pct": self.p_release, "hook_weights_nothing_yield_spin_sleep": self.w, "directed": self.directed})
    }
    fn structural_hash(&self) -> u64 {
        fnv(format!("{}|{}|{}|{}|{}|{}|{}|{:?}|{}", self.nthreads, self.steps, self.limit, self.mode, self.size_lo, self.size_hi, self.p_release, self.w, self.directed).as_bytes())
    }
}

fn gen_cfg(rng: &mut Rng) -> Cfg {
    if MIRI {
        return Cfg {
            nthreads: 2 + rng.below(2) as usize,
            steps: 3,
            limit: 4 << 20,
            mode: *rng.pick(&[0u8, 2, 3]),
            size_lo: 100,
            size_hi: 5000,
            p_release: 20,
            w: [50, 50, 0, 0],
            directed: 0,
        };
    }
    let (size_lo, size_hi) = match rng.below(6) {
        0 => (1, 64),
        1 | 2 => (64, 8 * 1024),
        3 => (4096, 4096),
        4 => (1024, 100 * 1024),
        _ => (16 * 1024, 512 * 1024),
    };
    Cfg {
        nthreads: match rng.below(8) {
            0 => 2,
            1 => 3,
            2 | 3 => 4,
            _ => 5 + rng.below(4) as usize,
        },
        steps: rng.usize(4, 12),
        limit: (4 << 20) + rng.below(12 << 20) as usize,
        mode: *rng.pick(&[0u8, 0, 1, 2, 2, 3]),
        size_lo,
        size_hi,
        p_release: *rng.pick(&[0u64, 15, 35]),
        w: match rng.below(5) {
            0 => [100, 0, 0, 0],
            1 => [80, 12, 7, 1],
            2 => [60, 20, 17, 3],
            3 => [40, 30, 25, 5],
            _ => [70, 30, 0, 0],
        },
        directed: 0,
    }
}

struct Round {
    cfg: Cfg,
    budget: MemoryBudget,
    ledger: [AtomicI64; 5],
    barrier: Barrier,
    plan: Mutex<Vec<Vec<Call>>>,
    log: Mutex<Vec<u32>>,
    in_alloc: AtomicU32,
    overlap: AtomicU64,
    step_succ_pools: AtomicU32,
    step_succ: AtomicU64,
    hook_actions: [AtomicU64; 4],
    panics: Mutex<Vec<String>>,
    t0_parked: AtomicBool,
    t1_done: AtomicBool,
    window_reached: AtomicBool,
    calls: AtomicU64,
}

impl Round {
    fn push(&self, e: u32) {
        self.log.lock().push(e);
    }
}

struct Tls {
    idx: usize,
    rng: Rng,
    pool: usize,
    round: Arc<Round>,
    parked_once: bool,
}
thread_local! {
    static TLS: RefCell<Option<Tls>> = RefCell::new(None);
}

fn spin_for(us: u64) {
    if MIRI {
        std::thread::yield_now();
        return;
    }
    let t0 = Instant::now();
    let d = Duration::from_micros(us);
    while t0.elapsed() < d {
        std::hint::spin_loop();
    }
}

fn wait_flag(flag: &AtomicBool, max: Duration) -> bool {
    let t0 = Instant::now();
    let mut it = 0u64;
    loop {
        if flag.load(Ordering::SeqCst) {
            return true;
        }
        it += 1;
        if MIRI {
            if it > 50_000 {
                return false;
            }
        } else if it % 64 == 0 && t0.elapsed() > max {
            return false;
        }
        std::thread::yield_now();
    }
}

fn hook(name: &'static str) {
    TLS.with(|cell| {
        let mut b = cell.borrow_mut();
        let t = match b.as_mut() {
            Some(t) => t,
            None => return,
        };
        let r = t.round.clone();
        let kind = if name == "budget.check_cas" { EV_HOOK } else { EV_OTHER_HOOK };
        r.push(ev(t.idx, kind, t.pool));
        if r.in_alloc.load(Ordering::Relaxed) >= 2 {
            r.overlap.fetch_add(1, Ordering::Relaxed);
        }
        if r.cfg.directed != 0 {
            if t.idx == 0 && kind == EV_HOOK && !t.parked_once {
                t.parked_once = true;
                r.t0_parked.store(true, Ordering::SeqCst);
                if wait_flag(&r.t1_done, Duration::from_millis(400)) {
                    r.window_reached.store(true, Ordering::SeqCst);
                }
            }
            return;
        }
        let w = &r.cfg.w;
        let total = w[0] + w[1] + w[2] + w[3];
        let mut x = t.rng.below(total);
        let mut act = 0;
        for (i, wi) in w.iter().enumerate() {
            if x < *wi {
                act = i;
                break;
            }
            x -= *wi;
        }
        if MIRI && act > 1 {
            act = 1;
        }
        r.hook_actions[act].fetch_add(1, Ordering::Relaxed);
        match act {
            0 => {}
            1 => std::thread::yield_now(),
            2 => {
                let us = 1 + t.rng.below(50);
                spin_for(us)
            }
            _ => {
                let us = 1 + t.rng.below(200);
                std::thread::sleep(Duration::from_micros(us))
            }
        }
    });
}

fn set_pool(p: usize) {
    TLS.with(|t| {
        if let Some(t) = t.borrow_mut().as_mut() {
            t.pool = p;
        }
    });
}

fn worker(r: &Arc<Round>, idx: usize, tseed: u64) {
    let mut rng = Rng::new(tseed);
    let mut holdings: Vec<(usize, usize)> = vec![];
    for _step in 0..r.cfg.steps + 1 {
        r.barrier.wait(); // A: plan published, budget topped up
        let calls = r.plan.lock()[idx].clone();
        if r.cfg.directed != 0 && idx == 1 {
            wait_flag(&r.t0_parked, Duration::from_millis(400));
        }
        for c in calls {
            r.calls.fetch_add(1, Ordering::Relaxed);
            match c {
                Call::Alloc(pi, bytes) => {
                    set_pool(pi);
                    r.push(ev(idx, EV_CALL_ALLOC, pi));
                    r.in_alloc.fetch_add(1, Ordering::Relaxed);
                    let res = catch(|| r.budget.allocate(POOLS[pi], bytes).is_ok());
                    r.in_alloc.fetch_sub(1, Ordering::Relaxed);
                    match res {
                        Ok(true) => {
                            r.ledger[pi].fetch_add(bytes as i64, Ordering::Relaxed);
                            r.step_succ_pools.fetch_or(1 << pi, Ordering::Relaxed);
                            r.step_succ.fetch_add(1, Ordering::Relaxed);
                            holdings.push((pi, bytes));
                            r.push(ev(idx, EV_ALLOC_OK, pi));
                        }
                        Ok(false) => r.push(ev(idx, EV_ALLOC_ERR, pi)),
                        Err(p) => r.panics.lock().push(p),
                    }
                    if r.cfg.directed != 0 && idx == 1 {
                        r.t1_done.store(true, Ordering::SeqCst);
                    }
                }
                Call::Release => {
                    if !holdings.is_empty() {
                        let k = rng.below(holdings.len() as u64) as usize;
                        let (pi, bytes) = holdings.swap_remove(k);
                        match catch(|| r.budget.release(POOLS[pi], bytes)) {
                            Ok(()) => {
                                r.ledger[pi].fetch_sub(bytes as i64, Ordering::Relaxed);
                                r.push(ev(idx, EV_RELEASE, pi));
                            }
                            Err(p) => r.panics.lock().push(p),
                        }
                    }
                }
                Call::ReleaseAll => {
                    for (pi, bytes) in holdings.drain(..) {
                        match catch(|| r.budget.release(POOLS[pi], bytes)) {
                            Ok(()) => {
                                r.ledger[pi].fetch_sub(bytes as i64, Ordering::Relaxed);
                            }
                            Err(p) => r.panics.lock().push(p),
                        }
                    }
                }
            }
        }
        r.barrier.wait(); // B: quiescent; main checks
    }
}

struct Viol {
    assertion: &'static str,
    sig: String,
    detail: Value,
}

struct RoundResult {
    round_no: u64,
    cfg: Cfg,
    viols: Vec<Viol>,
    panics: Vec<String>,
    fingerprint: u64,
    hook_events: u64,
    overlap: u64,
    calls: u64,
    succ: u64,
    fail: u64,
    quiescent_checks: u64,
    steps_over_limit: u64,
    hook_actions: [u64; 4],
    window_reached: bool,
    events: Vec<String>,
    wall_ms: f64,
}

fn pool_used(b: &MemoryBudget) -> [usize; 5] {
    let s = b.stats();
    [s.cache_used, s.query_used, s.recovery_used, s.schema_used, s.shared_used]
}

fn run_round(round_no: u64, rseed: u64, cfg: &Cfg, progress: &AtomicU64) -> RoundResult {
    let t0 = Instant::now();
    let n = cfg.nthreads;
    let mut rng = Rng::new(rseed);
    let round = Arc::new(Round {
        cfg: cfg.clone(),
        budget: MemoryBudget::with_limit(cfg.limit),
        ledger: [AtomicI64::new(0), AtomicI64::new(0), AtomicI64::new(0), AtomicI64::new(0), AtomicI64::new(0)],
        barrier: Barrier::new(n + 1),
        plan: Mutex::new(vec![vec![]; n]),
        log: Mutex::new(Vec::with_capacity(256)),
        in_alloc: AtomicU32::new(0),
        overlap: AtomicU64::new(0),
        step_succ_pools: AtomicU32::new(0),
        step_succ: AtomicU64::new(0),
        hook_actions: [AtomicU64::new(0), AtomicU64::new(0), AtomicU64::new(0), AtomicU64::new(0)],
        panics: Mutex::new(vec![]),
        t0_parked: AtomicBool::new(false),
        t1_done: AtomicBool::new(false),
        window_reached: AtomicBool::new(false),
        calls: AtomicU64::new(0),
    });
    let limit = round.budget.total_limit();
    let mut handles = vec![];
    for i in 0..n {
        let r = round.clone();
        let tseed = rseed ^ (i as u64 + 1).wrapping_mul(0xA24BAED4963EE407);
        handles.push(
            std::thread::Builder::new()
                .stack_size(512 * 1024)
                .spawn(move || {
                    TLS.with(|t| *t.borrow_mut() = Some(Tls { idx: i, rng: Rng::new(tseed ^ 0x27d4eb2f), pool: 0, round: r.clone(), parked_once: false }));
                    worker(&r, i, tseed);
                    TLS.with(|t| *t.borrow_mut() = None);
                })
                .expect("spawn"),
        );
    }
    let two_pools = [rng.below(5) as usize, rng.below(5) as usize];
    let one_pool = rng.below(5) as usize;
    let mut viols: Vec<Viol> = vec![];
    let mut filler: usize = 0; // bytes the main thread holds in Pool::Shared
    let mut quiescent_checks = 0u64;
    let mut steps_over = 0u64;
    let mut succ_total = 0u64;
    let mut alloc_calls = 0u64;
    for step in 0..cfg.steps + 1 {
        let last = step == cfg.steps;
        // ---- quiescent: publish the plan and set the headroom
        let mut plan: Vec<Vec<Call>> = vec![vec![]; n];
        let mut requested = 0usize;
        let mut sizes = vec![];
        if last {
            for p in plan.iter_mut() {
                p.push(Call::ReleaseAll);
            }
        } else if cfg.directed != 0 {
            let s = rng.usize(64, 64 * 1024);
            let p0 = rng.below(5) as usize;
            let p1 = if cfg.directed == 1 { (p0 + 1 + rng.below(4) as usize) % 5 } else { p0 };
            plan[0].push(Call::Alloc(p0, s));
            plan[1].push(Call::Alloc(p1, s));
            alloc_calls += 2;
            requested = 2 * s;
            sizes.push(s);
        } else {
            for (i, p) in plan.iter_mut().enumerate() {
                let k = 1 + rng.below(3) as usize;
                for _ in 0..k {
                    if rng.below(100) < cfg.p_release && step > 0 {
                        p.push(Call::Release);
                    } else {
                        let pi = match cfg.mode {
                            0 => i % 5,
                            1 => one_pool,
                            2 => rng.below(5) as usize,
                            _ => two_pools[rng.below(2) as usize],
                        };
                        let s = rng.usize(cfg.size_lo, cfg.size_hi);
                        requested += s;
                        sizes.push(s);
                        alloc_calls += 1;
                        p.push(Call::Alloc(pi, s));
                    }
                }
            }
        }
        if !last {
            let used = round.budget.total_used();
            let headroom = if cfg.directed != 0 {
                sizes[0] // exactly one of the two requests fits
            } else {
                match rng.below(10) {
                    0 => 0,
                    1 => requested + 1, // everything fits
                    2 | 3 => *rng.pick(&sizes.iter().copied().chain(std::iter::once(1)).collect::<Vec<_>>()), // about one request fits
                    _ => rng.below(requested as u64 + 1) as usize, // some fit
                }
            };
            let target = limit.saturating_sub(headroom);
            if target > used {
                let add = target - used;
                if let Ok(true) = catch(|| round.budget.allocate(Pool::Shared, add).is_ok()) {
                    filler += add;
                    round.ledger[4].fetch_add(add as i64, Ordering::Relaxed);
                }
            } else if used > target && filler > 0 {
                let sub = (used - target).min(filler);
                if catch(|| round.budget.release(Pool::Shared, sub)).is_ok() {
                    filler -= sub;
                    round.ledger[4].fetch_sub(sub as i64, Ordering::Relaxed);
                }
            }
        }
        let used_before = round.budget.total_used();
        round.step_succ_pools.store(0, Ordering::Relaxed);
        round.step_succ.store(0, Ordering::Relaxed);
        let log_start = round.log.lock().len();
        *round.plan.lock() = plan.clone();
        round.barrier.wait(); // A
        round.barrier.wait(); // B
        progress.fetch_add(1, Ordering::Relaxed);
        // ---- quiescent: judge
        quiescent_checks += 1;
        let total = round.budget.total_used();
        let per = pool_used(&round.budget);
        let mask = round.step_succ_pools.load(Ordering::Relaxed);
        succ_total += round.step_succ.load(Ordering::Relaxed);
        let step_events = || -> Vec<String> { round.log.lock()[log_start..].iter().take(60).map(|e| ev_fmt(*e)).collect() };
        let plan_json = || -> Value {
            json!(plan.iter().map(|cs| cs.iter().map(|c| match c {
                Call::Alloc(p, b) => format!("allocate({}, {})", POOLS[*p].name(), b),
                Call::Release => "release(one own holding)".to_string(),
                Call::ReleaseAll => "release(all own holdings)".to_string(),
            }).collect::<Vec<_>>()).collect::<Vec<_>>())
        };
        if total > limit && used_before <= limit {
            steps_over += 1;
            let cause = match mask.count_ones() {
                0 => "no_successful_allocation_in_step",
                1 => "concurrent_allocations_in_one_pool",
                _ => "concurrent_allocations_in_different_pools",
            };
            let cause = if cfg.directed == 1 { "check_then_cas_window_across_pools" } else { cause };
            viols.push(Viol {
                assertion: "total_le_limit",
                sig: format!("C39/total_le_limit/{}", cause),
                detail: json!({"round": round_no, "round_seed": rseed, "step": step, "cfg": cfg.to_json(), "limit": limit, "total_used_before_step": used_before,
                               "total_used_at_barrier": total, "over_by": total - limit, "pools_with_successful_allocations": POOLS.iter().enumerate().filter(|(i, _)| mask & (1 << i) != 0).map(|(_, p)| p.name()).collect::<Vec<_>>(),
                               "plan_per_thread": plan_json(), "event_order": step_events()}),
            });
        }
        for i in 0..5 {
            let led = round.ledger[i].load(Ordering::Relaxed);
            if per[i] as i64 != led {
                viols.push(Viol {
                    assertion: "pool_ledger",
                    sig: format!("C39/pool_ledger/{}_used_differs_from_ledger", POOLS[i].name()),
                    detail: json!({"round": round_no, "round_seed": rseed, "step": step, "cfg": cfg.to_json(), "pool": POOLS[i].name(), "pool_used": per[i], "ledger": led,
                                   "plan_per_thread": plan_json(), "event_order": step_events()}),
                });
                // resynchronise so one discrepancy is reported once
                round.ledger[i].store(per[i] as i64, Ordering::Relaxed);
            }
        }
    }
    for h in handles {
        let _ = h.join();
    }
    // everything the threads held is released; release the filler, then all must be zero
    if filler > 0 && catch(|| round.budget.release(Pool::Shared, filler)).is_ok() {
        round.ledger[4].fetch_sub(filler as i64, Ordering::Relaxed);
    }
    let per = pool_used(&round.budget);
    let total = round.budget.total_used();
    quiescent_checks += 1;
    // zero is demanded only if the ledger says zero (an earlier panic may have left the ledger open)
    let ledger_zero = (0..5).all(|i| round.ledger[i].load(Ordering::Relaxed) == 0);
    if ledger_zero && (total != 0 || per.iter().any(|x| *x != 0)) {
        viols.push(Viol {
            assertion: "zero_after_release",
            sig: "C39/zero_after_release/nonzero_after_all_released".into(),
            detail: json!({"round": round_no, "round_seed": rseed, "cfg": cfg.to_json(), "total_used": total, "per_pool": per}),
        });
    }
    let log = round.log.lock().clone();
    let mut fp = Vec::with_capacity(log.len());
    let mut hook_events = 0;
    for e in &log {
        let k = (e >> 8) & 0xFF;
        if k == EV_HOOK || k == EV_OTHER_HOOK {
            hook_events += 1;
            fp.push((e >> 16) as u8);
            fp.push((e & 0xFF) as u8 | ((k as u8) << 4));
        }
    }
    let panics = round.panics.lock().clone();
    RoundResult {
        round_no,
        cfg: cfg.clone(),
        viols,
        panics,
        fingerprint: fnv(&fp),
        hook_events,
        overlap: round.overlap.load(Ordering::Relaxed),
        calls: round.calls.load(Ordering::Relaxed),
        succ: succ_total,
        fail: alloc_calls.saturating_sub(succ_total),
        quiescent_checks,
        steps_over_limit: steps_over,
        hook_actions: [
            round.hook_actions[0].load(Ordering::Relaxed),
            round.hook_actions[1].load(Ordering::Relaxed),
            round.hook_actions[2].load(Ordering::Relaxed),
            round.hook_actions[3].load(Ordering::Relaxed),
        ],
        window_reached: round.window_reached.load(Ordering::SeqCst),
        events: if cfg.directed != 0 { log.iter().map(|e| ev_fmt(*e)).collect() } else { vec![] },
        wall_ms: t0.elapsed().as_secs_f64() * 1000.0,
    }
}

/// sequential probe: requests that cannot possibly fit must come back as Err
fn huge_probe(ctx: &mut Ctx, rng: &mut Rng) {
    for case in 0..8u64 {
        ctx.eval();
        let b = MemoryBudget::with_limit(4 << 20);
        let pre_pool = POOLS[rng.below(5) as usize];
        let pre = if case % 2 == 0 { 0 } else { 1 + rng.below(100_000) as usize };
        if pre > 0 {
            let _ = b.allocate(pre_pool, pre);
        }
        let pool = if case < 4 { pre_pool } else { POOLS[rng.below(5) as usize] };
        let req = match case % 4 {
            0 | 1 => usize::MAX,
            2 => usize::MAX - rng.below(1000) as usize,
            _ => usize::MAX / 2 + 1 + rng.below(1000) as usize,
        };
        let before = pool_used(&b);
        let kind = if req == usize::MAX { "usize::MAX" } else if req > usize::MAX / 2 + 2000 { "near usize::MAX" } else { "just above usize::MAX/2" };
        match catch(|| b.allocate(pool, req).is_ok()) {
            Ok(false) => {
                if pool_used(&b) != before {
                    ctx.violation("huge_request", "C39/huge_request/failed_allocate_changed_counters", json!({"prefill": pre, "request": kind}));
                }
                ctx.count("huge_probe_failed_cleanly", 1);
            }
            Ok(true) => {
                ctx.violation("huge_request", "C39/huge_request/allocate_succeeded", json!({"prefill": pre, "prefill_pool": pre_pool.name(), "pool": pool.name(), "request": kind, "after": pool_used(&b), "limit": b.total_limit()}));
            }
            Err(p) => {
                let cause = if p.contains("overflow") { "allocate_panicked_add_overflow".to_string() } else { format!("allocate_panicked@{}", panic_site(&p)) };
                ctx.violation("huge_request", &format!("C39/huge_request/{}", cause), json!({"prefill": pre, "prefill_pool": pre_pool.name(), "pool": pool.name(), "request": kind, "panic": p}));
            }
        }
    }
}

pub fn run(a: &Args) -> i32 {
    let mut ctx = Ctx::new(
        "C39",
        &a.tier,
        a.seed,
        "exploration",
        "barrier-synchronised rounds of 2-8 real threads on a fresh MemoryBudget (limit 4-16 MiB): before every step the headroom is set below the sum of the requests, threads then allocate/release in the same, different or random pools with the check->CAS yield point perturbed (nothing/yield/spin/sleep per-thread PRNG); oracle evaluated only at the barrier; plus directed 2-thread rounds parking one thread between check and CAS; distinct_nontrivial = distinct (round structure, schedule fingerprint) of rounds where the yield point was reached while >= 2 threads were inside allocate",
    );
    let quick = ctx.quick();
    turdb::verif::set_yield_hook(Some(Arc::new(hook)));
    let mut master = Rng::derive(a.seed, 39);
    let (max_rounds, budget_s, lanes, ndirected): (u64, f64, usize, u64) = if MIRI {
        (3, 1e8, 1, 2)
    } else if quick {
        (6000, 30.0, 4, 10)
    } else {
        (150_000, 400.0, 4, 100)
    };
    let deadline = Instant::now() + Duration::from_secs_f64(budget_s);

    // harness watchdog: no barrier step completing for 60 s => inconclusive, not a verdict
    let progress = Arc::new(AtomicU64::new(0));
    if !MIRI {
        let p = progress.clone();
        std::thread::spawn(move || {
            let mut last = (p.load(Ordering::Relaxed), Instant::now());
            loop {
                std::thread::sleep(Duration::from_secs(2));
                let now = p.load(Ordering::Relaxed);
                if now != last.0 {
                    last = (now, Instant::now());
                } else if last.1.elapsed() > Duration::from_secs(60) && now != u64::MAX {
                    println!("INCONCLUSIVE property=C39 reason=harness watchdog: no barrier step completed for 60 s");
                    std::process::exit(2);
                }
            }
        });
    }

    if !MIRI {
        huge_probe(&mut ctx, &mut master);
    }

    let mut fingerprints: HashSet<u64> = HashSet::new();
    let mut trivial = 0u64;
    let mut sampled = 0;
    let mut sampled_v = 0;
    let mut sampled_c = 0;
    let mut round_ms_total = 0f64;
    let mut absorb = |ctx: &mut Ctx, res: RoundResult| {
        ctx.eval();
        let directed = res.cfg.directed != 0;
        ctx.count(match res.cfg.directed { 0 => "rounds_random", 1 => "rounds_directed_cross_pool", _ => "rounds_directed_same_pool_control" }, 1);
        ctx.count("calls", res.calls);
        round_ms_total += res.wall_ms;
        ctx.count("allocate_ok", res.succ);
        ctx.count("allocate_err", res.fail);
        ctx.count("quiescent_checks", res.quiescent_checks);
        ctx.count("steps_ending_over_limit", res.steps_over_limit);
        ctx.count("yield_point_events", res.hook_events);
        ctx.count("yield_points_with_overlap", res.overlap);
        ctx.count("hook_nothing", res.hook_actions[0]);
        ctx.count("hook_yield", res.hook_actions[1]);
        ctx.count("hook_spin", res.hook_actions[2]);
        ctx.count("hook_sleep", res.hook_actions[3]);
        let nontrivial = if directed { res.window_reached } else { res.overlap > 0 };
        if nontrivial {
            fingerprints.insert(res.fingerprint);
            ctx.nontrivial(res.cfg.structural_hash() ^ res.fingerprint.rotate_left(17));
        } else {
            trivial += 1;
            if directed {
                ctx.count("directed_window_not_reached", 1);
            }
        }
        for p in &res.panics {
            ctx.violation("no_panic", &format!("C39/no_panic/{}", panic_site(p)), json!({"round": res.round_no, "cfg": res.cfg.to_json(), "panic": p}));
        }
        if res.cfg.directed == 2 && res.steps_over_limit == 0 && res.window_reached {
            ctx.count("directed_same_pool_control_held", 1);
        }
        for v in res.viols {
            if sampled_v < 2 {
                sampled_v += 1;
                ctx.sample(json!({"kind": if directed {"directed round with violation"} else {"random round with violation"}, "sig": v.sig, "detail": v.detail}));
            }
            ctx.violation(v.assertion, &v.sig, v.detail);
        }
        if sampled < 2 && !directed && res.steps_over_limit == 0 {
            sampled += 1;
            ctx.sample(json!({"kind": "random round", "cfg": res.cfg.to_json(), "calls": res.calls, "allocate_ok": res.succ, "allocate_err": res.fail, "yield_point_events": res.hook_events,
                              "yield_points_with_overlap": res.overlap, "schedule_fingerprint": format!("{:016x}", res.fingerprint), "wall_ms": res.wall_ms}));
        }
        if directed && res.cfg.directed == 2 && sampled_c < 1 {
            sampled_c += 1;
            ctx.sample(json!({"kind": "directed same-pool control", "events": res.events, "over_limit_steps": res.steps_over_limit}));
        }
    };

    for k in 0..ndirected {
        let cfg = Cfg {
            nthreads: 2,
            steps: 1,
            limit: (4 << 20) + master.below(4 << 20) as usize,
            mode: 0,
            size_lo: 64,
            size_hi: 64 * 1024,
            p_release: 0,
            w: [1, 0, 0, 0],
            directed: if k % 5 == 4 { 2 } else { 1 },
        };
        let rseed = master.next();
        let res = run_round(1_000_000 + k, rseed, &cfg, &progress);
        absorb(&mut ctx, res);
    }

    let next = Arc::new(AtomicU64::new(0));
    let base_seed = master.next();
    let (tx, rx) = mpsc::channel::<RoundResult>();
    let mut lane_handles = vec![];
    for _ in 0..lanes {
        let next = next.clone();
        let tx = tx.clone();
        let progress = progress.clone();
        lane_handles.push(std::thread::spawn(move || loop {
            let no = next.fetch_add(1, Ordering::SeqCst);
            if no >= max_rounds || Instant::now() >= deadline {
                break;
            }
            let mut rr = Rng::new(base_seed ^ no.wrapping_mul(0xD6E8FEB86659FD93));
            let cfg = gen_cfg(&mut rr);
            let rseed = rr.next();
            let res = run_round(no, rseed, &cfg, &progress);
            if tx.send(res).is_err() {
                break;
            }
        }));
    }
    drop(tx);
    for res in rx {
        absorb(&mut ctx, res);
    }
    for h in lane_handles {
        let _ = h.join();
    }
    progress.store(u64::MAX, Ordering::Relaxed);
    turdb::verif::set_yield_hook(None);

    ctx.count("rounds_trivial_no_overlap", trivial);
    ctx.extra.insert("distinct_schedule_fingerprints".into(), json!(fingerprints.len()));
    ctx.extra.insert("lanes".into(), json!(lanes));
    ctx.extra.insert("mean_round_ms".into(), json!((round_ms_total / ctx.evaluations.max(1) as f64 * 100.0).round() / 100.0));
    ctx.assumptions.push("schedules are sampled by real threads with injected delays, not enumerated".into());
    ctx.assumptions.push("the oracle is evaluated only at barriers (no call in flight); nothing is demanded about which requests succeed, only that the successful ones respect the limit".into());
    ctx.finish()
}

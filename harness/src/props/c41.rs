//! C41 calendar: DATE/TIME/TIMESTAMP conversions agree with an independent proleptic Gregorian
//! calendar; all converters agree with each other; invalid field combinations are rejected.
//!
//! Converters reached (all through public API, see `conv_*`):
//!   literal   turdb::parsing::{parse_date, parse_time, parse_timestamp}        (literal.rs)
//!   default   ConstraintValidator::apply_defaults on a TableDef with DEFAULTs  (constraints/mod.rs)
//!   predicate CompiledPredicate over `CAST('..' AS DATE|TIME|TIMESTAMP)`       (sql/predicate.rs)
//!   function  sql::functions::datetime::eval_datetime_function                 (datetime.rs)
//!   sql       the same again through `Database::execute/query` (convert.rs wiring)
//!   render    cli::table (feature `cli`, not enabled in the harness) -> only through the turdb
//!             CLI binary if one is found (`TV_TURDB_CLI`), otherwise reported as not checked.
use crate::report::{catch, panic_site, Ctx};
use crate::rng::Rng;
use crate::Args;
use serde_json::{json, Value as J};
use std::borrow::Cow;
use std::collections::{BTreeMap, HashSet};
use turdb::constraints::ConstraintValidator;
use turdb::records::types::DataType as RecType;
use turdb::schema::table::{ColumnDef, TableDef};
use turdb::sql::ast::{DataType as AstType, Expr, Literal};
use turdb::sql::executor::ExecutorRow;
use turdb::sql::functions::datetime::eval_datetime_function;
use turdb::sql::predicate::CompiledPredicate;
use turdb::types::Value;
use turdb::{Database, OwnedValue};

// ------------------------------------------------------------------------------------------
// Independent calendar (proleptic Gregorian). Day 0 = 1970-01-01.
// ------------------------------------------------------------------------------------------
pub mod cal {
    pub const MIN_DAY: i64 = -719_162; // 0001-01-01
    pub const MAX_DAY: i64 = 2_932_896; // 9999-12-31
    pub const TOTAL_DAYS: u64 = 3_652_059;

    pub fn is_leap(y: i64) -> bool {
        if y % 400 == 0 {
            true
        } else if y % 100 == 0 {
            false
        } else {
            y % 4 == 0
        }
    }
    pub fn dim(y: i64, m: u32) -> u32 {
        const T: [u32; 12] = [31, 28, 31, 30, 31, 30, 31, 31, 30, 31, 30, 31];
        if m == 2 && is_leap(y) {
            29
        } else {
            T[(m - 1) as usize]
        }
    }
    pub fn valid(y: i64, m: u32, d: u32) -> bool {
        (1..=9999).contains(&y) && (1..=12).contains(&m) && d >= 1 && d <= dim(y, m)
    }
    /// days-from-civil (era based, 400-year cycles of 146097 days, year starting in March)
    pub fn days_from_civil(y: i64, m: u32, d: u32) -> i64 {
        let y = if m <= 2 { y - 1 } else { y };
        let era = y.div_euclid(400);
        let yoe = y.rem_euclid(400);
        let mp = (m as i64 + 9) % 12;
        let doy = (153 * mp + 2) / 5 + d as i64 - 1;
        let doe = yoe * 365 + yoe / 4 - yoe / 100 + doy;
        era * 146_097 + doe - 719_468
    }
    pub fn civil_from_days(z: i64) -> (i64, u32, u32) {
        let z = z + 719_468;
        let era = z.div_euclid(146_097);
        let doe = z.rem_euclid(146_097);
        let yoe = (doe - doe / 1460 + doe / 36_524 - doe / 146_096) / 365;
        let y = yoe + era * 400;
        let doy = doe - (365 * yoe + yoe / 4 - yoe / 100);
        let mp = (5 * doy + 2) / 153;
        let d = (doy - (153 * mp + 2) / 5 + 1) as u32;
        let m = if mp < 10 { mp + 3 } else { mp - 9 } as u32;
        (if m <= 2 { y + 1 } else { y }, m, d)
    }
    /// 0 = Sunday .. 6 = Saturday (1970-01-01 was a Thursday)
    pub fn weekday(z: i64) -> u32 {
        (z + 4).rem_euclid(7) as u32
    }
    pub fn day_of_year(y: i64, m: u32, d: u32) -> u32 {
        (1..m).map(|k| dim(y, k)).sum::<u32>() + d
    }
    pub const DAY_NAMES: [&str; 7] = ["Sunday", "Monday", "Tuesday", "Wednesday", "Thursday", "Friday", "Saturday"];
    pub const MONTH_NAMES: [&str; 12] =
        ["January", "February", "March", "April", "May", "June", "July", "August", "September", "October", "November", "December"];

    /// Cross-check of the closed formulas against a day-by-day counter that only uses the leap
    /// rule and the month-length table, plus fixed anchors taken from published tables.
    pub fn selfcheck(y_lo: i64, y_hi: i64) -> Result<u64, String> {
        let anchors: [((i64, u32, u32), i64, u32); 8] = [
            ((1, 1, 1), -719_162, 1),      // Monday
            ((1582, 10, 15), -141_427, 5), // Friday (first Gregorian day)
            ((1600, 2, 29), -135_081, 2),  // Tuesday
            ((1970, 1, 1), 0, 4),          // Thursday
            ((2000, 1, 1), 10_957, 6),     // Saturday
            ((2000, 3, 1), 11_017, 3),     // Wednesday
            ((2024, 2, 29), 19_782, 4),    // Thursday
            ((9999, 12, 31), 2_932_896, 5), // Friday
        ];
        for ((y, m, d), z, wd) in anchors {
            if days_from_civil(y, m, d) != z || civil_from_days(z) != (y, m, d) || weekday(z) != wd {
                return Err(format!("anchor {:04}-{:02}-{:02} fails: {} {:?} {}", y, m, d, days_from_civil(y, m, d), civil_from_days(z), weekday(z)));
            }
        }
        let mut counter = days_from_civil(y_lo, 1, 1);
        if y_lo == 1 && counter != MIN_DAY {
            return Err("first day".into());
        }
        let mut n = 0u64;
        let mut wd = weekday(counter);
        for y in y_lo..=y_hi {
            let mut doy = 0;
            for m in 1..=12u32 {
                for d in 1..=dim(y, m) {
                    doy += 1;
                    if days_from_civil(y, m, d) != counter || civil_from_days(counter) != (y, m, d) || weekday(counter) != wd || day_of_year(y, m, d) != doy {
                        return Err(format!("mismatch at {:04}-{:02}-{:02} counter {}", y, m, d, counter));
                    }
                    counter += 1;
                    wd = (wd + 1) % 7;
                    n += 1;
                }
            }
            if doy != if is_leap(y) { 366 } else { 365 } {
                return Err(format!("year length {}", y));
            }
        }
        if y_lo == 1 && y_hi == 9999 && (n != TOTAL_DAYS || counter - 1 != MAX_DAY) {
            return Err(format!("total {} last {}", n, counter - 1));
        }
        Ok(n)
    }
}

fn ymd_text(y: i64, m: u32, d: u32) -> String {
    format!("{:04}-{:02}-{:02}", y, m, d)
}

/// lenient independent reader of "Y-M-D" (used on function / renderer output, never on input)
fn read_ymd(s: &str) -> Option<(i64, u32, u32)> {
    let mut it = s.trim().split('-');
    let y = it.next()?.parse().ok()?;
    let m = it.next()?.parse().ok()?;
    let d = it.next()?.parse().ok()?;
    if it.next().is_some() {
        return None;
    }
    Some((y, m, d))
}

/// independent reader of "H:M:S[.frac]" -> microseconds of day
fn read_hms_micros(s: &str) -> Option<i64> {
    let s = s.trim();
    let (hms, frac) = match s.find('.') {
        Some(i) => (&s[..i], &s[i + 1..]),
        None => (s, ""),
    };
    let mut it = hms.split(':');
    let h: i64 = it.next()?.parse().ok()?;
    let m: i64 = it.next()?.parse().ok()?;
    let sec: i64 = it.next()?.parse().ok()?;
    if it.next().is_some() || h > 23 || m > 59 || sec > 59 || h < 0 || m < 0 || sec < 0 {
        return None;
    }
    if frac.len() > 9 || !frac.bytes().all(|b| b.is_ascii_digit()) {
        return None;
    }
    let mut f: i64 = 0;
    for (i, b) in frac.bytes().enumerate() {
        if i < 6 {
            f = f * 10 + (b - b'0') as i64;
        } else if b != b'0' {
            return None; // finer than a microsecond: not something the renderer may invent
        }
    }
    for _ in frac.len().min(6)..6 {
        f *= 10;
    }
    Some((h * 3600 + m * 60 + sec) * 1_000_000 + f)
}

/// independent reader of "Y-M-D[ T]H:M:S[.frac]" -> microseconds since 1970-01-01T00:00:00
fn read_ts_micros(s: &str) -> Option<i64> {
    let s = s.trim();
    let i = s.find(|c| c == ' ' || c == 'T')?;
    let (y, m, d) = read_ymd(&s[..i])?;
    if !cal::valid(y, m, d) {
        return None;
    }
    let t = read_hms_micros(&s[i + 1..])?;
    Some(cal::days_from_civil(y, m, d) * 86_400_000_000 + t)
}

// ------------------------------------------------------------------------------------------
// Per-thread accumulator (merged into Ctx in a fixed order, so runs are deterministic)
// ------------------------------------------------------------------------------------------
const MAX_DETAILS_PER_SIG: u64 = 12;

#[derive(Default)]
struct Acc {
    evals: u64,
    counters: BTreeMap<String, u64>,
    nontrivial: HashSet<u64>,
    sig_counts: BTreeMap<String, u64>,
    viols: Vec<(String, String, J)>,
    samples: Vec<J>,
}

impl Acc {
    fn count(&mut self, k: &str, n: u64) {
        *self.counters.entry(k.to_string()).or_insert(0) += n;
    }
    fn viol(&mut self, assertion: &str, sig: &str, detail: impl FnOnce() -> J) {
        let c = self.sig_counts.entry(sig.to_string()).or_insert(0);
        *c += 1;
        if *c <= MAX_DETAILS_PER_SIG {
            self.viols.push((assertion.to_string(), sig.to_string(), detail()));
        }
    }
    fn merge(&mut self, o: Acc) {
        self.evals += o.evals;
        for (k, v) in o.counters {
            *self.counters.entry(k).or_insert(0) += v;
        }
        self.nontrivial.extend(o.nontrivial);
        for (k, v) in o.sig_counts {
            *self.sig_counts.entry(k).or_insert(0) += v;
        }
        self.viols.extend(o.viols);
        for s in o.samples {
            if self.samples.len() < 8 {
                self.samples.push(s);
            }
        }
    }
    fn flush(self, ctx: &mut Ctx) {
        ctx.evals(self.evals);
        for (k, v) in &self.counters {
            ctx.count(k, *v);
        }
        for h in &self.nontrivial {
            ctx.nontrivial(*h);
        }
        let mut per_sig: BTreeMap<String, u64> = BTreeMap::new();
        for (a, s, d) in self.viols {
            let c = per_sig.entry(s.clone()).or_insert(0);
            *c += 1;
            if *c <= MAX_DETAILS_PER_SIG {
                ctx.violation(&a, &s, d);
            }
        }
        for (s, n) in &self.sig_counts {
            ctx.count(&format!("failed[{}]", s), *n);
        }
        for s in self.samples {
            ctx.sample(s);
        }
    }
}

// ------------------------------------------------------------------------------------------
// Converters. `Out` is what a converter said about one text.
// ------------------------------------------------------------------------------------------
#[derive(Debug, Clone, PartialEq)]
enum Out {
    Val(i64),
    Rejected,
    Other(String),
    Panic(String),
}

/// The single place that knows how each *private* calendar helper is reached.
/// Today every helper is reached indirectly through a public function that does nothing but
/// field-splitting around it; with the `verif_*` wrappers listed in the report the bodies below
/// can call the helpers directly (cfg `kahflane_turdb_verif_cal`).
mod private_helpers {
    /// literal.rs `date_to_days_since_epoch` (via `parse_date`), constraints `days_from_ymd`
    /// (via `apply_defaults`), datetime.rs `date_to_days` (via TO_DAYS) / `days_to_date` (via
    /// FROM_DAYS): see `conv_date_*` below. Direct calls, once wrappers exist:
    #[cfg(kahflane_turdb_verif_cal)]
    pub fn direct(which: &str, y: i64, m: u32, d: u32) -> Option<i64> {
        match which {
            "literal" => Some(turdb::parsing::verif_date_to_days_since_epoch(y as i32, m, d) as i64),
            "default" => Some(turdb::constraints::verif_days_from_ymd(y as i32, m, d) as i64),
            "function" => Some(turdb::sql::functions::datetime::verif_date_to_days(y, m, d)),
            _ => None,
        }
    }
    #[cfg(not(kahflane_turdb_verif_cal))]
    pub fn direct(_which: &str, _y: i64, _m: u32, _d: u32) -> Option<i64> {
        None
    }
}

fn conv_date_literal(text: &str) -> Out {
    match catch(|| turdb::parsing::parse_date(text)) {
        Ok(Ok(OwnedValue::Date(n))) => Out::Val(n as i64),
        Ok(Ok(o)) => Out::Other(format!("{:?}", o)),
        Ok(Err(_)) => Out::Rejected,
        Err(p) => Out::Panic(p),
    }
}
fn conv_time_literal(text: &str) -> Out {
    match catch(|| turdb::parsing::parse_time(text)) {
        Ok(Ok(OwnedValue::Time(n))) => Out::Val(n),
        Ok(Ok(o)) => Out::Other(format!("{:?}", o)),
        Ok(Err(_)) => Out::Rejected,
        Err(p) => Out::Panic(p),
    }
}
fn conv_ts_literal(text: &str) -> Out {
    match catch(|| turdb::parsing::parse_timestamp(text)) {
        Ok(Ok(OwnedValue::Timestamp(n))) => Out::Val(n),
        Ok(Ok(o)) => Out::Other(format!("{:?}", o)),
        Ok(Err(_)) => Out::Rejected,
        Err(p) => Out::Panic(p),
    }
}

/// DEFAULT parser: one table whose columns carry the texts as DEFAULT, one apply_defaults call.
fn conv_defaults(texts: &[String], ty: RecType) -> Vec<Out> {
    let r = catch(|| {
        let cols: Vec<ColumnDef> = texts.iter().enumerate().map(|(i, t)| ColumnDef::new(format!("c{}", i), ty).with_default(t.clone())).collect();
        let table = TableDef::new(1, "c41", cols);
        let mut vals: Vec<OwnedValue> = Vec::new();
        ConstraintValidator::new(&table).apply_defaults(&mut vals);
        vals
    });
    match r {
        Ok(vals) => (0..texts.len())
            .map(|i| match vals.get(i) {
                Some(OwnedValue::Date(n)) if ty == RecType::Date => Out::Val(*n as i64),
                Some(OwnedValue::Time(n)) if ty == RecType::Time => Out::Val(*n),
                Some(OwnedValue::Timestamp(n)) if ty == RecType::Timestamp => Out::Val(*n),
                Some(OwnedValue::Null) | None => Out::Rejected,
                Some(o) => Out::Other(format!("{:?}", o)),
            })
            .collect(),
        // a panic on the batch: redo one by one so it is attributed to the right text
        Err(p) => {
            if texts.len() == 1 {
                vec![Out::Panic(p)]
            } else {
                texts.iter().map(|t| conv_defaults(std::slice::from_ref(t), ty).pop().unwrap()).collect()
            }
        }
    }
}

/// predicate.rs: evaluate `CAST('<text>' AS <ty>)` with the compiled-predicate evaluator
fn conv_predicate(text: &str, ty: AstType<'static>) -> Out {
    let is_ts = matches!(ty, AstType::Timestamp | AstType::TimestampTz);
    let r = catch(|| {
        let lit = Expr::Literal(Literal::String(text));
        let cast = Expr::Cast { expr: &lit, data_type: ty };
        let p = CompiledPredicate::new(&cast, vec![]);
        let vals: [Value; 0] = [];
        let row = ExecutorRow::new(&vals);
        match p.evaluate_to_value(&row) {
            Some(Value::Int(n)) if !is_ts => Out::Val(n),
            Some(Value::TimestampTz { micros, offset_secs: 0 }) if is_ts => Out::Val(micros),
            None | Some(Value::Null) => Out::Rejected,
            Some(o) => Out::Other(format!("{:?}", o)),
        }
    });
    match r {
        Ok(o) => o,
        Err(p) => Out::Panic(p),
    }
}

#[derive(Debug, Clone, PartialEq)]
enum FOut {
    Int(i64),
    Text(String),
    Null,
    Other(String),
    Panic(String),
}

fn fcall(name: &str, args: &[Option<Value<'_>>]) -> FOut {
    match catch(|| match eval_datetime_function(name, args) {
        Some(Value::Int(n)) => FOut::Int(n),
        Some(Value::Text(s)) => FOut::Text(s.into_owned()),
        Some(Value::Null) | None => FOut::Null,
        Some(o) => FOut::Other(format!("{:?}", o)),
    }) {
        Ok(o) => o,
        Err(p) => FOut::Panic(p),
    }
}
fn tx(s: &str) -> Option<Value<'_>> {
    Some(Value::Text(Cow::Borrowed(s)))
}
fn iv<'a>(n: i64) -> Option<Value<'a>> {
    Some(Value::Int(n))
}

/// what the converters use as day number of 1970-01-01 (measured, not assumed)
#[derive(Debug, Clone, Copy)]
struct Epochs {
    literal: i64,
    default: i64,
    predicate: i64,
    to_days: i64,
    /// DAYOFWEEK('2000-01-01') (a Saturday), WEEKDAY(same)
    dow_sat: i64,
    wd_sat: i64,
}

fn measure_epochs() -> Result<Epochs, String> {
    let a = "1970-01-01";
    let get = |o: Out, who: &str| match o {
        Out::Val(v) => Ok(v),
        o => Err(format!("{} cannot convert the anchor 1970-01-01: {:?}", who, o)),
    };
    let fget = |o: FOut, who: &str| match o {
        FOut::Int(v) => Ok(v),
        o => Err(format!("{} on the anchor date: {:?}", who, o)),
    };
    Ok(Epochs {
        literal: get(conv_date_literal(a), "parse_date")?,
        default: get(conv_defaults(&[a.to_string()], RecType::Date).pop().unwrap(), "DEFAULT parser")?,
        predicate: get(conv_predicate(a, AstType::Date), "CAST AS DATE")?,
        to_days: fget(fcall("TO_DAYS", &[tx(a)]), "TO_DAYS")?,
        dow_sat: fget(fcall("DAYOFWEEK", &[tx("2000-01-01")]), "DAYOFWEEK")?,
        wd_sat: fget(fcall("WEEKDAY", &[tx("2000-01-01")]), "WEEKDAY")?,
    })
}

fn short(s: &str) -> String {
    s.chars().take(160).collect()
}

/// judge one converter on one date text
fn judge_date(acc: &mut Acc, who: &str, text: &str, valid: bool, expect: i64, out: &Out, reject_required: bool) {
    match out {
        Out::Val(v) => {
            if valid {
                if *v != expect {
                    acc.viol("date_value", &format!("C41/date_value/{}", who), || json!({"converter": who, "text": text, "got": v, "expected": expect}));
                }
            } else if reject_required {
                acc.viol("invalid_rejected", &format!("C41/invalid_rejected/{} accepts invalid date", who), || {
                    let (gy, gm, gd) = cal::civil_from_days(*v);
                    json!({"converter": who, "text": text, "got": v, "got_as_date": ymd_text(gy, gm, gd)})
                });
            }
        }
        Out::Rejected => {
            if valid {
                acc.viol("valid_accepted", &format!("C41/valid_rejected/{}", who), || json!({"converter": who, "text": text}));
            }
        }
        Out::Other(o) => {
            if valid || reject_required {
                acc.viol("date_value", &format!("C41/wrong_type/{}", who), || json!({"converter": who, "text": text, "got": short(o)}));
            }
        }
        Out::Panic(p) => {
            acc.viol("no_panic", &format!("C41/panic/{}@{}", who, panic_site(p)), || json!({"converter": who, "text": text, "panic": short(p)}));
        }
    }
}

// ------------------------------------------------------------------------------------------
// Part 1 + 3: every (y, m, d) with m in 0..=13, d in 0..=32 of one year through every converter
// ------------------------------------------------------------------------------------------
#[derive(Clone, Copy)]
struct DateOpts {
    literal: bool,
    functions_full: bool,
}

fn expect_fn_int(acc: &mut Acc, f: &str, text: &str, got: FOut, expected: i64) {
    match got {
        FOut::Int(v) if v == expected => {}
        FOut::Panic(p) => acc.viol("no_panic", &format!("C41/panic/{}@{}", f, panic_site(&p)), || json!({"function": f, "arg": text, "panic": short(&p)})),
        o => acc.viol("function_value", &format!("C41/function_value/{}", f), || json!({"function": f, "arg": text, "got": format!("{:?}", o), "expected": expected})),
    }
}
fn expect_fn_date(acc: &mut Acc, f: &str, arg: J, got: FOut, expected: (i64, u32, u32)) {
    match &got {
        FOut::Text(s) if read_ymd(s) == Some(expected) => {}
        FOut::Panic(p) => acc.viol("no_panic", &format!("C41/panic/{}@{}", f, panic_site(p)), || json!({"function": f, "arg": arg, "panic": short(p)})),
        o => acc.viol("function_value", &format!("C41/function_value/{}", f), || json!({"function": f, "arg": arg, "got": format!("{:?}", o), "expected": ymd_text(expected.0, expected.1, expected.2)})),
    }
}
fn expect_fn_text(acc: &mut Acc, f: &str, text: &str, got: FOut, expected: &str) {
    match &got {
        FOut::Text(s) if s == expected => {}
        FOut::Panic(p) => acc.viol("no_panic", &format!("C41/panic/{}@{}", f, panic_site(p)), || json!({"function": f, "arg": text, "panic": short(p)})),
        o => acc.viol("function_value", &format!("C41/function_value/{}", f), || json!({"function": f, "arg": text, "got": format!("{:?}", o), "expected": expected})),
    }
}

fn in_range_day(z: i64) -> bool {
    (cal::MIN_DAY..=cal::MAX_DAY).contains(&z)
}

fn date_functions(acc: &mut Acc, ep: &Epochs, rng: &mut Rng, y: i64, m: u32, d: u32, z: i64, text: &str, full: bool) {
    // day number and its inverse
    expect_fn_int(acc, "TO_DAYS", text, fcall("TO_DAYS", &[tx(text)]), z + ep.to_days);
    expect_fn_date(acc, "FROM_DAYS", json!(z + ep.to_days), fcall("FROM_DAYS", &[iv(z + ep.to_days)]), (y, m, d));
    // weekday: README "Day of week (1-7)"; which day is 1 is taken from the anchor, the cycle from the calendar
    let wd = cal::weekday(z) as i64;
    let dow = 1 + (wd - 6 + (ep.dow_sat - 1)).rem_euclid(7);
    expect_fn_int(acc, "DAYOFWEEK", text, fcall("DAYOFWEEK", &[tx(text)]), dow);
    expect_fn_int(acc, "DAYOFYEAR", text, fcall("DAYOFYEAR", &[tx(text)]), cal::day_of_year(y, m, d) as i64);
    // successor / predecessor
    if in_range_day(z + 1) {
        expect_fn_date(acc, "DATE_ADD", json!([text, 1]), fcall("DATE_ADD", &[tx(text), iv(1)]), cal::civil_from_days(z + 1));
    }
    if !full {
        return;
    }
    if in_range_day(z - 1) {
        expect_fn_date(acc, "DATE_SUB", json!([text, 1]), fcall("DATE_SUB", &[tx(text), iv(1)]), cal::civil_from_days(z - 1));
    }
    let wdm = (wd - 6 + ep.wd_sat).rem_euclid(7);
    expect_fn_int(acc, "WEEKDAY", text, fcall("WEEKDAY", &[tx(text)]), wdm);
    expect_fn_text(acc, "DAYNAME", text, fcall("DAYNAME", &[tx(text)]), cal::DAY_NAMES[wd as usize]);
    expect_fn_text(acc, "MONTHNAME", text, fcall("MONTHNAME", &[tx(text)]), cal::MONTH_NAMES[(m - 1) as usize]);
    expect_fn_date(acc, "LAST_DAY", json!(text), fcall("LAST_DAY", &[tx(text)]), (y, m, cal::dim(y, m)));
    expect_fn_int(acc, "YEAR", text, fcall("YEAR", &[tx(text)]), y);
    expect_fn_int(acc, "MONTH", text, fcall("MONTH", &[tx(text)]), m as i64);
    expect_fn_int(acc, "DAY", text, fcall("DAY", &[tx(text)]), d as i64);
    expect_fn_int(acc, "DAYOFMONTH", text, fcall("DAYOFMONTH", &[tx(text)]), d as i64);
    expect_fn_int(acc, "QUARTER", text, fcall("QUARTER", &[tx(text)]), ((m - 1) / 3 + 1) as i64);
    expect_fn_date(acc, "MAKEDATE", json!([y, cal::day_of_year(y, m, d)]), fcall("MAKEDATE", &[iv(y), iv(cal::day_of_year(y, m, d) as i64)]), (y, m, d));
    // random jump and difference to a random other date of the range
    let z2 = rng.range(cal::MIN_DAY, cal::MAX_DAY);
    let (y2, m2, d2) = cal::civil_from_days(z2);
    let t2 = ymd_text(y2, m2, d2);
    expect_fn_int(acc, "DATEDIFF", text, fcall("DATEDIFF", &[tx(text), tx(&t2)]), z - z2);
    let k = z2 - z;
    expect_fn_date(acc, "ADDDATE", json!([text, k]), fcall("ADDDATE", &[tx(text), iv(k)]), (y2, m2, d2));
    expect_fn_date(acc, "SUBDATE", json!([text, -k]), fcall("SUBDATE", &[tx(text), iv(-k)]), (y2, m2, d2));
    // week numbers: numbering scheme is not documented; only "is a week number"
    for f in ["WEEK", "WEEKOFYEAR"] {
        match fcall(f, &[tx(text)]) {
            FOut::Int(w) if (0..=53).contains(&w) => {}
            FOut::Panic(p) => acc.viol("no_panic", &format!("C41/panic/{}@{}", f, panic_site(&p)), || json!({"function": f, "arg": text, "panic": short(&p)})),
            o => acc.viol("function_value", &format!("C41/function_value/{} outside 0..=53", f), || json!({"function": f, "arg": text, "got": format!("{:?}", o)})),
        }
    }
}

fn date_year(acc: &mut Acc, ep: &Epochs, rng: &mut Rng, y: i64, o: DateOpts) {
    let mut texts: Vec<String> = Vec::with_capacity(14 * 33);
    let mut meta: Vec<(u32, u32, bool, i64)> = Vec::with_capacity(14 * 33);
    for m in 0..=13u32 {
        for d in 0..=32u32 {
            let valid = cal::valid(y, m, d);
            let z = if valid { cal::days_from_civil(y, m, d) } else { 0 };
            texts.push(ymd_text(y, m, d));
            meta.push((m, d, valid, z));
        }
    }
    let defaults = conv_defaults(&texts, RecType::Date);
    for (i, text) in texts.iter().enumerate() {
        let (m, d, valid, z) = meta[i];
        acc.evals += 1;
        // literal parser (O(|year - 1970|) per call)
        if o.literal {
            let out = conv_date_literal(text);
            judge_date(acc, "parse_date", text, valid, z + ep.literal, &out, true);
            acc.count(if valid { "literal_valid_dates" } else { "literal_invalid_dates" }, 1);
        }
        judge_date(acc, "DEFAULT date parser", text, valid, z + ep.default, &defaults[i], true);
        let pout = conv_predicate(text, AstType::Date);
        judge_date(acc, "CAST AS DATE", text, valid, z + ep.predicate, &pout, true);
        if let Some(v) = private_helpers::direct("literal", y, m, d) {
            if valid && v != z + ep.literal {
                acc.viol("date_value", "C41/date_value/date_to_days_since_epoch", || json!({"text": text, "got": v, "expected": z + ep.literal}));
            }
        }
        if valid {
            acc.count("valid_dates", 1);
            date_functions(acc, ep, rng, y, m, d, z, text, o.functions_full);
            acc.nontrivial.insert(((y.rem_euclid(400) as u64) << 16) | ((m as u64) << 8) | d as u64);
        } else {
            acc.count("invalid_dates", 1);
            acc.nontrivial.insert((1u64 << 40) | ((cal::is_leap(y) as u64) << 16) | ((m as u64) << 8) | d as u64);
        }
    }
}

/// run `date_year` over `years` on `nthreads` threads; deterministic for a given seed
fn date_pass(seed_rng: &mut Rng, ep: Epochs, years: Vec<(i64, DateOpts)>, nthreads: usize) -> Acc {
    let jobs: Vec<(i64, DateOpts, u64)> = years.into_iter().map(|(y, o)| (y, o, seed_rng.next())).collect();
    let nthreads = nthreads.max(1);
    let jobs = std::sync::Arc::new(jobs);
    let next = std::sync::Arc::new(std::sync::atomic::AtomicUsize::new(0));
    let mut handles = vec![];
    for _ in 0..nthreads {
        let jobs = jobs.clone();
        let next = next.clone();
        handles.push(std::thread::spawn(move || {
            let mut out: Vec<(usize, Acc)> = vec![];
            loop {
                // blocks of 16 years so the merge order does not depend on scheduling
                let b = next.fetch_add(1, std::sync::atomic::Ordering::SeqCst);
                let lo = b * 16;
                if lo >= jobs.len() {
                    break;
                }
                let mut acc = Acc::default();
                for (y, o, s) in &jobs[lo..(lo + 16).min(jobs.len())] {
                    let mut rng = Rng::new(*s);
                    date_year(&mut acc, &ep, &mut rng, *y, *o);
                }
                out.push((b, acc));
            }
            out
        }));
    }
    let mut parts: Vec<(usize, Acc)> = vec![];
    for h in handles {
        match h.join() {
            Ok(v) => parts.extend(v),
            Err(_) => {
                let mut a = Acc::default();
                a.viol("no_panic", "C41/harness/worker thread died", || json!({}));
                parts.push((usize::MAX, a));
            }
        }
    }
    parts.sort_by_key(|p| p.0);
    let mut total = Acc::default();
    for (_, a) in parts {
        total.merge(a);
    }
    total
}

// ------------------------------------------------------------------------------------------
// Part 4: TIME and TIMESTAMP
// ------------------------------------------------------------------------------------------
/// `allowed`: acceptable values; `may_reject`: rejection is acceptable too
fn judge_tval(acc: &mut Acc, kind: &str, who: &str, text: &str, allowed: &[i64], may_reject: bool, out: &Out) {
    match out {
        Out::Val(v) => {
            if !allowed.contains(v) {
                acc.viol(&format!("{}_value", kind), &format!("C41/{}_value/{}", kind, who), || json!({"converter": who, "text": text, "got": v, "expected_one_of": allowed}));
            }
        }
        Out::Rejected => {
            if !may_reject {
                acc.viol("valid_accepted", &format!("C41/valid_rejected/{}", who), || json!({"converter": who, "text": text}));
            }
        }
        Out::Other(o) => acc.viol(&format!("{}_value", kind), &format!("C41/wrong_type/{}", who), || json!({"converter": who, "text": text, "got": short(o)})),
        Out::Panic(p) => acc.viol("no_panic", &format!("C41/panic/{}@{}", who, panic_site(p)), || json!({"converter": who, "text": text, "panic": short(p)})),
    }
}
fn judge_invalid(acc: &mut Acc, kind: &str, class: &str, who: &str, text: &str, out: &Out) {
    match out {
        Out::Rejected => {}
        Out::Val(v) => acc.viol("invalid_rejected", &format!("C41/invalid_rejected/{} accepts invalid {} ({})", who, kind, class), || json!({"converter": who, "text": text, "got": v})),
        Out::Other(o) => acc.viol("invalid_rejected", &format!("C41/invalid_rejected/{} accepts invalid {} ({})", who, kind, class), || json!({"converter": who, "text": text, "got": short(o)})),
        Out::Panic(p) => acc.viol("no_panic", &format!("C41/panic/{}@{}", who, panic_site(p)), || json!({"converter": who, "text": text, "panic": short(p)})),
    }
}

/// random fraction of k digits; returns (digits, microseconds by truncation, by rounding)
fn gen_fraction(rng: &mut Rng, k: usize) -> (String, i64, i64) {
    let style = rng.below(6);
    let digits: String = (0..k)
        .map(|i| match style {
            0 => '9',
            1 => '0',
            2 => {
                if i + 1 == k {
                    '1'
                } else {
                    '0'
                }
            }
            3 => {
                if i == 6 {
                    '5'
                } else {
                    '9'
                }
            }
            _ => (b'0' + rng.below(10) as u8) as char,
        })
        .collect();
    let mut us: i64 = 0;
    for (i, b) in digits.bytes().enumerate() {
        if i < 6 {
            us = us * 10 + (b - b'0') as i64;
        }
    }
    for _ in k.min(6)..6 {
        us *= 10;
    }
    let round_up = k > 6 && digits.as_bytes()[6] >= b'5';
    (digits, us, if round_up { us + 1 } else { us })
}

struct TimeCase {
    text: String,
    allowed: Vec<i64>,
    may_reject: bool,
}

/// the texts generated for one second of the day
fn time_cases(rng: &mut Rng, sec: i64, out: &mut Vec<TimeCase>) {
    let (h, m, s) = (sec / 3600, sec / 60 % 60, sec % 60);
    let base = sec * 1_000_000;
    let t0 = format!("{:02}:{:02}:{:02}", h, m, s);
    out.push(TimeCase { text: t0.clone(), allowed: vec![base], may_reject: false });
    let k = 1 + ((sec as u64 + rng.below(6)) % 6) as usize;
    let (dg, us, _) = gen_fraction(rng, k);
    out.push(TimeCase { text: format!("{}.{}", t0, dg), allowed: vec![base + us], may_reject: false });
    if rng.chance(1, 4) {
        // finer than a microsecond: truncation, rounding and rejection are all defensible
        let k = 7 + rng.below(3) as usize;
        let (dg, tr, ro) = gen_fraction(rng, k);
        out.push(TimeCase { text: format!("{}.{}", t0, dg), allowed: vec![base + tr, base + ro], may_reject: true });
    }
    if rng.chance(1, 16) {
        out.push(TimeCase { text: format!("{}.", t0), allowed: vec![base], may_reject: true });
    }
}

fn time_block(acc: &mut Acc, rng: &mut Rng, lo: i64, hi: i64) {
    let mut cases: Vec<TimeCase> = vec![];
    for sec in lo..hi {
        time_cases(rng, sec, &mut cases);
        let (h, m, s) = (sec / 3600, sec / 60 % 60, sec % 60);
        let t0 = format!("{:02}:{:02}:{:02}", h, m, s);
        expect_fn_int(acc, "HOUR", &t0, fcall("HOUR", &[tx(&t0)]), h);
        expect_fn_int(acc, "MINUTE", &t0, fcall("MINUTE", &[tx(&t0)]), m);
        expect_fn_int(acc, "SECOND", &t0, fcall("SECOND", &[tx(&t0)]), s);
        expect_fn_int(acc, "TIME_TO_SEC", &t0, fcall("TIME_TO_SEC", &[tx(&t0)]), sec);
        for (f, got) in [("SEC_TO_TIME", fcall("SEC_TO_TIME", &[iv(sec)])), ("MAKETIME", fcall("MAKETIME", &[iv(h), iv(m), iv(s)]))] {
            match &got {
                FOut::Text(t) if read_hms_micros(t) == Some(sec * 1_000_000) => {}
                FOut::Panic(p) => acc.viol("no_panic", &format!("C41/panic/{}@{}", f, panic_site(p)), || json!({"function": f, "arg": sec, "panic": short(p)})),
                o => acc.viol("function_value", &format!("C41/function_value/{}", f), || json!({"function": f, "arg": sec, "got": format!("{:?}", o), "expected": t0})),
            }
        }
        acc.nontrivial.insert((2u64 << 40) | sec as u64);
    }
    let texts: Vec<String> = cases.iter().map(|c| c.text.clone()).collect();
    let defaults = conv_defaults(&texts, RecType::Time);
    for (i, c) in cases.iter().enumerate() {
        acc.evals += 1;
        judge_tval(acc, "time", "parse_time", &c.text, &c.allowed, c.may_reject, &conv_time_literal(&c.text));
        judge_tval(acc, "time", "CAST AS TIME", &c.text, &c.allowed, c.may_reject, &conv_predicate(&c.text, AstType::Time));
        judge_tval(acc, "time", "DEFAULT time parser", &c.text, &c.allowed, c.may_reject, &defaults[i]);
        // MICROSECOND(): only where the fraction is exact (1..=6 digits)
        if !c.may_reject && c.text.contains('.') {
            let frac = c.allowed[0] % 1_000_000;
            let six = c.text.len() - c.text.find('.').unwrap() - 1 == 6;
            match fcall("MICROSECOND", &[tx(&c.text)]) {
                FOut::Int(v) if v == frac => {}
                FOut::Panic(p) => acc.viol("no_panic", &format!("C41/panic/MICROSECOND@{}", panic_site(&p)), || json!({"arg": c.text, "panic": short(&p)})),
                o => {
                    let sig = if six { "C41/function_value/MICROSECOND" } else { "C41/function_value/MICROSECOND ignores the scale of a short fraction" };
                    acc.viol("function_value", sig, || json!({"function": "MICROSECOND", "arg": c.text, "got": format!("{:?}", o), "expected": frac}))
                }
            }
        }
    }
    acc.count("time_texts", cases.len() as u64);
}

/// field combinations around the limits and malformed texts
fn invalid_times(acc: &mut Acc) {
    let mut cases: Vec<(String, &'static str)> = vec![];
    for h in 0..=26i64 {
        for m in 0..=62i64 {
            for s in 0..=62i64 {
                let bad = h >= 25 || m >= 60 || s >= 61;
                if bad {
                    cases.push((format!("{:02}:{:02}:{:02}", h, m, s), "field out of range"));
                } else if h == 24 || s == 60 {
                    acc.count("ambiguous_times_not_judged", 1); // 24:00:00 / leap second: dialects differ
                }
            }
        }
    }
    for h in [99i64, 100, 255, 256, 4294967296] {
        cases.push((format!("{}:00:00", h), "field out of range"));
        cases.push((format!("00:{}:00", h), "field out of range"));
        cases.push((format!("00:00:{}", h), "field out of range"));
    }
    for t in ["ab:cd:ef", "12:34:5x", "1x:00:00", "12:x0:00", "12:00:00.abc", "12:00:00.12x", "::", "12::00", ":00:00", "12:00:", "-1:00:00", "12:-1:00", "12:00:-1", "12:00:00:00", "12-00-00", "noon", "12:00:00 PM x"] {
        cases.push((t.to_string(), "malformed"));
    }
    let texts: Vec<String> = cases.iter().map(|c| c.0.clone()).collect();
    let defaults = conv_defaults(&texts, RecType::Time);
    for (i, (t, class)) in cases.iter().enumerate() {
        acc.evals += 1;
        judge_invalid(acc, "time", class, "parse_time", t, &conv_time_literal(t));
        judge_invalid(acc, "time", class, "CAST AS TIME", t, &conv_predicate(t, AstType::Time));
        judge_invalid(acc, "time", class, "DEFAULT time parser", t, &defaults[i]);
        acc.nontrivial.insert((3u64 << 40) | crate::rng::fnv(t.as_bytes()) & 0xffff_ffff);
    }
    acc.count("invalid_time_texts", cases.len() as u64);
}

/// every `step`-th second of one day as TIMESTAMP text; the literal parser (slow far from 1970)
/// on every `lit_step`-th of those
fn ts_day(acc: &mut Acc, rng: &mut Rng, ep: &Epochs, z: i64, step: i64, lit_step: i64) {
    let (y, m, d) = cal::civil_from_days(z);
    let date = ymd_text(y, m, d);
    let mut sec = 0i64;
    let mut idx = 0i64;
    while sec < 86_400 {
        let hi = (sec + 3600 * step).min(86_400);
        let mut cases: Vec<TimeCase> = vec![];
        let mut lit: Vec<bool> = vec![];
        let mut s = sec;
        while s < hi {
            let n0 = cases.len();
            time_cases(rng, s, &mut cases);
            for c in cases[n0..].iter_mut() {
                let sep = if rng.chance(1, 2) { ' ' } else { 'T' };
                c.text = format!("{}{}{}", date, sep, c.text);
                for a in c.allowed.iter_mut() {
                    *a += z * 86_400_000_000;
                }
                lit.push(idx % lit_step == 0);
            }
            idx += 1;
            s += step;
        }
        let texts: Vec<String> = cases.iter().map(|c| c.text.clone()).collect();
        let defaults = conv_defaults(&texts, RecType::Timestamp);
        for (i, c) in cases.iter().enumerate() {
            acc.evals += 1;
            // converters agree on the epoch of the date part (checked in part 1), so one offset
            let shift = |o: i64| -> Vec<i64> { c.allowed.iter().map(|a| a + o * 86_400_000_000).collect() };
            if lit[i] {
                judge_tval(acc, "timestamp", "parse_timestamp", &c.text, &shift(ep.literal), c.may_reject, &conv_ts_literal(&c.text));
                acc.count("timestamp_literal_texts", 1);
            }
            judge_tval(acc, "timestamp", "CAST AS TIMESTAMP", &c.text, &shift(ep.predicate), c.may_reject, &conv_predicate(&c.text, AstType::Timestamp));
            judge_tval(acc, "timestamp", "DEFAULT timestamp parser", &c.text, &shift(ep.default), c.may_reject, &defaults[i]);
        }
        acc.count("timestamp_texts", cases.len() as u64);
        sec = hi;
    }
    acc.nontrivial.insert((4u64 << 40) | (z - cal::MIN_DAY) as u64);
}

fn invalid_timestamps(acc: &mut Acc, rng: &mut Rng, n: usize) {
    let mut cases: Vec<(String, &'static str)> = vec![];
    for i in 0..n {
        let y = rng.range(1, 9999);
        let sep = if i % 2 == 0 { ' ' } else { 'T' };
        if i % 3 != 0 {
            // invalid date part, valid time part
            let (m, d) = match rng.below(6) {
                0 => (2, if cal::is_leap(y) { 30 } else { 29 }),
                1 => (*rng.pick(&[4u32, 6, 9, 11]), 31),
                2 => (0, rng.range(1, 28) as u32),
                3 => (13, rng.range(1, 28) as u32),
                4 => (rng.range(1, 12) as u32, 0),
                _ => (rng.range(1, 12) as u32, 32),
            };
            let sec = rng.range(0, 86_399);
            cases.push((format!("{}{}{:02}:{:02}:{:02}", ymd_text(y, m, d), sep, sec / 3600, sec / 60 % 60, sec % 60), "invalid date part"));
        } else {
            let z = rng.range(cal::MIN_DAY, cal::MAX_DAY);
            let (y, m, d) = cal::civil_from_days(z);
            let (h, mi, s) = match rng.below(3) {
                0 => (rng.range(25, 99), rng.range(0, 59), rng.range(0, 59)),
                1 => (rng.range(0, 23), rng.range(60, 99), rng.range(0, 59)),
                _ => (rng.range(0, 23), rng.range(0, 59), rng.range(61, 99)),
            };
            cases.push((format!("{}{}{:02}:{:02}:{:02}", ymd_text(y, m, d), sep, h, mi, s), "invalid time part"));
        }
    }
    let texts: Vec<String> = cases.iter().map(|c| c.0.clone()).collect();
    let defaults = conv_defaults(&texts, RecType::Timestamp);
    for (i, (t, class)) in cases.iter().enumerate() {
        acc.evals += 1;
        judge_invalid(acc, "timestamp", class, "parse_timestamp", t, &conv_ts_literal(t));
        judge_invalid(acc, "timestamp", class, "CAST AS TIMESTAMP", t, &conv_predicate(t, AstType::Timestamp));
        judge_invalid(acc, "timestamp", class, "DEFAULT timestamp parser", t, &defaults[i]);
    }
    acc.count("invalid_timestamp_texts", cases.len() as u64);
}

// ------------------------------------------------------------------------------------------
// Part 2: the same through SQL on a real database
// ------------------------------------------------------------------------------------------
fn sql_q(db: &Database, sql: &str) -> Result<Vec<turdb::Row>, String> {
    match catch(|| db.query(sql)) {
        Ok(Ok(r)) => Ok(r),
        Ok(Err(e)) => Err(format!("error: {:#}", e)),
        Err(p) => Err(format!("panic: {}", p)),
    }
}
fn sql_x(db: &Database, sql: &str) -> Result<(), String> {
    match catch(|| db.execute(sql)) {
        Ok(Ok(_)) => Ok(()),
        Ok(Err(e)) => Err(format!("error: {:#}", e)),
        Err(p) => Err(format!("panic: {}", p)),
    }
}
/// a statement of the harness' own scaffolding failed: not a verdict about the calendar
fn scaffold_fail(acc: &mut Acc, what: &str, sql: &str, err: &str) {
    if err.starts_with("panic:") {
        acc.viol("no_panic", &format!("C41/panic/sql {}@{}", what, panic_site(err)), || json!({"sql": short(sql), "panic": short(err)}));
    } else {
        acc.viol("sql_statement_ok", &format!("C41/sql_failed/{}", what), || json!({"sql": short(sql), "error": short(err)}));
    }
}
fn row_id(r: &turdb::Row) -> Option<i64> {
    match r.values.first() {
        Some(OwnedValue::Int(i)) => Some(*i),
        _ => None,
    }
}

fn sample_days(rng: &mut Rng, quick: bool, miri: bool) -> Vec<i64> {
    let mut v: Vec<i64> = vec![];
    if miri {
        for _ in 0..20 {
            v.push(rng.range(cal::MIN_DAY, cal::MAX_DAY));
        }
    } else {
        let phase = rng.below(50) as i64;
        let mut z = cal::MIN_DAY + phase;
        while z <= cal::MAX_DAY {
            v.push(z);
            z += 50;
        }
        let month_years: HashSet<i64> = if quick { (0..400).map(|_| rng.range(1, 9999)).collect() } else { (1..=9999).collect() };
        for y in 1..=9999i64 {
            let near = y == 1 || y == 9999 || (1968..=1972).contains(&y) || y % 100 == 0 || (1999..=2001).contains(&y);
            v.push(cal::days_from_civil(y, 1, 1));
            v.push(cal::days_from_civil(y, 12, 31));
            v.push(cal::days_from_civil(y, 2, 28));
            v.push(cal::days_from_civil(y, 3, 1));
            if cal::is_leap(y) {
                v.push(cal::days_from_civil(y, 2, 29));
            }
            if near || month_years.contains(&y) {
                for m in 1..=12 {
                    v.push(cal::days_from_civil(y, m, 1));
                    v.push(cal::days_from_civil(y, m, cal::dim(y, m)));
                }
            }
        }
    }
    v.push(cal::MIN_DAY);
    v.push(cal::MAX_DAY);
    v.push(0);
    v.push(-1);
    v.sort();
    v.dedup();
    v
}

const DATE_FNS: [&str; 11] = ["YEAR", "MONTH", "DAY", "DAYOFWEEK", "DAYOFYEAR", "LAST_DAY", "DAYNAME", "TO_DAYS", "QUARTER", "WEEKDAY", "MONTHNAME"];

/// expected result of DATE_FNS[i] on day z
enum FnExp {
    I(i64),
    D((i64, u32, u32)),
    T(&'static str),
}
fn fn_expected(ep: &Epochs, z: i64) -> Vec<FnExp> {
    let (y, m, d) = cal::civil_from_days(z);
    let wd = cal::weekday(z) as i64;
    vec![
        FnExp::I(y),
        FnExp::I(m as i64),
        FnExp::I(d as i64),
        FnExp::I(1 + (wd - 6 + (ep.dow_sat - 1)).rem_euclid(7)),
        FnExp::I(cal::day_of_year(y, m, d) as i64),
        FnExp::D((y, m, cal::dim(y, m))),
        FnExp::T(cal::DAY_NAMES[wd as usize]),
        FnExp::I(z + ep.to_days),
        FnExp::I(((m - 1) / 3 + 1) as i64),
        FnExp::I((wd - 6 + ep.wd_sat).rem_euclid(7)),
        FnExp::T(cal::MONTH_NAMES[(m - 1) as usize]),
    ]
}
fn fn_matches(e: &FnExp, v: &OwnedValue) -> bool {
    match (e, v) {
        (FnExp::I(a), OwnedValue::Int(b)) => a == b,
        (FnExp::D(a), OwnedValue::Text(s)) => read_ymd(s) == Some(*a),
        (FnExp::D(a), OwnedValue::Date(n)) => cal::civil_from_days(*n as i64) == *a,
        (FnExp::T(a), OwnedValue::Text(s)) => a == s,
        _ => false,
    }
}
fn fn_exp_json(e: &FnExp) -> J {
    match e {
        FnExp::I(a) => json!(a),
        FnExp::D(a) => json!(ymd_text(a.0, a.1, a.2)),
        FnExp::T(a) => json!(a),
    }
}

/// check a `SELECT id, F1(arg), F2(arg), ..` result; `assertion`/`sigbase` distinguish text vs DATE argument
fn check_fn_rows(acc: &mut Acc, ep: &Epochs, rows: &[turdb::Row], days: &[i64], assertion: &str, sigbase: &str, argdesc: &str) {
    for r in rows {
        let Some(id) = row_id(r) else { continue };
        let Some(&z) = days.get((id - 1) as usize) else { continue };
        let exp = fn_expected(ep, z);
        acc.count(&format!("sql_function_rows_checked[{}]", argdesc), 1);
        for (i, e) in exp.iter().enumerate() {
            let got = r.values.get(i + 1).cloned().unwrap_or(OwnedValue::Null);
            if fn_matches(e, &got) {
                continue;
            }
            let (y, m, d) = cal::civil_from_days(z);
            let sig = if got == OwnedValue::Null { format!("C41/{}/{} returns NULL for {}", sigbase, DATE_FNS[i], argdesc) } else { format!("C41/{}/{}", sigbase, DATE_FNS[i]) };
            acc.viol(assertion, &sig, || json!({"function": DATE_FNS[i], "argument": argdesc, "date": ymd_text(y, m, d), "got": format!("{:?}", got), "expected": fn_exp_json(e)}));
        }
    }
}

struct SqlData {
    days: Vec<i64>,
    times: Vec<(String, i64)>,
    stamps: Vec<(String, i64)>,
}

fn gen_time_text(rng: &mut Rng, i: usize) -> (String, i64) {
    let sec = match i {
        0 => 0,
        1 => 86_399,
        2 => 43_200,
        _ => match rng.below(4) {
            0 => rng.range(0, 23) * 3600 + 3599,
            1 => rng.range(0, 23) * 3600,
            _ => rng.range(0, 86_399),
        },
    };
    let t0 = format!("{:02}:{:02}:{:02}", sec / 3600, sec / 60 % 60, sec % 60);
    if i % 2 == 0 {
        (t0, sec * 1_000_000)
    } else {
        let k = 1 + (i / 2) % 6;
        let (dg, us, _) = gen_fraction(rng, k);
        (format!("{}.{}", t0, dg), sec * 1_000_000 + us)
    }
}

fn sql_insert_batches(acc: &mut Acc, db: &Database, table: &str, rows: &[String]) -> bool {
    for chunk in rows.chunks(250) {
        let sql = format!("INSERT INTO {} VALUES {}", table, chunk.join(", "));
        if let Err(e) = sql_x(db, &sql) {
            scaffold_fail(acc, &format!("INSERT INTO {}", table), &sql, &e);
            return false;
        }
    }
    true
}

fn sql_part(acc: &mut Acc, rng: &mut Rng, ep: &Epochs, dbpath: &str, quick: bool, miri: bool, reduce: bool) -> Option<SqlData> {
    let db = match catch(|| Database::create(dbpath)) {
        Ok(Ok(db)) => db,
        o => {
            acc.viol("sql_statement_ok", "C41/sql_failed/Database::create", || json!({"error": format!("{:?}", o.map(|r| r.map(|_| ()).map_err(|e| e.to_string())))}));
            return None;
        }
    };
    let mut days = sample_days(rng, quick, miri);
    if reduce {
        // the machine is overloaded (the exhaustive pass took several times its normal time):
        // keep the quick tier inside its budget; recorded in the evidence
        let keep = rng.below(4) as usize;
        let n = days.len();
        days = days.into_iter().enumerate().filter(|(i, _)| i % 4 == keep || *i < 2 || *i + 2 >= n).map(|(_, z)| z).collect();
        for z in [0i64, -1] {
            if !days.contains(&z) {
                days.push(z);
            }
        }
        days.sort();
        acc.count("sql_sample_reduced_to_a_quarter_because_of_machine_load", 1);
    }
    let days = days;
    let mut clock = std::time::Instant::now();
    let mut lap = |acc: &mut Acc, name: &str| {
        acc.count(&format!("ms_sql[{}]", name), clock.elapsed().as_millis() as u64);
        clock = std::time::Instant::now();
    };
    for ddl in ["CREATE TABLE t (id INT, s TEXT, d DATE)", "CREATE TABLE tt (id INT, s TEXT, tm TIME)", "CREATE TABLE tts (id INT, s TEXT, ts TIMESTAMP)"] {
        if let Err(e) = sql_x(&db, ddl) {
            scaffold_fail(acc, "CREATE TABLE", ddl, &e);
            return None;
        }
    }
    // ---- dates
    let rows: Vec<String> = days
        .iter()
        .enumerate()
        .map(|(i, z)| {
            let (y, m, d) = cal::civil_from_days(*z);
            let t = ymd_text(y, m, d);
            format!("({}, '{}', '{}')", i + 1, t, t)
        })
        .collect();
    if !sql_insert_batches(acc, &db, "t", &rows) {
        return None;
    }
    acc.count("sql_date_rows_inserted", days.len() as u64);
    let check_stored = |acc: &mut Acc, db: &Database, phase: &str| match sql_q(db, "SELECT id, s, d FROM t") {
        Ok(rs) => {
            let mut seen = 0u64;
            for r in &rs {
                let Some(id) = row_id(r) else { continue };
                let Some(&z) = days.get((id - 1) as usize) else { continue };
                seen += 1;
                acc.evals += 1;
                let (y, m, d) = cal::civil_from_days(z);
                acc.nontrivial.insert((5u64 << 40) | ((y.rem_euclid(400) as u64) << 16) | ((m as u64) << 8) | d as u64);
                match r.values.get(2) {
                    Some(OwnedValue::Date(n)) if *n as i64 == z + ep.literal => {}
                    o => acc.viol("sql_round_trip", &format!("C41/sql_round_trip/DATE column {}", phase), || json!({"text": ymd_text(y, m, d), "got": format!("{:?}", o), "expected_days": z + ep.literal})),
                }
            }
            acc.count(&format!("sql_date_rows_read_{}", phase), seen);
            if seen != days.len() as u64 {
                // rows lost by storage are another property's business; judged rows are the ones that came back
                acc.count(&format!("sql_date_rows_missing_{}", phase), days.len() as u64 - seen.min(days.len() as u64));
            }
        }
        Err(e) => scaffold_fail(acc, "SELECT stored dates", "SELECT id, s, d FROM t", &e),
    };
    lap(acc, "insert dates");
    check_stored(acc, &db, "after insert");
    lap(acc, "read dates");
    // CAST in a projection and in a predicate over the whole table
    match sql_q(&db, "SELECT id, CAST(s AS DATE) FROM t") {
        Ok(rs) => {
            for r in &rs {
                let Some(id) = row_id(r) else { continue };
                let Some(&z) = days.get((id - 1) as usize) else { continue };
                acc.evals += 1;
                match r.values.get(1) {
                    Some(OwnedValue::Int(n)) if *n == z + ep.predicate => {}
                    Some(OwnedValue::Date(n)) if *n as i64 == z + ep.predicate => {}
                    o => acc.viol("date_value", "C41/date_value/SQL CAST AS DATE", || json!({"day": z, "got": format!("{:?}", o)})),
                }
            }
        }
        Err(e) => scaffold_fail(acc, "SELECT CAST(s AS DATE)", "SELECT id, CAST(s AS DATE) FROM t", &e),
    }
    match sql_q(&db, "SELECT id FROM t WHERE d = CAST(s AS DATE)") {
        Ok(rs) => {
            acc.evals += 1;
            if rs.len() != days.len() {
                acc.viol("converters_agree", "C41/converters_agree/WHERE d = CAST(s AS DATE) does not select every row", || json!({"selected": rs.len(), "rows": days.len()}));
            }
        }
        Err(e) => scaffold_fail(acc, "WHERE d = CAST(s AS DATE)", "SELECT id FROM t WHERE d = CAST(s AS DATE)", &e),
    }
    lap(acc, "cast queries");
    // date functions over the text and over the DATE column
    let list = |arg: &str| DATE_FNS.iter().map(|f| format!("{}({})", f, arg)).collect::<Vec<_>>().join(", ");
    let qtext = format!("SELECT id, {} FROM t", list("s"));
    match sql_q(&db, &qtext) {
        Ok(rs) => {
            acc.evals += rs.len() as u64;
            check_fn_rows(acc, ep, &rs, &days, "function_value", "sql_function_value", "a text argument")
        }
        Err(e) => scaffold_fail(acc, "date functions over text column", &qtext, &e),
    }
    let qdate = format!("SELECT id, {} FROM t{}", list("d"), if quick { " LIMIT 30000" } else { "" });
    match sql_q(&db, &qdate) {
        Ok(rs) => {
            acc.evals += rs.len() as u64;
            check_fn_rows(acc, ep, &rs, &days, "fn_on_date_value", "fn_on_date_value", "a DATE column")
        }
        Err(e) => scaffold_fail(acc, "date functions over DATE column", &qdate, &e),
    }
    lap(acc, "function scans");
    // literal argument form, one statement per date, on a subset
    let nlit = if miri { 3 } else if quick { 1500 } else { 20_000 };
    for _ in 0..nlit.min(days.len()) {
        let idx = rng.below(days.len() as u64) as usize;
        let (y, m, d) = cal::civil_from_days(days[idx]);
        let t = ymd_text(y, m, d);
        let q = format!("SELECT {}, {}", idx + 1, list(&format!("'{}'", t)));
        match sql_q(&db, &q) {
            Ok(rs) => {
                acc.evals += 1;
                check_fn_rows(acc, ep, &rs, &days, "function_value", "sql_function_value", "a literal argument")
            }
            Err(e) => scaffold_fail(acc, "date functions over literal", &q, &e),
        }
    }
    lap(acc, "function literal statements");
    // undocumented: implicit text->date coercion in comparisons. Observed, not judged.
    {
        let (y, m, d) = cal::civil_from_days(days[days.len() / 2]);
        let q = format!("SELECT id FROM t WHERE d = '{}'", ymd_text(y, m, d));
        if let Ok(rs) = sql_q(&db, &q) {
            acc.count("observed_where_date_eq_text_literal_rows", rs.len() as u64);
        }
    }
    // ---- invalid literals must be rejected by INSERT
    let ninv = if miri { 4 } else if quick { 400 } else { 4000 };
    let mut rejected = 0u64;
    for i in 0..ninv {
        let y = rng.range(1, 9999);
        let (m, d) = match i % 6 {
            0 => (2, if cal::is_leap(y) { 30 } else { 29 }),
            1 => (*rng.pick(&[4u32, 6, 9, 11]), 31),
            2 => (0, rng.range(1, 28) as u32),
            3 => (13, rng.range(1, 28) as u32),
            4 => (rng.range(1, 12) as u32, 0),
            _ => (rng.range(1, 12) as u32, 32),
        };
        let t = ymd_text(y, m, d);
        acc.evals += 1;
        let sql = format!("INSERT INTO t VALUES ({}, '{}', '{}')", 10_000_000 + i, t, t);
        match sql_x(&db, &sql) {
            Err(e) if e.starts_with("panic:") => scaffold_fail(acc, "INSERT invalid date", &sql, &e),
            Err(_) => rejected += 1,
            Ok(()) => acc.viol("invalid_rejected", "C41/invalid_rejected/INSERT accepts invalid date", || json!({"sql": sql})),
        }
        let (tsql, tclass) = match i % 3 {
            0 => (format!("INSERT INTO tt VALUES ({}, 'x', '{:02}:{:02}:{:02}')", 10_000_000 + i, rng.range(25, 99), rng.range(0, 59), rng.range(0, 59)), "time"),
            1 => (format!("INSERT INTO tt VALUES ({}, 'x', '{:02}:{:02}:{:02}')", 10_000_000 + i, rng.range(0, 23), rng.range(60, 99), rng.range(0, 59)), "time"),
            _ => (format!("INSERT INTO tts VALUES ({}, 'x', '{} {:02}:{:02}:{:02}')", 10_000_000 + i, t, rng.range(0, 23), rng.range(0, 59), rng.range(0, 59)), "timestamp"),
        };
        match sql_x(&db, &tsql) {
            Err(e) if e.starts_with("panic:") => scaffold_fail(acc, "INSERT invalid time", &tsql, &e),
            Err(_) => rejected += 1,
            Ok(()) => acc.viol("invalid_rejected", &format!("C41/invalid_rejected/INSERT accepts invalid {}", tclass), || json!({"sql": tsql})),
        }
    }
    acc.count("sql_invalid_literals_rejected", rejected);
    lap(acc, "invalid inserts");
    // ---- times and timestamps
    let nt = if miri { 6 } else if quick { 3000 } else { 40_000 };
    let times: Vec<(String, i64)> = (0..nt).map(|i| gen_time_text(rng, i)).collect();
    let rows: Vec<String> = times.iter().enumerate().map(|(i, (t, _))| format!("({}, '{}', '{}')", i + 1, t, t)).collect();
    if sql_insert_batches(acc, &db, "tt", &rows) {
        match sql_q(&db, "SELECT id, tm, CAST(s AS TIME), HOUR(s), MINUTE(s), SECOND(s) FROM tt") {
            Ok(rs) => {
                for r in &rs {
                    let Some(id) = row_id(r) else { continue };
                    let Some((t, us)) = times.get((id - 1) as usize) else { continue };
                    acc.evals += 1;
                    acc.nontrivial.insert((6u64 << 40) | (*us as u64 / 1_000_000));
                    let sec = us / 1_000_000;
                    let exp = [OwnedValue::Time(*us), OwnedValue::Int(*us), OwnedValue::Int(sec / 3600), OwnedValue::Int(sec / 60 % 60), OwnedValue::Int(sec % 60)];
                    let names = ["TIME column", "SQL CAST AS TIME", "SQL HOUR", "SQL MINUTE", "SQL SECOND"];
                    for k in 0..5 {
                        let got = r.values.get(k + 1);
                        let ok = got == Some(&exp[k]) || (k == 1 && got == Some(&OwnedValue::Time(*us)));
                        if !ok {
                            acc.viol(if k == 0 { "sql_round_trip" } else { "time_value" }, &format!("C41/{}/{}", if k == 0 { "sql_round_trip" } else { "time_value" }, names[k]), || json!({"text": t, "got": format!("{:?}", got), "expected": format!("{:?}", exp[k])}));
                        }
                    }
                }
                acc.count("sql_time_rows_read", rs.len() as u64);
            }
            Err(e) => scaffold_fail(acc, "SELECT times", "SELECT id, tm, .. FROM tt", &e),
        }
    }
    let ns = if miri { 6 } else if quick { 3000 } else { 40_000 };
    let stamps: Vec<(String, i64)> = (0..ns)
        .map(|i| {
            let z = match i % 8 {
                0 => cal::MIN_DAY,
                1 => cal::MAX_DAY,
                2 => -1,
                3 => 0,
                _ => days[rng.below(days.len() as u64) as usize],
            };
            let (y, m, d) = cal::civil_from_days(z);
            let (t, us) = gen_time_text(rng, if i < 64 { i / 8 } else { i });
            (format!("{}{}{}", ymd_text(y, m, d), if i % 3 == 0 { 'T' } else { ' ' }, t), z * 86_400_000_000 + us)
        })
        .collect();
    let rows: Vec<String> = stamps.iter().enumerate().map(|(i, (t, _))| format!("({}, '{}', '{}')", i + 1, t, t)).collect();
    if sql_insert_batches(acc, &db, "tts", &rows) {
        match sql_q(&db, "SELECT id, ts, CAST(s AS TIMESTAMP) FROM tts") {
            Ok(rs) => {
                for r in &rs {
                    let Some(id) = row_id(r) else { continue };
                    let Some((t, us)) = stamps.get((id - 1) as usize) else { continue };
                    acc.evals += 1;
                    acc.nontrivial.insert((7u64 << 40) | (us.div_euclid(1_000_000) as u64 & 0xff_ffff_ffff));
                    let us_l = us + ep.literal * 86_400_000_000;
                    if r.values.get(1) != Some(&OwnedValue::Timestamp(us_l)) {
                        acc.viol("sql_round_trip", "C41/sql_round_trip/TIMESTAMP column", || json!({"text": t, "got": format!("{:?}", r.values.get(1)), "expected": us_l}));
                    }
                    let us_p = us + ep.predicate * 86_400_000_000;
                    let got = r.values.get(2);
                    if !(got == Some(&OwnedValue::TimestampTz(us_p, 0)) || got == Some(&OwnedValue::Timestamp(us_p)) || got == Some(&OwnedValue::Int(us_p))) {
                        acc.viol("timestamp_value", "C41/timestamp_value/SQL CAST AS TIMESTAMP", || json!({"text": t, "got": format!("{:?}", got), "expected": us_p}));
                    }
                }
                acc.count("sql_timestamp_rows_read", rs.len() as u64);
            }
            Err(e) => scaffold_fail(acc, "SELECT timestamps", "SELECT id, ts, .. FROM tts", &e),
        }
    }
    lap(acc, "times and timestamps");
    // ---- DEFAULT through DDL + INSERT
    let ncols = 60usize;
    let ntab = if miri { 1 } else if quick { 15 } else { 150 };
    for k in 0..ntab {
        let picks: Vec<i64> = (0..ncols).map(|i| if k == 0 && i < 4 { [cal::MIN_DAY, cal::MAX_DAY, 0, -1][i] } else { days[rng.below(days.len() as u64) as usize] }).collect();
        let cols: Vec<String> = picks
            .iter()
            .enumerate()
            .map(|(i, z)| {
                let (y, m, d) = cal::civil_from_days(*z);
                format!("c{} DATE DEFAULT '{}'", i, ymd_text(y, m, d))
            })
            .collect();
        let ddl = format!("CREATE TABLE df{} (id INT, {})", k, cols.join(", "));
        if let Err(e) = sql_x(&db, &ddl) {
            scaffold_fail(acc, "CREATE TABLE with DATE DEFAULTs", &ddl, &e);
            break;
        }
        let ins = format!("INSERT INTO df{} (id) VALUES (1)", k);
        if let Err(e) = sql_x(&db, &ins) {
            scaffold_fail(acc, "INSERT using DATE DEFAULTs", &ins, &e);
            break;
        }
        match sql_q(&db, &format!("SELECT * FROM df{}", k)) {
            Ok(rs) if rs.len() == 1 => {
                for (i, z) in picks.iter().enumerate() {
                    acc.evals += 1;
                    match rs[0].values.get(i + 1) {
                        Some(OwnedValue::Date(n)) if *n as i64 == z + ep.default => {}
                        o => acc.viol("date_value", "C41/date_value/SQL DEFAULT date", || json!({"day": z, "got": format!("{:?}", o)})),
                    }
                }
                acc.count("sql_default_dates", picks.len() as u64);
            }
            Ok(rs) => acc.count("sql_default_rows_unexpected_count", rs.len() as u64 + 1),
            Err(e) => scaffold_fail(acc, "SELECT defaults", "SELECT * FROM df", &e),
        }
    }
    // invalid DEFAULT texts: any refusal (DDL error, INSERT error, NULL) is fine; a stored value is not
    let bad_defaults: [(&str, &str, &str); 8] = [
        ("DATE", "2023-02-29", "date"),
        ("DATE", "2024-02-30", "date"),
        ("DATE", "2024-04-31", "date"),
        ("DATE", "2024-13-01", "date"),
        ("DATE", "2024-00-10", "date"),
        ("DATE", "2024-01-32", "date"),
        ("TIME", "25:00:00", "time"),
        ("TIMESTAMP", "2023-02-29 12:00:00", "timestamp"),
    ];
    for (k, (ty, text, kind)) in bad_defaults.iter().enumerate() {
        acc.evals += 1;
        let ddl = format!("CREATE TABLE bd{} (id INT, c {} DEFAULT '{}')", k, ty, text);
        if sql_x(&db, &ddl).is_err() {
            continue;
        }
        if sql_x(&db, &format!("INSERT INTO bd{} (id) VALUES (1)", k)).is_err() {
            continue;
        }
        if let Ok(rs) = sql_q(&db, &format!("SELECT c FROM bd{}", k)) {
            if let Some(v) = rs.first().and_then(|r| r.values.first()) {
                if *v != OwnedValue::Null {
                    acc.viol("invalid_rejected", &format!("C41/invalid_rejected/DEFAULT {} parser accepts invalid {}", kind, kind), || json!({"ddl": ddl, "stored": format!("{:?}", v)}));
                }
            }
        }
    }
    lap(acc, "defaults");
    // ---- close, reopen, read again
    let closed = catch(|| {
        let _ = db.close();
        drop(db);
    });
    if let Err(p) = closed {
        acc.viol("no_panic", &format!("C41/panic/close@{}", panic_site(&p)), || json!({"panic": short(&p)}));
    }
    if !miri {
        match catch(|| Database::open(dbpath)) {
            Ok(Ok(db2)) => {
                check_stored(acc, &db2, "after reopen");
                let _ = catch(|| {
                    let _ = db2.close();
                    drop(db2);
                });
            }
            o => acc.viol("sql_statement_ok", "C41/sql_failed/Database::open after close", || json!({"error": format!("{:?}", o.map(|r| r.map(|_| ()).map_err(|e| e.to_string())))})),
        }
    }
    lap(acc, "close reopen read");
    Some(SqlData { days, times, stamps })
}

// ------------------------------------------------------------------------------------------
// Rendering. The only text renderer of DATE/TIME/TIMESTAMP is cli::table (feature `cli`), which
// the harness crate does not enable; it is reached through the turdb CLI binary when available.
// ------------------------------------------------------------------------------------------
fn find_cli() -> Option<String> {
    let mut cands: Vec<String> = vec![];
    if let Ok(p) = std::env::var("TV_TURDB_CLI") {
        cands.push(p);
    }
    for p in ["/verif/target/cli/debug/turdb", "/verif/target/cli/release/turdb", "/verif/target/debug/turdb", "/verif/target/release/turdb", "/verif/target-agent-c41/cli/debug/turdb"] {
        cands.push(p.to_string());
    }
    cands.into_iter().find(|p| std::path::Path::new(p).is_file())
}

/// run one SELECT through the CLI on the (closed) database; returns the data rows as cells
fn cli_query(cli: &str, dbpath: &str, sql: &str) -> Result<Vec<Vec<String>>, String> {
    use std::io::Write;
    use std::process::{Command, Stdio};
    let mut child = Command::new(cli).arg(dbpath).stdin(Stdio::piped()).stdout(Stdio::piped()).stderr(Stdio::piped()).spawn().map_err(|e| e.to_string())?;
    {
        let mut si = child.stdin.take().ok_or("no stdin")?;
        si.write_all(format!("{};\n.quit\n", sql).as_bytes()).map_err(|e| e.to_string())?;
    }
    let out = child.wait_with_output().map_err(|e| e.to_string())?;
    let text = String::from_utf8_lossy(&out.stdout);
    let mut rows = vec![];
    for line in text.lines() {
        let line = line.trim();
        if !line.starts_with('|') {
            continue;
        }
        let cells: Vec<String> = line.trim_matches('|').split('|').map(|c| c.trim().to_string()).collect();
        if cells.first().map(|c| c == "id").unwrap_or(true) {
            continue;
        }
        rows.push(cells);
    }
    if rows.is_empty() {
        return Err(format!("no table in CLI output; exit {:?}; stderr: {}", out.status.code(), short(&String::from_utf8_lossy(&out.stderr))));
    }
    Ok(rows)
}

fn render_part(acc: &mut Acc, cli: &str, dbpath: &str, data: &SqlData) {
    // `SELECT *` on purpose: the CLI runs Database::execute, whose SELECT path mis-maps projections
    // that are not a prefix of the table's columns (not a calendar matter, reported separately).
    // Tables are (id, s, <value>): the rendered value is cell 2.
    // DATE: ISO 8601 YYYY-MM-DD is the documented literal form; the statement asks for the same text back
    match cli_query(cli, dbpath, "SELECT * FROM t") {
        Ok(rows) => {
            let mut n = 0u64;
            for r in &rows {
                let (Some(id), Some(cell)) = (r.first().and_then(|c| c.parse::<i64>().ok()), r.get(2)) else { continue };
                let Some(&z) = data.days.get((id - 1) as usize) else { continue };
                n += 1;
                acc.evals += 1;
                let (y, m, d) = cal::civil_from_days(z);
                let want = ymd_text(y, m, d);
                if read_ymd(cell) != Some((y, m, d)) {
                    acc.viol("render_value", "C41/render_value/date", || json!({"stored_day": z, "rendered": cell, "expected": want}));
                } else if *cell != want {
                    acc.viol("render_canonical", "C41/render_canonical/date", || json!({"stored_day": z, "rendered": cell, "expected": want}));
                }
            }
            acc.count("rendered_dates", n);
        }
        Err(e) => acc.count(&format!("render_cli_failed[{}]", short(&e)), 1),
    }
    match cli_query(cli, dbpath, "SELECT * FROM tt") {
        Ok(rows) => {
            let mut n = 0u64;
            for r in &rows {
                let (Some(id), Some(cell)) = (r.first().and_then(|c| c.parse::<i64>().ok()), r.get(2)) else { continue };
                let Some((t, us)) = data.times.get((id - 1) as usize) else { continue };
                n += 1;
                acc.evals += 1;
                if read_hms_micros(cell) != Some(*us) {
                    acc.viol("render_value", "C41/render_value/time", || json!({"literal": t, "stored_micros": us, "rendered": cell}));
                }
            }
            acc.count("rendered_times", n);
        }
        Err(e) => acc.count(&format!("render_cli_failed[{}]", short(&e)), 1),
    }
    match cli_query(cli, dbpath, "SELECT * FROM tts") {
        Ok(rows) => {
            let mut n = 0u64;
            for r in &rows {
                let (Some(id), Some(cell)) = (r.first().and_then(|c| c.parse::<i64>().ok()), r.get(2)) else { continue };
                let Some((t, us)) = data.stamps.get((id - 1) as usize) else { continue };
                n += 1;
                acc.evals += 1;
                if read_ts_micros(cell) != Some(*us) {
                    let sig = if *us < 0 { "C41/render_value/timestamp before 1970" } else { "C41/render_value/timestamp" };
                    acc.viol("render_value", sig, || json!({"literal": t, "stored_micros": us, "rendered": cell}));
                }
            }
            acc.count("rendered_timestamps", n);
        }
        Err(e) => acc.count(&format!("render_cli_failed[{}]", short(&e)), 1),
    }
}

// ------------------------------------------------------------------------------------------
pub fn run(a: &Args) -> i32 {
    let miri = cfg!(miri);
    let mut ctx = Ctx::new(
        "C41",
        &a.tier,
        a.seed,
        "exploration",
        "dates: every (y,m,d) with y in 1..=9999, m in 0..=13, d in 0..=32 (all 3 652 059 valid days + every invalid combination) through parse_date, the DEFAULT parser, CAST AS DATE in the predicate evaluator and the date functions, against a harness calendar that is itself cross-checked day by day; SQL: 1-in-50 sample + year/leap/month boundaries inserted, read back, cast, compared and fed to the functions; times: every second of the day with fractions of 0..9 digits; timestamps: every second of sampled and boundary days. distinct_nontrivial = distinct (year mod 400, month, day) / second-of-day / sampled-day classes observed",
    );
    ctx.max_samples = 8;
    let mut rng = Rng::derive(a.seed, 41);
    let quick = ctx.quick();

    // 0. the oracle checks itself first
    let (cy_lo, cy_hi) = if miri { (1995, 2005) } else { (1, 9999) };
    match cal::selfcheck(cy_lo, cy_hi) {
        Ok(n) => {
            ctx.extra.insert("calendar_selfcheck_days".into(), json!(n));
        }
        Err(e) => {
            ctx.inconclusive(&format!("harness calendar self-check failed: {}", e));
            return ctx.finish();
        }
    }
    let ep = match measure_epochs() {
        Ok(e) => e,
        Err(e) => {
            ctx.eval();
            ctx.violation("valid_accepted", "C41/valid_rejected/anchor date 1970-01-01", json!({"detail": e}));
            return ctx.finish();
        }
    };
    ctx.extra.insert(
        "measured_conventions".into(),
        json!({"day_number_of_1970-01-01": {"parse_date": ep.literal, "DEFAULT": ep.default, "CAST AS DATE": ep.predicate, "TO_DAYS": ep.to_days}, "DAYOFWEEK(saturday)": ep.dow_sat, "WEEKDAY(saturday)": ep.wd_sat}),
    );
    let mut top = Acc::default();
    // everything that ends up in a DATE column must use one epoch
    if ep.default != ep.literal || ep.predicate != ep.literal {
        top.viol("converters_agree", "C41/converters_agree/epoch differs between converters", || json!({"parse_date": ep.literal, "DEFAULT": ep.default, "CAST": ep.predicate}));
    }
    if !(1..=7).contains(&ep.dow_sat) || !(0..=6).contains(&ep.wd_sat) {
        top.viol("function_value", "C41/function_value/DAYOFWEEK or WEEKDAY out of range on the anchor", || json!({"DAYOFWEEK": ep.dow_sat, "WEEKDAY": ep.wd_sat}));
    }

    // 1 + 3. dates
    let nthreads = if miri { 1 } else { std::thread::available_parallelism().map(|n| n.get()).unwrap_or(4).min(8) };
    let years: Vec<(i64, DateOpts)> = if miri {
        [1970i64, 2000, 2023, 2024].iter().map(|y| (*y, DateOpts { literal: true, functions_full: true })).collect()
    } else {
        (1..=9999).map(|y| (y, DateOpts { literal: true, functions_full: !quick || y % 8 == (a.seed % 8) as i64 })).collect()
    };
    let all_years = years.len() == 9999;
    let t0 = ctx.elapsed();
    let dates = date_pass(&mut rng, ep, years, nthreads);
    let valid_seen = dates.counters.get("valid_dates").copied().unwrap_or(0);
    let lit_seen = dates.counters.get("literal_valid_dates").copied().unwrap_or(0);
    top.merge(dates);
    ctx.extra.insert("date_pass_wall_s".into(), json!(((ctx.elapsed() - t0) * 10.0).round() / 10.0));
    ctx.exhaustive = Some(all_years && valid_seen == cal::TOTAL_DAYS && lit_seen == cal::TOTAL_DAYS);

    // 4. times, timestamps
    let t1 = ctx.elapsed();
    let day_secs: i64 = if miri { 120 } else { 86_400 };
    let mut trng = Rng::new(rng.next());
    let mut s = 0;
    while s < day_secs {
        time_block(&mut top, &mut trng, s, (s + 3600).min(day_secs));
        s += 3600;
    }
    invalid_times(&mut top);
    if !miri {
        // boundary days always; random days per seed. Literal parser on every second near 1970,
        // on a stride far away in the quick tier (its cost grows with |year - 1970|).
        let mut ts_days: Vec<i64> = vec![cal::MIN_DAY, cal::MAX_DAY, -1, 0, cal::days_from_civil(2000, 2, 29), cal::days_from_civil(1900, 2, 28)];
        let nrand = if quick { 4 } else { 100 };
        for i in 0..nrand {
            ts_days.push(if i % 2 == 0 { rng.range(cal::MIN_DAY, cal::MAX_DAY) } else { rng.range(cal::days_from_civil(1600, 1, 1), cal::days_from_civil(2400, 12, 31)) });
        }
        let jobs: Vec<(i64, u64)> = ts_days.iter().map(|z| (*z, rng.next())).collect();
        let mut handles = vec![];
        for chunk in jobs.chunks(jobs.len().div_ceil(nthreads)) {
            let chunk = chunk.to_vec();
            handles.push(std::thread::spawn(move || {
                let mut acc = Acc::default();
                for (z, s) in chunk {
                    let mut r = Rng::new(s);
                    let far = (cal::civil_from_days(z).0 - 1970).abs() > 400;
                    ts_day(&mut acc, &mut r, &ep, z, 1, if quick && far { 7 } else { 1 });
                }
                acc
            }));
        }
        for h in handles {
            match h.join() {
                Ok(acc) => top.merge(acc),
                Err(_) => top.viol("no_panic", "C41/harness/worker thread died", || json!({})),
            }
        }
        let ts_day_texts: Vec<String> = ts_days
            .iter()
            .map(|z| {
                let (y, m, d) = cal::civil_from_days(*z);
                ymd_text(y, m, d)
            })
            .collect();
        ctx.extra.insert("timestamp_days".into(), json!(ts_day_texts));
    } else {
        ts_day(&mut top, &mut trng, &ep, -1, 7200, 1);
    }
    invalid_timestamps(&mut top, &mut rng, if miri { 12 } else if quick { 3000 } else { 60_000 });
    ctx.extra.insert("time_pass_wall_s".into(), json!(((ctx.elapsed() - t1) * 10.0).round() / 10.0));

    // 2. SQL (+ rendering through the CLI when there is one)
    if !miri {
        let t2 = ctx.elapsed();
        let dir = format!("/verif/scratch/c41-{}", std::process::id());
        let _ = std::fs::remove_dir_all(&dir);
        let _ = std::fs::create_dir_all(&dir);
        let dbpath = format!("{}/db", dir);
        let reduce = quick && ctx.elapsed() > 12.0;
        let data = sql_part(&mut top, &mut rng, &ep, &dbpath, quick, miri, reduce);
        ctx.extra.insert("sql_pass_wall_s".into(), json!(((ctx.elapsed() - t2) * 10.0).round() / 10.0));
        match (find_cli(), data) {
            (Some(cli), Some(data)) => {
                let t3 = ctx.elapsed();
                render_part(&mut top, &cli, &dbpath, &data);
                ctx.extra.insert("render_checked_through".into(), json!(cli));
                ctx.extra.insert("render_pass_wall_s".into(), json!(((ctx.elapsed() - t3) * 10.0).round() / 10.0));
            }
            _ => {
                ctx.extra.insert("render_checked_through".into(), J::Null);
                ctx.assumptions.push("canonical re-rendering NOT checked in this run: the only DATE/TIME/TIMESTAMP text renderer is turdb::cli::table (cargo feature `cli`), not enabled in the harness build, and no turdb CLI binary was found (TV_TURDB_CLI or /verif/target/cli/debug/turdb)".into());
            }
        }
        let _ = std::fs::remove_dir_all(&dir);
    }

    top.samples.push(json!({"text": "2024-02-29", "parse_date": format!("{:?}", conv_date_literal("2024-02-29")), "DEFAULT": format!("{:?}", conv_defaults(&["2024-02-29".to_string()], RecType::Date)), "CAST": format!("{:?}", conv_predicate("2024-02-29", AstType::Date)), "TO_DAYS": format!("{:?}", fcall("TO_DAYS", &[tx("2024-02-29")])), "calendar_day": cal::days_from_civil(2024, 2, 29)}));
    top.samples.push(json!({"text": "2023-02-29", "parse_date": format!("{:?}", conv_date_literal("2023-02-29")), "DEFAULT": format!("{:?}", conv_defaults(&["2023-02-29".to_string()], RecType::Date)), "CAST": format!("{:?}", conv_predicate("2023-02-29", AstType::Date))}));
    top.samples.push(json!({"text": "23:59:59.999999", "parse_time": format!("{:?}", conv_time_literal("23:59:59.999999"))}));
    top.samples.push(json!({"text": "0001-01-01T00:00:00", "parse_timestamp": format!("{:?}", conv_ts_literal("0001-01-01T00:00:00")), "calendar_micros": cal::MIN_DAY * 86_400_000_000}));
    top.flush(&mut ctx);
    ctx.assumptions.push("private helpers (date_to_days_since_epoch, days_from_ymd, date_to_days, days_to_date) are reached through their only public callers (parse_date, apply_defaults, TO_DAYS/DATEDIFF/DATE_ADD, FROM_DAYS), which add field splitting and range checks but no calendar arithmetic".into());
    ctx.assumptions.push("week numbering (WEEK/WEEKOFYEAR/YEARWEEK), 24:00:00, second 60, two-field times and implicit text-to-date coercion in comparisons are undocumented and not judged".into());
    ctx.finish()
}

//! C42: configuration choices do not change query results.
//!
//! MODEL-FREE differential check. One generated history (DDL + DML + prepared-insert bursts + transactions +
//! TRUNCATE + queries + clean reopen + explicit checkpoints) is executed on a fresh database once per
//! configuration; the *baseline* run issues no PRAGMA at all (the default database every other check uses), every
//! other run issues `PRAGMA wal`, `PRAGMA synchronous`, `PRAGMA wal_checkpoint_threshold` (only when "tiny") and
//! `PRAGMA wal_autoflush` right after create (and again after each reopen, since they are not persisted).
//! Oracle: every statement's outcome (ok / error class / panic site, rows_affected, returned rows as a bag - or as
//! a sequence when ORDER BY covers the primary key), the final state (per table: SELECT * bag, COUNT(*), ordered pk
//! list, index probes on pk / secondary / unique columns) and the same observations after a clean close + reopen
//! must be IDENTICAL to the baseline run. A mismatch is shrunk by dropping pragmas one at a time and ddmin over
//! the history; signature = C42/<pragmas that are still needed>/<statement kind | observation>/<what differs>.
//!
//! Many-files variant: a history over 72 tables + 72 secondary indexes (the open-file LRU in
//! src/storage/file_manager.rs holds 64 mmaps; Database::ensure_file_manager passes 64) written round-robin in
//! autocommit, inside committed and rolled-back transactions, then read back; it is compared (a) against the
//! same logical history split over 9 databases of 8 tables (no eviction there), (b) across configurations,
//! (c) after reopen. Eviction is *measured* by counting the database's mmapped files in /proc/self/maps.
use crate::report::{catch, Ctx};
use crate::rng::{fnv, Rng};
use crate::sqlm::db::{conv_rows, Scratch};
use crate::sqlm::val::{row_key, Row, V};
use crate::Args;
use serde_json::{json, Value as J};
use std::collections::{BTreeMap, BTreeSet};
use std::path::{Path, PathBuf};
use std::time::Instant;
use turdb::{Database, ExecuteResult, OwnedValue};

// ------------------------------------------------------------------------------------------------
// configurations
// ------------------------------------------------------------------------------------------------

/// one explicitly issued pragma
#[derive(Clone, Debug, PartialEq, Eq, Hash, PartialOrd, Ord)]
struct Pragma {
    name: &'static str,
    /// value as issued
    value: String,
    /// value as it appears in signatures ("tiny" instead of the number)
    sigval: String,
}

impl Pragma {
    fn sql(&self) -> String {
        format!("PRAGMA {} = {}", self.name, self.value)
    }
    fn sig(&self) -> String {
        format!("{}={}", self.name, self.sigval)
    }
}

#[derive(Clone, Copy, Debug, PartialEq, Eq, Hash)]
struct Cfg {
    wal: bool,
    /// 0 OFF, 1 NORMAL, 2 FULL
    sync: u8,
    autoflush: bool,
    tiny: bool,
}

impl Cfg {
    /// pragmas in the order they are issued: wal first (creates the WAL object when ON), synchronous (creates the
    /// WAL object in any case), threshold (silently ignored when no WAL object exists), autoflush.
    fn pragmas(&self, tiny_val: u32) -> Vec<Pragma> {
        let mut v = vec![];
        let onoff = |b: bool| if b { "ON" } else { "OFF" }.to_string();
        v.push(Pragma { name: "wal", value: onoff(self.wal), sigval: onoff(self.wal) });
        let s = ["OFF", "NORMAL", "FULL"][self.sync as usize].to_string();
        v.push(Pragma { name: "synchronous", value: s.clone(), sigval: s });
        if self.tiny {
            v.push(Pragma { name: "wal_checkpoint_threshold", value: tiny_val.to_string(), sigval: "tiny".into() });
        }
        v.push(Pragma { name: "wal_autoflush", value: onoff(self.autoflush), sigval: onoff(self.autoflush) });
        v
    }
    fn label(&self) -> String {
        format!("wal={},synchronous={},wal_autoflush={},wal_checkpoint_threshold={}", if self.wal { "ON" } else { "OFF" }, ["OFF", "NORMAL", "FULL"][self.sync as usize], if self.autoflush { "ON" } else { "OFF" }, if self.tiny { "tiny" } else { "default" })
    }
}

fn all_cfgs() -> Vec<Cfg> {
    let mut v = vec![];
    for wal in [false, true] {
        for sync in [2u8, 1, 0] {
            for autoflush in [true, false] {
                for tiny in [false, true] {
                    v.push(Cfg { wal, sync, autoflush, tiny });
                }
            }
        }
    }
    v
}

/// `n` configurations that together cover every value of every pragma; at least n-2 of them with WAL on
fn pick_cfgs(rng: &mut Rng, n: usize) -> Vec<Cfg> {
    let all = all_cfgs();
    loop {
        let mut idx: Vec<usize> = (0..all.len()).collect();
        rng.shuffle(&mut idx);
        let pick: Vec<Cfg> = idx.iter().take(n).map(|&i| all[i]).collect();
        let cover = pick.iter().any(|c| c.wal)
            && pick.iter().any(|c| !c.wal)
            && (0..3).all(|s| pick.iter().any(|c| c.sync == s))
            && pick.iter().any(|c| c.autoflush)
            && pick.iter().any(|c| !c.autoflush)
            && pick.iter().any(|c| c.tiny)
            && pick.iter().any(|c| !c.tiny);
        let wal_on = pick.iter().filter(|c| c.wal).count();
        // the interesting interactions all need WAL on: cover sync/autoflush/threshold values there too
        let cover_on = (0..3).all(|s| pick.iter().any(|c| c.wal && c.sync == s)) && pick.iter().any(|c| c.wal && !c.autoflush) && pick.iter().any(|c| c.wal && c.tiny) && pick.iter().any(|c| c.wal && !c.tiny);
        if cover && cover_on && wal_on + 2 >= n {
            return pick;
        }
    }
}

// ------------------------------------------------------------------------------------------------
// histories
// ------------------------------------------------------------------------------------------------

#[derive(Clone, Debug)]
enum St {
    /// plain SQL through Database::execute; `seq`: result rows compared as a sequence (ORDER BY covers the pk)
    Sql { kind: &'static str, sql: String, seq: bool },
    /// prepared INSERT executed once per row through execute_with_cached_plan (first execution builds the cached
    /// plan, later ones go through Database::insert_cached - the only consumer of wal_autoflush)
    Prep { sql: String, rows: Vec<Row> },
    /// clean close + open + pragmas re-issued
    Reopen,
    /// Database::checkpoint() (the API call: flush dirty pages to the WAL, truncate the WAL)
    ApiCheckpoint,
}

impl St {
    fn kind(&self) -> &'static str {
        match self {
            St::Sql { kind, .. } => kind,
            St::Prep { .. } => "prepared_insert",
            St::Reopen => "reopen",
            St::ApiCheckpoint => "checkpoint",
        }
    }
    fn text(&self) -> String {
        match self {
            St::Sql { sql, .. } => sql.clone(),
            St::Prep { sql, rows } => format!("PREPARED {} x{} [{}]", sql, rows.len(), rows.iter().map(|r| format!("({})", r.iter().map(|v| short(&v.sql())).collect::<Vec<_>>().join(","))).collect::<Vec<_>>().join(" ")),
            St::Reopen => "-- close cleanly, reopen, re-issue pragmas".into(),
            St::ApiCheckpoint => "-- Database::checkpoint()".into(),
        }
    }
}

fn short(s: &str) -> String {
    if s.len() > 40 {
        format!("{}..({}B)'", &s[..24], s.len() - 2)
    } else {
        s.to_string()
    }
}

#[derive(Clone, Debug)]
struct TableInfo {
    name: String,
    has_k_index: bool,
    has_u: bool,
    /// probe constants collected by the generator
    ids: BTreeSet<i64>,
    us: BTreeSet<String>,
}

#[derive(Clone, Debug)]
struct Hist {
    tables: Vec<TableInfo>,
    stmts: Vec<St>,
    /// close() + drop, or drop only (both are clean closes)
    explicit_close: bool,
    tiny_val: u32,
}

const K_DOMAIN: i64 = 6;

struct Gen<'a> {
    rng: &'a mut Rng,
    tables: Vec<TableInfo>,
    next_id: Vec<i64>,
    stmts: Vec<St>,
    serial: usize,
    st: Strata,
}

impl<'a> Gen<'a> {
    fn payload(&mut self, tag: &str) -> String {
        // self-identifying text; a length stratum decides how many pages a statement dirties
        let len = match self.rng.below(10) {
            0..=4 => self.rng.usize(0, 24),
            5..=7 => self.rng.usize(100, 500),
            8 if self.st.big => self.rng.usize(900, 1100),
            9 if self.st.big => self.rng.usize(1500, 3500),
            _ => self.rng.usize(20, 200),
        };
        let mut s = tag.to_string();
        let fill = (b'a' + self.rng.below(26) as u8) as char;
        while s.len() < len {
            s.push(fill);
        }
        s
    }
    fn pred(&mut self, t: usize) -> String {
        let hi = self.next_id[t].max(4);
        match self.rng.below(8) {
            0 | 1 => format!("id = {}", self.rng.range(0, hi)),
            2 => format!("k = {}", self.rng.range(0, K_DOMAIN - 1)),
            3 => {
                let a = self.rng.range(0, hi);
                format!("id BETWEEN {} AND {}", a, a + self.rng.range(0, 12))
            }
            4 => "n IS NULL".into(),
            5 => format!("k < {}", self.rng.range(1, K_DOMAIN)),
            6 => format!("id > {}", self.rng.range(0, hi)),
            _ => format!("n >= {} AND k <> {}", self.rng.range(0, 5), self.rng.range(0, K_DOMAIN - 1)),
        }
    }
    fn row(&mut self, t: usize) -> Row {
        self.serial += 1;
        let id = if self.rng.chance(1, 8) && self.next_id[t] > 0 {
            self.rng.range(0, self.next_id[t] - 1) // probably a pk collision
        } else {
            self.next_id[t] += 1;
            self.next_id[t] - 1
        };
        self.tables[t].ids.insert(id);
        let k = self.rng.range(0, K_DOMAIN - 1);
        let u = if self.rng.chance(1, 25) && !self.tables[t].us.is_empty() {
            let us: Vec<&String> = self.tables[t].us.iter().collect();
            (*self.rng.pick(&us)).clone()
        } else {
            format!("u{}_{}", t, self.serial)
        };
        self.tables[t].us.insert(u.clone());
        let v = {
            let tag = format!("v{}_{}_", t, self.serial);
            self.payload(&tag)
        };
        let n = if self.rng.chance(1, 5) { V::Null } else { V::Int(self.rng.range(0, 9)) };
        vec![V::Int(id), V::Int(k), V::Text(u), V::Text(v), n]
    }
    fn push(&mut self, kind: &'static str, sql: String) {
        self.stmts.push(St::Sql { kind, sql, seq: false });
    }
    /// one of the three ways to ask for a checkpoint
    fn checkpoint(&mut self) {
        match self.rng.below(5) {
            0 => self.stmts.push(St::ApiCheckpoint),
            1 => self.push("checkpoint", "PRAGMA wal_checkpoint_stats".into()),
            _ => self.push("checkpoint", "PRAGMA wal_checkpoint".into()),
        }
    }
    fn dml(&mut self, t: usize) {
        let name = self.tables[t].name.clone();
        match self.rng.below(20) {
            0..=7 => {
                let n = if self.rng.chance(1, 6) { self.rng.usize(10, 40) } else { self.rng.usize(1, 6) };
                let rows: Vec<Row> = (0..n).map(|_| self.row(t)).collect();
                let vals = rows.iter().map(|r| format!("({})", r.iter().map(|v| v.sql()).collect::<Vec<_>>().join(", "))).collect::<Vec<_>>().join(", ");
                self.push("insert", format!("INSERT INTO {} (id, k, u, v, n) VALUES {}", name, vals));
            }
            8..=10 if self.st.prepared => {
                let n = self.rng.usize(2, 10);
                let rows: Vec<Row> = (0..n).map(|_| self.row(t)).collect();
                self.stmts.push(St::Prep { sql: format!("INSERT INTO {} VALUES (?, ?, ?, ?, ?)", name), rows });
            }
            8..=15 => {
                self.serial += 1;
                let p = self.pred(t);
                let set = match self.rng.below(5) {
                    0 => format!("k = {}", self.rng.range(0, K_DOMAIN - 1)),
                    1 => "n = n + 1".to_string(),
                    2 => {
                        let tag = format!("w{}_{}_", t, self.serial);
                        format!("v = '{}'", self.payload(&tag))
                    }
                    3 => {
                        let tag = format!("w{}_{}_", t, self.serial);
                        format!("k = k + 1, v = '{}'", self.payload(&tag))
                    }
                    _ => "n = NULL".to_string(),
                };
                self.push("update", format!("UPDATE {} SET {} WHERE {}", name, set, p));
            }
            16..=18 => {
                let p = self.pred(t);
                self.push("delete", format!("DELETE FROM {} WHERE {}", name, p));
            }
            _ => {
                if self.st.truncate {
                    self.push("truncate", format!("TRUNCATE TABLE {}", name));
                } else {
                    let p = self.pred(t);
                    self.push("delete", format!("DELETE FROM {} WHERE {}", name, p));
                }
            }
        }
    }
    fn select(&mut self, t: usize) {
        let name = self.tables[t].name.clone();
        match self.rng.below(6) {
            0 | 1 => {
                let p = self.pred(t);
                let desc = if self.rng.chance(1, 3) { " DESC" } else { "" };
                self.stmts.push(St::Sql { kind: "select_ordered", sql: format!("SELECT id, k, u, n FROM {} WHERE {} ORDER BY id{}", name, p, desc), seq: true });
            }
            2 => {
                let k = self.rng.range(0, K_DOMAIN - 1);
                self.push("select_where", format!("SELECT * FROM {} WHERE k = {}", name, k));
            }
            3 => {
                let p = self.pred(t);
                self.push("select_aggregate", format!("SELECT COUNT(*), SUM(k), MIN(id), MAX(id) FROM {} WHERE {}", name, p));
            }
            4 => self.push("select_aggregate", format!("SELECT k, COUNT(*) FROM {} GROUP BY k", name)),
            _ => self.push("select_aggregate", format!("SELECT COUNT(*) FROM {}", name)),
        }
    }
}

/// per-history feature strata: each history draws a small random subset, so most histories are free of any given
/// defective feature and stay fully sensitive to the others
#[derive(Clone, Copy, Debug)]
struct Strata {
    txn: bool,
    rollback: bool,
    savepoint: bool,
    checkpoint: bool,
    checkpoint_in_txn: bool,
    reopen: bool,
    prepared: bool,
    truncate: bool,
    big: bool,
}

fn gen_history(rng: &mut Rng, max_stmts: usize) -> Hist {
    let ntables = rng.usize(1, 3);
    let txn = rng.chance(3, 4);
    let st = Strata {
        txn,
        rollback: txn && rng.chance(3, 5),
        savepoint: txn && rng.chance(1, 4),
        checkpoint: rng.chance(2, 5),
        checkpoint_in_txn: txn && rng.chance(1, 6),
        reopen: rng.chance(2, 5),
        prepared: rng.chance(1, 2),
        truncate: rng.chance(2, 5),
        big: rng.chance(1, 2),
    };
    let mut g = Gen { rng, tables: vec![], next_id: vec![], stmts: vec![], serial: 0, st };
    for t in 0..ntables {
        let has_u = g.rng.chance(3, 4);
        let has_k_index = g.rng.chance(4, 5);
        let name = format!("t{}", t);
        g.push("create_table", format!("CREATE TABLE {} (id BIGINT PRIMARY KEY, k BIGINT, u TEXT{}, v TEXT, n BIGINT)", name, if has_u { " UNIQUE" } else { "" }));
        g.tables.push(TableInfo { name: name.clone(), has_k_index, has_u, ids: BTreeSet::new(), us: BTreeSet::new() });
        g.next_id.push(0);
        if has_k_index && g.rng.chance(2, 3) {
            g.push("create_index", format!("CREATE INDEX ix_{}_k ON {} (k)", name, name));
        }
    }
    // index created mid-history for the rest
    let mut late_index: Vec<usize> = (0..ntables).filter(|&t| g.tables[t].has_k_index && !g.stmts.iter().any(|s| s.text().contains(&format!("ix_t{}_k", t)))).collect();
    let target = g.rng.usize(max_stmts / 2, max_stmts);
    while g.stmts.len() < target {
        let t = g.rng.below(ntables as u64) as usize;
        match g.rng.below(24) {
            0..=9 => g.dml(t),
            10..=13 => g.select(t),
            14..=17 if st.txn => {
                // transaction block
                g.push("begin", "BEGIN".into());
                let n = g.rng.usize(1, 6);
                let mut sp = false;
                for _ in 0..n {
                    let t2 = g.rng.below(ntables as u64) as usize;
                    if g.rng.chance(1, 4) {
                        g.select(t2);
                    } else {
                        g.dml(t2);
                    }
                    if st.checkpoint_in_txn && g.rng.chance(1, 5) {
                        g.checkpoint();
                    }
                    if st.savepoint {
                        if !sp && g.rng.chance(1, 3) {
                            g.push("savepoint", "SAVEPOINT s1".into());
                            sp = true;
                        } else if sp && g.rng.chance(1, 3) {
                            g.push("rollback_to", "ROLLBACK TO s1".into());
                        }
                    }
                }
                if !st.rollback || g.rng.chance(3, 5) {
                    g.push("commit", "COMMIT".into());
                } else {
                    g.push("rollback", "ROLLBACK".into());
                }
                if g.rng.chance(1, 2) {
                    g.select(t);
                }
            }
            18 | 19 if st.checkpoint => g.checkpoint(),
            20 if st.reopen => g.stmts.push(St::Reopen),
            21 => {
                if let Some(t) = late_index.pop() {
                    let name = g.tables[t].name.clone();
                    g.push("create_index", format!("CREATE INDEX ix_{}_k ON {} (k)", name, name));
                } else {
                    g.dml(t);
                }
            }
            14..=20 => g.dml(t),
            _ => g.select(t),
        }
    }
    let explicit_close = g.rng.chance(1, 2);
    let tiny_val = g.rng.range(2, 10) as u32;
    Hist { tables: g.tables, stmts: g.stmts, explicit_close, tiny_val }
}

// ------------------------------------------------------------------------------------------------
// trigger features of a history and their knock-outs (used to name the cause in the signature)
// ------------------------------------------------------------------------------------------------

const FEATURES: [&str; 9] = ["checkpoint_in_txn", "checkpoint", "reopen", "truncate", "prepared_insert", "savepoint", "rollback", "txn", "secondary_index"];

/// for each statement: is it (statically) inside a BEGIN..COMMIT/ROLLBACK block
fn in_txn_flags(stmts: &[St]) -> Vec<bool> {
    let mut v = vec![];
    let mut inside = false;
    for s in stmts {
        match s.kind() {
            "begin" => {
                v.push(false);
                inside = true;
            }
            "commit" | "rollback" => {
                v.push(false);
                inside = false;
            }
            _ => v.push(inside),
        }
    }
    v
}

fn has_feature(h: &Hist, f: &str) -> bool {
    let flags = in_txn_flags(&h.stmts);
    h.stmts.iter().enumerate().any(|(i, s)| match f {
        "checkpoint_in_txn" => s.kind() == "checkpoint" && flags[i],
        "checkpoint" => s.kind() == "checkpoint" && !flags[i],
        "reopen" => s.kind() == "reopen",
        "truncate" => s.kind() == "truncate",
        "prepared_insert" => s.kind() == "prepared_insert",
        "savepoint" => matches!(s.kind(), "savepoint" | "rollback_to"),
        "rollback" => s.kind() == "rollback",
        "txn" => matches!(s.kind(), "begin" | "commit" | "rollback"),
        "secondary_index" => s.kind() == "create_index",
        _ => false,
    })
}

/// the same history without the feature (same data flow where possible: a prepared burst becomes plain INSERTs,
/// ROLLBACK becomes COMMIT, transaction control is dropped)
fn knock_out(h: &Hist, f: &str) -> Hist {
    let flags = in_txn_flags(&h.stmts);
    let mut out: Vec<St> = vec![];
    for (i, s) in h.stmts.iter().enumerate() {
        let k = s.kind();
        match f {
            "checkpoint_in_txn" if k == "checkpoint" && flags[i] => {}
            "checkpoint" if k == "checkpoint" && !flags[i] => {}
            "reopen" if k == "reopen" => {}
            "truncate" if k == "truncate" => {}
            "prepared_insert" if k == "prepared_insert" => {
                if let St::Prep { sql, rows } = s {
                    let table = sql.split_whitespace().nth(2).unwrap_or("t0");
                    for r in rows {
                        out.push(St::Sql { kind: "insert", sql: format!("INSERT INTO {} VALUES ({})", table, r.iter().map(|v| v.sql()).collect::<Vec<_>>().join(", ")), seq: false });
                    }
                }
            }
            "savepoint" if matches!(k, "savepoint" | "rollback_to") => {}
            "rollback" if k == "rollback" => out.push(St::Sql { kind: "commit", sql: "COMMIT".into(), seq: false }),
            "txn" if matches!(k, "begin" | "commit" | "rollback" | "savepoint" | "rollback_to") => {}
            "secondary_index" if k == "create_index" => {}
            _ => out.push(s.clone()),
        }
    }
    Hist { stmts: out, ..h.clone() }
}

// ------------------------------------------------------------------------------------------------
// execution + observation
// ------------------------------------------------------------------------------------------------

/// what was observed for one statement / probe
#[derive(Clone, Debug, PartialEq)]
struct Obs {
    /// "ok" | "error:<class>" | "panic:<file:line>" | "skipped"
    status: String,
    n: Option<usize>,
    /// row keys (sorted when compared as a bag)
    rows: Option<Vec<String>>,
    /// raw message for the replay file
    msg: Option<String>,
}

impl Obs {
    fn ok() -> Obs {
        Obs { status: "ok".into(), n: None, rows: None, msg: None }
    }
    fn skipped() -> Obs {
        Obs { status: "skipped".into(), n: None, rows: None, msg: None }
    }
    fn err(e: &str) -> Obs {
        Obs { status: format!("error:{}", err_class(e)), n: None, rows: None, msg: Some(e.chars().take(300).collect()) }
    }
    fn panic(p: &str) -> Obs {
        let site = crate::report::panic_site(p);
        let site = site.rsplit('/').next().unwrap_or("").to_string();
        Obs { status: format!("panic:{}", site), n: None, rows: None, msg: Some(p.chars().take(300).collect()) }
    }
    fn json(&self) -> J {
        json!({"status": self.status, "rows_affected": self.n, "rows": self.rows.as_ref().map(|r| r.iter().take(12).map(|s| short_key(s)).collect::<Vec<_>>()), "nrows": self.rows.as_ref().map(|r| r.len()), "msg": self.msg})
    }
}

fn short_key(s: &str) -> String {
    let s = s.replace('\u{1}', "|");
    if s.len() > 120 {
        format!("{}..({}B)", &s[..100], s.len())
    } else {
        s
    }
}

/// stable class of an error message: first words, letters only, table/index names and digits removed
fn err_class(e: &str) -> String {
    e.split(|c: char| !c.is_ascii_alphabetic()).filter(|w| !w.is_empty()).take(6).collect::<Vec<_>>().join("_").to_lowercase()
}

fn rows_obs(rows: &[turdb::Row], seq: bool) -> Vec<String> {
    let mut keys: Vec<String> = conv_rows(rows).iter().map(|r| row_key(r, false)).collect();
    if !seq {
        keys.sort();
    }
    keys
}

fn obs_of(r: Result<eyre::Result<ExecuteResult>, String>, seq: bool) -> Obs {
    match r {
        Err(p) => Obs::panic(&p),
        Ok(Err(e)) => Obs::err(&format!("{:#}", e)),
        Ok(Ok(res)) => match res {
            ExecuteResult::Insert { rows_affected, returned } | ExecuteResult::Update { rows_affected, returned } | ExecuteResult::Delete { rows_affected, returned } => Obs { status: "ok".into(), n: Some(rows_affected), rows: returned.map(|r| rows_obs(&r, false)), msg: None },
            ExecuteResult::Truncate { rows_affected } => Obs { status: "ok".into(), n: Some(rows_affected), rows: None, msg: None },
            ExecuteResult::Select { rows, .. } => Obs { status: "ok".into(), n: None, rows: Some(rows_obs(&rows, seq)), msg: None },
            _ => Obs::ok(),
        },
    }
}

struct Handle {
    db: Option<Database>,
    path: PathBuf,
    pragmas: Vec<Pragma>,
    explicit_close: bool,
    in_txn: bool,
    wal_cfg: bool,
    // measurements
    max_frames: u64,
    frame_drops: u64,
    last_frames: u64,
    rotations: u64,
    pragma_errs: Vec<(String, Obs)>,
}

impl Handle {
    fn create(path: &Path, pragmas: &[Pragma], explicit_close: bool) -> Result<Handle, Obs> {
        let db = match catch(|| Database::create(path)) {
            Ok(Ok(db)) => db,
            Ok(Err(e)) => return Err(Obs::err(&format!("{:#}", e))),
            Err(p) => return Err(Obs::panic(&p)),
        };
        let wal_cfg = pragmas.iter().any(|p| p.name == "wal" && p.value == "ON");
        let mut h = Handle { db: Some(db), path: path.to_path_buf(), pragmas: pragmas.to_vec(), explicit_close, in_txn: false, wal_cfg, max_frames: 0, frame_drops: 0, last_frames: 0, rotations: 0, pragma_errs: vec![] };
        h.issue_pragmas();
        Ok(h)
    }
    fn issue_pragmas(&mut self) {
        for p in self.pragmas.clone() {
            let o = self.exec(&p.sql(), false);
            if o.status != "ok" {
                self.pragma_errs.push((p.sig(), o));
            }
        }
    }
    fn exec(&mut self, sql: &str, seq: bool) -> Obs {
        match self.db.as_ref() {
            None => Obs::skipped(),
            Some(db) => obs_of(catch(|| db.execute(sql)), seq),
        }
    }
    /// `PRAGMA wal_frame_count` (read-only) to measure that frames were written / checkpointed away
    fn sample_frames(&mut self) {
        if !self.wal_cfg {
            return;
        }
        if let Some(db) = self.db.as_ref() {
            if let Ok(Ok(ExecuteResult::Pragma { value: Some(v), .. })) = catch(|| db.execute("PRAGMA wal_frame_count")) {
                if let Ok(n) = v.parse::<u64>() {
                    if n < self.last_frames {
                        self.frame_drops += 1;
                    }
                    self.last_frames = n;
                    self.max_frames = self.max_frames.max(n);
                }
            }
        }
    }
    /// highest WAL segment number on disk; every Database-level checkpoint (explicit pragma or automatic at the
    /// threshold) rotates to a new segment, so (max - 1) counts the checkpoints that really happened
    fn wal_max_seq(&self) -> u64 {
        let mut m = 0u64;
        if let Ok(rd) = std::fs::read_dir(self.path.join("wal")) {
            for e in rd.flatten() {
                let n = e.file_name().to_string_lossy().to_string();
                if n.starts_with("wal.") && n.len() == 10 {
                    m = m.max(n[4..].parse::<u64>().unwrap_or(0));
                }
            }
        }
        m
    }
    fn close(&mut self) -> Obs {
        self.rotations = self.rotations.max(self.wal_max_seq().saturating_sub(1));
        let mut out = Obs::ok();
        if let Some(db) = self.db.take() {
            let explicit = self.explicit_close;
            match catch(move || {
                let r = if explicit { db.close().map(|_| ()) } else { Ok(()) };
                drop(db);
                r
            }) {
                Ok(Ok(())) => {}
                Ok(Err(e)) => out = Obs::err(&format!("close: {:#}", e)),
                Err(p) => out = Obs::panic(&p),
            }
        }
        self.in_txn = false;
        self.last_frames = 0;
        out
    }
    fn reopen(&mut self, with_pragmas: bool) -> Obs {
        if self.in_txn {
            let _ = self.exec("COMMIT", false);
            self.in_txn = false;
        }
        let c = self.close();
        if c.status != "ok" {
            return c;
        }
        let path = self.path.clone();
        match catch(|| Database::open(&path)) {
            Ok(Ok(db)) => {
                self.db = Some(db);
                if with_pragmas {
                    self.issue_pragmas();
                }
                Obs::ok()
            }
            Ok(Err(e)) => Obs::err(&format!("open: {:#}", e)),
            Err(p) => Obs::panic(&p),
        }
    }
    fn run_stmt(&mut self, st: &St) -> Obs {
        let o = match st {
            St::Sql { kind, sql, seq } => {
                let o = self.exec(sql, *seq);
                if o.status == "ok" {
                    match *kind {
                        "begin" => self.in_txn = true,
                        "commit" | "rollback" => self.in_txn = false,
                        _ => {}
                    }
                }
                // the value of PRAGMA wal_checkpoint (frames checkpointed) legitimately depends on the configuration
                o
            }
            St::Prep { sql, rows } => match self.db.as_ref() {
                None => Obs::skipped(),
                Some(db) => match catch(|| db.prepare(sql)) {
                    Err(p) => Obs::panic(&p),
                    Ok(Err(e)) => Obs::err(&format!("{:#}", e)),
                    Ok(Ok(ps)) => {
                        let mut okc = 0usize;
                        let mut first_bad: Option<Obs> = None;
                        for r in rows {
                            let params: Vec<OwnedValue> = r.iter().map(|v| v.to_owned_value()).collect();
                            let o = obs_of(catch(|| db.execute_with_cached_plan(&ps, &params)), false);
                            if o.status == "ok" {
                                okc += o.n.unwrap_or(0);
                            } else if first_bad.is_none() {
                                first_bad = Some(o);
                            }
                        }
                        let mut o = first_bad.unwrap_or_else(Obs::ok);
                        o.n = Some(okc);
                        o
                    }
                },
            },
            St::Reopen => self.reopen(true),
            St::ApiCheckpoint => match self.db.as_ref() {
                None => Obs::skipped(),
                Some(db) => match catch(|| db.checkpoint()) {
                    Ok(Ok(_)) => Obs::ok(),
                    Ok(Err(e)) => Obs::err(&format!("{:#}", e)),
                    Err(p) => Obs::panic(&p),
                },
            },
        };
        self.sample_frames();
        o
    }
}

#[derive(Clone, Debug, Default)]
struct RunOut {
    create: Option<Obs>,
    pragma_errs: Vec<(String, Obs)>,
    outs: Vec<Obs>,
    fin: Vec<(String, String, Obs)>,
    reopen: Option<Obs>,
    after: Vec<(String, String, Obs)>,
    max_frames: u64,
    frame_drops: u64,
    /// WAL segment rotations seen before the final close (= checkpoints that ran during the history)
    rotations: u64,
}

/// final-state observation vector: (label, sql, obs)
fn observe(h: &mut Handle, tables: &[TableInfo]) -> Vec<(String, String, Obs)> {
    let mut v = vec![];
    let mut q = |h: &mut Handle, label: &str, sql: String, seq: bool| {
        let o = h.exec(&sql, seq);
        v.push((label.to_string(), sql, o));
    };
    for t in tables {
        q(h, "rows", format!("SELECT * FROM {}", t.name), false);
        q(h, "count_star", format!("SELECT COUNT(*) FROM {}", t.name), false);
        q(h, "rows", format!("SELECT id FROM {} ORDER BY id", t.name), true);
        for k in 0..=K_DOMAIN {
            q(h, "index_lookup", format!("SELECT id, u FROM {} WHERE k = {}", t.name, k), false);
        }
        // pk probes: a spread of the ids the generator ever used (deleted ones included)
        let ids: Vec<i64> = t.ids.iter().copied().collect();
        let step = (ids.len() / 10).max(1);
        for id in ids.iter().step_by(step) {
            q(h, "index_lookup", format!("SELECT id, k, u, n FROM {} WHERE id = {}", t.name, id), false);
        }
        if t.has_u {
            let us: Vec<&String> = t.us.iter().collect();
            let step = (us.len() / 8).max(1);
            for u in us.iter().step_by(step) {
                q(h, "index_lookup", format!("SELECT id, k FROM {} WHERE u = '{}'", t.name, u), false);
            }
        }
    }
    v
}

fn run_history(dir: &Path, h: &Hist, pragmas: &[Pragma]) -> RunOut {
    let _ = std::fs::remove_dir_all(dir);
    let mut out = RunOut::default();
    let mut hd = match Handle::create(dir, pragmas, h.explicit_close) {
        Ok(hd) => hd,
        Err(o) => {
            out.create = Some(o);
            return out;
        }
    };
    for st in &h.stmts {
        let o = hd.run_stmt(st);
        out.outs.push(o);
    }
    if hd.in_txn {
        let _ = hd.exec("COMMIT", false);
        hd.in_txn = false;
    }
    out.fin = observe(&mut hd, &h.tables);
    out.rotations = hd.rotations.max(hd.wal_max_seq().saturating_sub(1));
    // what persists: clean close, reopen WITHOUT any pragma (default configuration), observe again
    let r = hd.reopen(false);
    if r.status == "ok" {
        out.after = observe(&mut hd, &h.tables);
    }
    out.reopen = Some(r);
    out.pragma_errs = hd.pragma_errs.clone();
    out.max_frames = hd.max_frames;
    out.frame_drops = hd.frame_drops;
    let _ = hd.close();
    let _ = std::fs::remove_dir_all(dir);
    out
}

/// the first difference between the baseline run and a configured run
#[derive(Clone, Debug)]
struct Diff {
    /// statement kind or observation
    kind: String,
    /// rows | rows_affected | error:<class> | ... | count_star | index_lookup | after_reopen
    what: String,
    /// index into the history (statement diffs only)
    at: Option<usize>,
    sql: String,
    base: J,
    got: J,
}

fn diff_obs(a: &Obs, b: &Obs) -> Option<String> {
    if a.status != b.status {
        if b.status.starts_with("panic:") || b.status.starts_with("error:") {
            return Some(b.status.clone());
        }
        if a.status.starts_with("error:") || a.status.starts_with("panic:") {
            return Some(format!("no_{}", a.status));
        }
        return Some(format!("status:{}", b.status));
    }
    if a.n != b.n {
        return Some("rows_affected".into());
    }
    if a.rows != b.rows {
        return Some("rows".into());
    }
    None
}

fn first_diff(h: &Hist, a: &RunOut, b: &RunOut) -> Option<Diff> {
    if let Some(o) = &b.create {
        return Some(Diff { kind: "create_database".into(), what: o.status.clone(), at: None, sql: "Database::create".into(), base: json!(a.create.as_ref().map(|x| x.json())), got: o.json() });
    }
    if let Some((p, o)) = b.pragma_errs.first() {
        return Some(Diff { kind: "pragma".into(), what: o.status.clone(), at: None, sql: p.clone(), base: J::Null, got: o.json() });
    }
    for (i, st) in h.stmts.iter().enumerate() {
        match (a.outs.get(i), b.outs.get(i)) {
            (Some(x), Some(y)) => {
                if let Some(w) = diff_obs(x, y) {
                    return Some(Diff { kind: st.kind().to_string(), what: w, at: Some(i), sql: st.text(), base: x.json(), got: y.json() });
                }
            }
            _ => return None,
        }
    }
    for (x, y) in a.fin.iter().zip(b.fin.iter()) {
        if let Some(w) = diff_obs(&x.2, &y.2) {
            let what = if w == "rows" || w == "rows_affected" { x.0.clone() } else { w };
            return Some(Diff { kind: "final_state".into(), what, at: None, sql: x.1.clone(), base: x.2.json(), got: y.2.json() });
        }
    }
    if let (Some(x), Some(y)) = (&a.reopen, &b.reopen) {
        if let Some(w) = diff_obs(x, y) {
            return Some(Diff { kind: "final_reopen".into(), what: w, at: None, sql: "close + Database::open".into(), base: x.json(), got: y.json() });
        }
    }
    for (x, y) in a.after.iter().zip(b.after.iter()) {
        if let Some(w) = diff_obs(&x.2, &y.2) {
            let kind = if w == "rows" || w == "rows_affected" { format!("final_{}", x.0) } else { format!("final_{}:{}", x.0, w) };
            return Some(Diff { kind, what: "after_reopen".into(), at: None, sql: x.1.clone(), base: x.2.json(), got: y.2.json() });
        }
    }
    None
}

// ------------------------------------------------------------------------------------------------
// shrinking
// ------------------------------------------------------------------------------------------------

/// generic ddmin: smallest sub-sequence (order kept) for which `test` still returns true; bounded by `budget` calls
fn ddmin<T: Clone>(items: &[T], budget: &mut usize, test: &mut dyn FnMut(&[T]) -> bool) -> Vec<T> {
    let mut cur: Vec<T> = items.to_vec();
    let mut n = 2usize;
    while cur.len() >= 2 && *budget > 0 {
        let chunk = (cur.len() + n - 1) / n;
        let mut reduced = false;
        let mut start = 0;
        while start < cur.len() && *budget > 0 {
            let end = (start + chunk).min(cur.len());
            let cand: Vec<T> = cur[..start].iter().chain(cur[end..].iter()).cloned().collect();
            *budget -= 1;
            if !cand.is_empty() && test(&cand) {
                cur = cand;
                n = (n - 1).max(2);
                reduced = true;
                break;
            }
            start = end;
        }
        if !reduced {
            if n >= cur.len() {
                break;
            }
            n = (n * 2).min(cur.len());
        }
    }
    cur
}

/// result of the cheap cause analysis of one failing (history, configuration)
struct Analysis {
    /// history after the knock-outs that kept the failure
    hist: Hist,
    /// baseline (no pragma) run of `hist`
    base: RunOut,
    pragmas: Vec<Pragma>,
    diff: Diff,
    /// trigger features still present (each one is needed: knocking it out made this difference disappear)
    features: Vec<&'static str>,
    runs: usize,
}

fn same(d: &Option<Diff>, want: &(String, String)) -> bool {
    d.as_ref().map(|d| d.kind == want.0 && d.what == want.1).unwrap_or(false)
}

/// features present in a history, in signature order: the ones that can make TurDB copy WAL frames back into the
/// table files (drop without close(), checkpoints) come first so that a known-finding prefix can name them
fn all_features_of(h: &Hist, base: &RunOut) -> Vec<&'static str> {
    let mut features: Vec<&'static str> = vec![];
    if !h.explicit_close {
        features.push("close_by_drop");
    }
    features.extend(FEATURES.iter().copied().filter(|f| has_feature(h, f)));
    if base.outs.iter().any(|o| o.status.starts_with("error:")) {
        features.push("failed_statement");
    }
    features
}

fn knock_out_any(h: &Hist, base: &RunOut, f: &str) -> Option<Hist> {
    match f {
        // statements that fail in the baseline too (typically a multi-row INSERT hitting a duplicate key after some
        // rows went in): drop them
        "failed_statement" => {
            if !base.outs.iter().any(|o| o.status.starts_with("error:")) {
                return None;
            }
            let keep: Vec<St> = h.stmts.iter().enumerate().filter(|(i, _)| !base.outs.get(*i).map(|o| o.status.starts_with("error:")).unwrap_or(false)).map(|(_, s)| s.clone()).collect();
            Some(Hist { stmts: keep, ..h.clone() })
        }
        "close_by_drop" => {
            if h.explicit_close {
                return None;
            }
            Some(Hist { explicit_close: true, ..h.clone() })
        }
        _ => {
            if !has_feature(h, f) {
                return None;
            }
            Some(knock_out(h, f))
        }
    }
}

/// drop pragmas one at a time, then knock out trigger features one at a time (cumulatively) as long as SOME
/// difference against the baseline run of the same history remains; what is left names the cause
fn analyse(dir_a: &Path, dir_b: &Path, h: &Hist, base: &RunOut, pragmas: &[Pragma], d0: &Diff) -> Analysis {
    let mut runs = 0usize;
    let mut cur_h = h.clone();
    let mut cur_base = base.clone();
    let mut cur_p = pragmas.to_vec();
    let mut cur_d = d0.clone();
    for round in 0..2 {
        // shortcut: `PRAGMA wal = ON` alone
        if round == 0 && cur_p.len() > 1 && cur_p[0].name == "wal" && cur_p[0].value == "ON" {
            let cand = vec![cur_p[0].clone()];
            runs += 1;
            let b = run_history(dir_b, &cur_h, &cand);
            if let Some(d) = first_diff(&cur_h, &cur_base, &b) {
                cur_p = cand;
                cur_d = d;
            }
        }
        let mut i = 0;
        while i < cur_p.len() && cur_p.len() > 1 {
            let mut cand = cur_p.clone();
            cand.remove(i);
            runs += 1;
            let b = run_history(dir_b, &cur_h, &cand);
            if let Some(d) = first_diff(&cur_h, &cur_base, &b) {
                cur_p = cand;
                cur_d = d;
            } else {
                i += 1;
            }
        }
        if round == 1 {
            break;
        }
        // two passes: a feature that was needed in the first pass may become removable once later ones are gone
        for pass in 0..2 {
            let mut changed = false;
            for f in FEATURES.iter().copied().chain(["failed_statement", "close_by_drop"]) {
                // knocking out statements can make other statements fail/succeed: look at the current baseline each time
                let cand = match knock_out_any(&cur_h, &cur_base, f) {
                    Some(c) => c,
                    None => continue,
                };
                runs += 2;
                let a = run_history(dir_a, &cand, &[]);
                let b = run_history(dir_b, &cand, &cur_p);
                if let Some(d) = first_diff(&cand, &a, &b) {
                    cur_h = cand;
                    cur_base = a;
                    cur_d = d;
                    changed = true;
                }
            }
            if !changed || pass == 1 {
                break;
            }
        }
    }
    let mut features = all_features_of(&cur_h, &cur_base);
    if features.iter().any(|f| matches!(*f, "checkpoint_in_txn" | "savepoint" | "rollback")) {
        features.retain(|f| *f != "txn"); // implied
    }
    Analysis { hist: cur_h, base: cur_base, pragmas: cur_p, diff: cur_d, features, runs }
}

/// ddmin over the statements of an analysed history (for a readable replay; the signature is fixed before)
fn minimise(dir_a: &Path, dir_b: &Path, an: &Analysis, budget: usize) -> (Hist, Diff, usize) {
    let want = (an.diff.kind.clone(), an.diff.what.clone());
    let mut runs = 0usize;
    let mut b = budget;
    let base = an.hist.clone();
    let mut best_d = an.diff.clone();
    let mut test = |c: &[St]| {
        let hh = Hist { stmts: c.to_vec(), ..base.clone() };
        runs += 2;
        let a = run_history(dir_a, &hh, &[]);
        let r = run_history(dir_b, &hh, &an.pragmas);
        let d = first_diff(&hh, &a, &r);
        if same(&d, &want) {
            best_d = d.unwrap();
            true
        } else {
            false
        }
    };
    let mut s2 = ddmin(&base.stmts, &mut b, &mut test);
    let mut i = 0;
    while i < s2.len() && b > 0 && s2.len() > 1 {
        let mut cand = s2.clone();
        cand.remove(i);
        b -= 1;
        if test(&cand) {
            s2 = cand;
        } else {
            i += 1;
        }
    }
    // the diff for exactly the minimal history
    let ok = test(&s2.clone());
    let _ = ok;
    (Hist { stmts: s2, ..base.clone() }, best_d, runs)
}

fn sig_of(pragmas: &[Pragma], features: &[&'static str], d: &Diff) -> String {
    format!("C42/{}/{}/{}/{}", pragmas.iter().map(|p| p.sig()).collect::<Vec<_>>().join("+"), if features.is_empty() { "plain".to_string() } else { features.join("+") }, d.kind, d.what)
}

/// open known findings of C42 (read-only): a failing case whose cheap signature is already listed is not minimised
fn known_sigs() -> Vec<String> {
    let p = format!("{}/known_findings.json", crate::report::VERIF_DIR);
    let mut out = vec![];
    if let Ok(t) = std::fs::read_to_string(p) {
        if let Ok(v) = serde_json::from_str::<J>(&t) {
            for f in v["findings"].as_array().cloned().unwrap_or_default() {
                if f["property"] == "C42" && f["status"].as_str().unwrap_or("open") == "open" {
                    out.push(f["sig"].as_str().unwrap_or("").to_string());
                }
            }
        }
    }
    out
}

fn is_known(known: &[String], sig: &str) -> bool {
    known.iter().any(|k| k == sig || (k.ends_with('*') && sig.starts_with(&k[..k.len() - 1])))
}

fn hist_json(h: &Hist) -> J {
    json!({"statements": h.stmts.iter().map(|s| s.text()).map(|s| if s.len() > 200 { format!("{}..({}B)", &s[..160], s.len()) } else { s }).collect::<Vec<_>>(), "close_style": if h.explicit_close { "Database::close() then drop" } else { "drop only" }, "tiny_threshold": h.tiny_val})
}

fn hist_full_json(h: &Hist) -> J {
    json!({"statements": h.stmts.iter().map(|s| match s {
        St::Sql { sql, .. } => json!(sql),
        St::Prep { sql, rows } => json!({"prepare": sql, "execute_with_cached_plan_rows": rows.iter().map(|r| r.iter().map(|v| v.to_json()).collect::<Vec<_>>()).collect::<Vec<_>>()}),
        St::Reopen => json!("<clean close; Database::open; re-issue pragmas>"),
        St::ApiCheckpoint => json!("<Database::checkpoint()>"),
    }).collect::<Vec<_>>(), "close_style": if h.explicit_close { "Database::close() then drop" } else { "drop only" }, "tiny_threshold": h.tiny_val})
}

// ------------------------------------------------------------------------------------------------
// per-history worker
// ------------------------------------------------------------------------------------------------

/// result of one job (serialised as one JSON line by a worker process, merged by the parent)
#[derive(Default)]
struct HistResult {
    idx: usize,
    kind: String,
    evals: u64,
    nontrivial: Vec<u64>,
    violations: Vec<(String, String, J)>,
    /// summed by the parent
    counters: BTreeMap<String, u64>,
    /// max-merged by the parent
    maxima: BTreeMap<String, u64>,
    sample: Option<J>,
    /// job-kind specific payload (the serialised run of a many-files job)
    extra: Option<J>,
}

impl HistResult {
    fn to_json(&self, job: usize) -> J {
        json!({"job": job, "idx": self.idx, "kind": self.kind, "evals": self.evals, "nontrivial": self.nontrivial.iter().map(|h| format!("{:x}", h)).collect::<Vec<_>>(),
            "violations": self.violations.iter().map(|(a, s, d)| json!([a, s, d])).collect::<Vec<_>>(), "counters": self.counters, "maxima": self.maxima, "sample": self.sample, "extra": self.extra})
    }
}

struct Shared {
    /// scratch root shared by all worker processes (claim files live here)
    root: PathBuf,
    /// how many times one signature may be minimised by ddmin over all workers
    max_minimise_per_sig: usize,
    known: Vec<String>,
    start: Instant,
    budget_s: f64,
}

impl Shared {
    /// cross-process "first one wins" through O_EXCL file creation
    fn claim(&self, what: &str) -> bool {
        std::fs::OpenOptions::new().write(true).create_new(true).open(self.root.join(what)).is_ok()
    }
    fn claim_minimise(&self, sig: &str) -> bool {
        (0..self.max_minimise_per_sig).any(|i| self.claim(&format!("claim-sig-{:016x}-{}", fnv(sig.as_bytes()), i)))
    }
    fn late(&self, frac: f64) -> bool {
        self.start.elapsed().as_secs_f64() > self.budget_s * frac
    }
}

fn process_history(idx: usize, h: &Hist, cfgs: &[Cfg], sh: &Shared, flush: &mut dyn FnMut(&HistResult)) -> HistResult {
    let mut res = HistResult { idx, kind: "history".into(), ..Default::default() };
    let root = &sh.root;
    let dir_a = root.join(format!("h{}-a", idx));
    let dir_b = root.join(format!("h{}-b", idx));
    let base = run_history(&dir_a, h, &[]);
    res.evals += 1;
    let hhash = fnv(format!("{:?}", h.stmts.iter().map(|s| s.text()).collect::<Vec<_>>()).as_bytes());
    if let Some(o) = &base.create {
        res.violations.push(("baseline".into(), format!("C42/baseline/create_database/{}", o.status), json!({"obs": o.json()})));
        return res;
    }
    let bump = |res: &mut HistResult, k: &str, n: u64| *res.counters.entry(k.to_string()).or_insert(0) += n;
    if idx < 100_000 {
        // (the second wave of a history re-runs the same baseline: count it once)
        bump(&mut res, "history_statements", base.outs.len() as u64);
        bump(&mut res, "baseline_statements_ok", base.outs.iter().filter(|o| o.status == "ok").count() as u64);
        bump(&mut res, "baseline_statements_error", base.outs.iter().filter(|o| o.status.starts_with("error:")).count() as u64);
        bump(&mut res, "baseline_statements_panic", base.outs.iter().filter(|o| o.status.starts_with("panic:")).count() as u64);
        for f in FEATURES {
            if has_feature(h, f) {
                bump(&mut res, &format!("histories_with_{}", f), 1);
            }
        }
    }
    let explicit_rotation = has_feature(h, "checkpoint") || has_feature(h, "checkpoint_in_txn") || has_feature(h, "reopen");
    let mut seen: BTreeSet<String> = BTreeSet::new();
    let mut solved: Vec<(Analysis, String)> = vec![];
    for cfg in cfgs {
        if sh.late(0.8) {
            bump(&mut res, "configured_runs_skipped_wall_budget", 1);
            continue;
        }
        let pragmas = cfg.pragmas(h.tiny_val);
        let run = run_history(&dir_b, h, &pragmas);
        res.evals += 1;
        bump(&mut res, "configured_runs", 1);
        if cfg.wal && run.max_frames > 0 {
            // the mechanism was exercised: WAL frames were really written under this configuration
            res.nontrivial.push(hhash ^ fnv(cfg.label().as_bytes()));
            bump(&mut res, "runs_with_wal_frames", 1);
        }
        if cfg.wal && cfg.tiny && !explicit_rotation && run.rotations > 0 {
            bump(&mut res, "runs_with_auto_checkpoint_at_tiny_threshold", 1);
        }
        let d = match first_diff(h, &base, &run) {
            None => {
                flush(&res);
                continue;
            }
            Some(d) => d,
        };
        bump(&mut res, "runs_differing_from_baseline", 1);
        // same cause as something already analysed for this history? (1 run)
        let mut matched: Option<String> = None;
        for (an, sig) in &solved {
            if an.pragmas.iter().all(|p| pragmas.contains(p)) {
                let b = run_history(&dir_b, &an.hist, &pragmas);
                let d2 = first_diff(&an.hist, &an.base, &b);
                if same(&d2, &(an.diff.kind.clone(), an.diff.what.clone())) {
                    matched = Some(sig.clone());
                    break;
                }
            }
        }
        if let Some(sig) = matched {
            bump(&mut res, "diffs_attributed_to_analysed_cause", 1);
            if seen.insert(format!("{}|{}", sig, cfg.label())) {
                res.violations.push(("config_invariance".into(), sig, json!({"config": cfg.label(), "attributed": "the reduced history of this signature (earlier violation of this same history) fails the same way under this configuration", "first_difference": {"kind": d.kind, "what": d.what, "sql": short(&d.sql)}})));
            }
            continue;
        }
        let an = analyse(&dir_a, &dir_b, h, &base, &pragmas, &d);
        bump(&mut res, "analysis_runs", an.runs as u64);
        let sig = sig_of(&an.pragmas, &an.features, &an.diff);
        let do_min = !is_known(&sh.known, &sig) && !sh.late(0.5) && sh.claim_minimise(&sig);
        let (min_h, min_d) = if do_min {
            let (mh, md, r) = minimise(&dir_a, &dir_b, &an, if sh.budget_s < 100.0 { 50 } else { 120 });
            bump(&mut res, "ddmin_runs", r as u64);
            (mh, md)
        } else {
            (an.hist.clone(), an.diff.clone())
        };
        let detail = json!({
            "config": cfg.label(),
            "pragmas_issued": pragmas.iter().map(|p| p.sql()).collect::<Vec<_>>(),
            "minimal_pragmas": an.pragmas.iter().map(|p| p.sql()).collect::<Vec<_>>(),
            "needed_features": an.features,
            "history_minimised_by_ddmin": do_min,
            "minimal_history": hist_full_json(&min_h),
            "first_difference": {"kind": min_d.kind, "what": min_d.what, "statement_index": min_d.at, "sql": min_d.sql, "baseline_no_pragma": min_d.base, "configured": min_d.got},
            "original_first_difference": {"kind": d.kind, "what": d.what, "statement_index": d.at, "sql": short(&d.sql)},
            "original_history_len": h.stmts.len(),
        });
        res.violations.push(("config_invariance".into(), sig.clone(), detail));
        solved.push((an, sig));
        flush(&res);
    }
    if idx < 3 {
        res.sample = Some(json!({"history": hist_json(h), "configs": cfgs.iter().map(|c| c.label()).collect::<Vec<_>>()}));
    }
    let _ = std::fs::remove_dir_all(&dir_a);
    let _ = std::fs::remove_dir_all(&dir_b);
    res
}

// ------------------------------------------------------------------------------------------------
// many-files variant
// ------------------------------------------------------------------------------------------------

#[derive(Clone, Debug)]
struct MOp {
    /// Some(table) = routed to the database owning the table; None = broadcast (BEGIN/COMMIT/ROLLBACK)
    table: Option<usize>,
    kind: &'static str,
    sql: String,
    seq: bool,
}

const MF_TABLES: usize = 72;
const MF_SPLIT: usize = 8;

fn mf_name(i: usize) -> String {
    format!("m{:02}", i)
}

fn gen_many_files(rng: &mut Rng, rounds: usize) -> Vec<MOp> {
    let mut ops: Vec<MOp> = vec![];
    let mut next_id = vec![1i64; MF_TABLES];
    let mut live: Vec<Vec<i64>> = vec![vec![]; MF_TABLES];
    let push = |ops: &mut Vec<MOp>, t: Option<usize>, kind: &'static str, sql: String| ops.push(MOp { table: t, kind, sql, seq: kind == "select_ordered" });
    for i in 0..MF_TABLES {
        push(&mut ops, Some(i), "create_table", format!("CREATE TABLE {} (id BIGINT PRIMARY KEY, k BIGINT, v TEXT)", mf_name(i)));
        push(&mut ops, Some(i), "create_index", format!("CREATE INDEX mx{:02} ON {} (k)", i, mf_name(i)));
    }
    let mut serial = 0usize;
    for r in 0..rounds {
        // every round touches all tables once, in a fresh random order, so each access re-opens an evicted file
        let mut order: Vec<usize> = (0..MF_TABLES).collect();
        rng.shuffle(&mut order);
        let mode = if r == 0 { 0 } else { rng.below(5) };
        // 0 autocommit, 1 txn commit, 2 txn rollback, 3 autocommit mixed dml, 4 txn commit mixed dml
        let in_txn = matches!(mode, 1 | 2 | 4);
        if in_txn {
            push(&mut ops, None, "begin", "BEGIN".into());
        }
        let rolled_back = mode == 2;
        let snapshot = (next_id.clone(), live.clone());
        for &i in &order {
            serial += 1;
            let name = mf_name(i);
            let action = if matches!(mode, 3 | 4) && !live[i].is_empty() { rng.below(4) } else { 0 };
            match action {
                0 | 1 => {
                    let nrows = rng.usize(1, 3);
                    let mut vals = vec![];
                    for _ in 0..nrows {
                        let id = next_id[i];
                        next_id[i] += 1;
                        live[i].push(id);
                        let pad = if rng.chance(1, 4) { "x".repeat(rng.usize(200, 1500)) } else { String::new() };
                        vals.push(format!("({}, {}, 'T{}.R{}.S{}.id{}{}')", id, id % 4, i, r, serial, id, pad));
                    }
                    push(&mut ops, Some(i), "insert", format!("INSERT INTO {} VALUES {}", name, vals.join(", ")));
                }
                2 => {
                    let id = *rng.pick(&live[i]);
                    push(&mut ops, Some(i), "update", format!("UPDATE {} SET k = k + 4, v = 'U{}.R{}.S{}.id{}' WHERE id = {}", name, i, r, serial, id, id));
                }
                _ => {
                    let pos = rng.below(live[i].len() as u64) as usize;
                    let id = live[i].remove(pos);
                    push(&mut ops, Some(i), "delete", format!("DELETE FROM {} WHERE id = {}", name, id));
                }
            }
            if rng.chance(1, 12) {
                push(&mut ops, Some(i), "select_ordered", format!("SELECT id, k, v FROM {} ORDER BY id", name));
            }
        }
        if in_txn {
            if rolled_back {
                push(&mut ops, None, "rollback", "ROLLBACK".into());
                next_id = snapshot.0;
                live = snapshot.1;
            } else {
                push(&mut ops, None, "commit", "COMMIT".into());
            }
        }
    }
    ops
}

/// distinct files of `dir` currently mmapped by this process
fn mapped_files(dir: &Path) -> usize {
    let prefix = dir.to_string_lossy().to_string();
    let maps = std::fs::read_to_string("/proc/self/maps").unwrap_or_default();
    let mut set = BTreeSet::new();
    for l in maps.lines() {
        if let Some(p) = l.find(&prefix) {
            let path = &l[p..];
            if path.contains(".tbd") || path.contains(".idx") {
                set.insert(path.trim_end_matches(" (deleted)").to_string());
            }
        }
    }
    set.len()
}

fn count_files(dir: &Path) -> usize {
    let mut n = 0;
    if let Ok(rd) = std::fs::read_dir(dir) {
        for e in rd.flatten() {
            let p = e.path();
            if p.is_dir() {
                n += count_files(&p);
            } else if p.extension().map(|x| x == "tbd" || x == "idx").unwrap_or(false) {
                n += 1;
            }
        }
    }
    n
}

#[derive(Default, Clone)]
struct MfRun {
    outs: Vec<Obs>,
    fin: Vec<(String, String, Obs)>,
    reopen: Option<Obs>,
    after: Vec<(String, String, Obs)>,
    max_mapped: usize,
    files_on_disk: usize,
    pragma_errs: Vec<(String, Obs)>,
    max_frames: u64,
}

fn mf_observe(h: &mut Handle, lo: usize, hi: usize) -> Vec<(String, String, Obs)> {
    let mut v = vec![];
    for i in lo..hi {
        let name = mf_name(i);
        for (label, sql, seq) in [
            ("rows", format!("SELECT id, k, v FROM {} ORDER BY id", name), true),
            ("count_star", format!("SELECT COUNT(*) FROM {}", name), false),
            ("index_lookup", format!("SELECT id FROM {} WHERE k = 1", name), false),
            ("index_lookup", format!("SELECT id FROM {} WHERE k = 6", name), false),
            ("index_lookup", format!("SELECT id, k FROM {} WHERE id = 2", name), false),
        ] {
            let o = h.exec(&sql, seq);
            v.push((label.to_string(), sql, o));
        }
    }
    v
}

#[derive(Default)]
struct DbPart {
    create_err: Option<Obs>,
    outs: Vec<(usize, Obs)>,
    fin: Vec<(String, String, Obs)>,
    reopen: Option<Obs>,
    after: Vec<(String, String, Obs)>,
    pragma_errs: Vec<(String, Obs)>,
    max_frames: u64,
    max_mapped: usize,
    files_on_disk: usize,
}

/// one database holding tables lo..hi: executes the ops routed to it (and every broadcast op)
fn run_many_db(dir: &Path, ops: &[MOp], lo: usize, hi: usize, pragmas: &[Pragma], explicit_close: bool, measure: bool) -> DbPart {
    let mut part = DbPart::default();
    let _ = std::fs::remove_dir_all(dir);
    let mut h = match Handle::create(dir, pragmas, explicit_close) {
        Ok(h) => h,
        Err(o) => {
            part.create_err = Some(o);
            return part;
        }
    };
    let mut done = 0usize;
    for (n, op) in ops.iter().enumerate() {
        match op.table {
            Some(t) if t < lo || t >= hi => continue,
            Some(_) => {
                let o = h.exec(&op.sql, op.seq);
                h.sample_frames();
                part.outs.push((n, o));
            }
            None => {
                let o = h.exec(&op.sql, false);
                part.outs.push((n, o));
            }
        }
        done += 1;
        if measure && done % 24 == 0 {
            part.max_mapped = part.max_mapped.max(mapped_files(&h.path));
        }
    }
    part.fin = mf_observe(&mut h, lo, hi);
    if measure {
        part.max_mapped = part.max_mapped.max(mapped_files(&h.path));
        part.files_on_disk = count_files(&h.path);
    }
    let r = h.reopen(false);
    if r.status == "ok" {
        part.after = mf_observe(&mut h, lo, hi);
    }
    part.reopen = Some(r);
    part.pragma_errs = h.pragma_errs.clone();
    part.max_frames = h.max_frames;
    let _ = h.close();
    let _ = std::fs::remove_dir_all(&h.path);
    part
}

/// run the logical history on `ndb` databases (tables i -> database i / per_db); the databases of a split run are
/// independent of each other and run on their own threads
fn run_many(root: &Path, tag: &str, ops: &[MOp], pragmas: &[Pragma], per_db: usize, explicit_close: bool) -> MfRun {
    let ndb = (MF_TABLES + per_db - 1) / per_db;
    let parts: Vec<DbPart> = if ndb == 1 {
        vec![run_many_db(&root.join(format!("{}-0", tag)), ops, 0, MF_TABLES, pragmas, explicit_close, true)]
    } else {
        std::thread::scope(|sc| {
            let hs: Vec<_> = (0..ndb)
                .map(|d| {
                    let dir = root.join(format!("{}-{}", tag, d));
                    sc.spawn(move || run_many_db(&dir, ops, d * per_db, ((d + 1) * per_db).min(MF_TABLES), pragmas, explicit_close, false))
                })
                .collect();
            hs.into_iter().map(|h| h.join().unwrap_or_default()).collect()
        })
    };
    let mut out = MfRun::default();
    if let Some(o) = parts.iter().find_map(|p| p.create_err.clone()) {
        out.outs.push(o);
        return out;
    }
    // per-op outcome: routed ops have one observer; broadcast ops combine (first non-ok in database order)
    let mut outs: Vec<Option<Obs>> = vec![None; ops.len()];
    for p in &parts {
        for (n, o) in &p.outs {
            match &outs[*n] {
                None => outs[*n] = Some(o.clone()),
                Some(prev) => {
                    if prev.status == "ok" && o.status != "ok" {
                        outs[*n] = Some(o.clone());
                    }
                }
            }
        }
    }
    out.outs = outs.into_iter().map(|o| o.unwrap_or_else(Obs::skipped)).collect();
    let mut reopen = Obs::ok();
    for p in parts {
        out.fin.extend(p.fin);
        out.after.extend(p.after);
        if let Some(r) = p.reopen {
            if r.status != "ok" && reopen.status == "ok" {
                reopen = r;
            }
        }
        out.pragma_errs.extend(p.pragma_errs);
        out.max_frames = out.max_frames.max(p.max_frames);
        out.max_mapped = out.max_mapped.max(p.max_mapped);
        out.files_on_disk = out.files_on_disk.max(p.files_on_disk);
    }
    out.reopen = Some(reopen);
    out
}

fn obs_to_j(o: &Obs) -> J {
    json!({"s": o.status, "n": o.n, "r": o.rows, "m": o.msg})
}

fn obs_from_j(v: &J) -> Obs {
    Obs { status: v["s"].as_str().unwrap_or("").to_string(), n: v["n"].as_u64().map(|x| x as usize), rows: v["r"].as_array().map(|a| a.iter().map(|x| x.as_str().unwrap_or("").to_string()).collect()), msg: v["m"].as_str().map(|s| s.to_string()) }
}

impl MfRun {
    fn to_json(&self) -> J {
        let lst = |v: &Vec<(String, String, Obs)>| v.iter().map(|(a, b, o)| json!([a, b, obs_to_j(o)])).collect::<Vec<_>>();
        json!({"outs": self.outs.iter().map(obs_to_j).collect::<Vec<_>>(), "fin": lst(&self.fin), "after": lst(&self.after), "reopen": self.reopen.as_ref().map(obs_to_j),
            "pragma_errs": self.pragma_errs.iter().map(|(p, o)| json!([p, obs_to_j(o)])).collect::<Vec<_>>(), "max_mapped": self.max_mapped, "files_on_disk": self.files_on_disk, "max_frames": self.max_frames})
    }
    fn from_json(v: &J) -> MfRun {
        let lst = |v: &J| v.as_array().map(|a| a.iter().map(|x| (x[0].as_str().unwrap_or("").to_string(), x[1].as_str().unwrap_or("").to_string(), obs_from_j(&x[2]))).collect::<Vec<_>>()).unwrap_or_default();
        MfRun {
            outs: v["outs"].as_array().map(|a| a.iter().map(obs_from_j).collect()).unwrap_or_default(),
            fin: lst(&v["fin"]),
            after: lst(&v["after"]),
            reopen: if v["reopen"].is_null() { None } else { Some(obs_from_j(&v["reopen"])) },
            pragma_errs: v["pragma_errs"].as_array().map(|a| a.iter().map(|x| (x[0].as_str().unwrap_or("").to_string(), obs_from_j(&x[1]))).collect()).unwrap_or_default(),
            max_mapped: v["max_mapped"].as_u64().unwrap_or(0) as usize,
            files_on_disk: v["files_on_disk"].as_u64().unwrap_or(0) as usize,
            max_frames: v["max_frames"].as_u64().unwrap_or(0),
        }
    }
}

fn mf_first_diff(ops: &[MOp], a: &MfRun, b: &MfRun) -> Option<Diff> {
    if let Some((p, o)) = b.pragma_errs.first() {
        return Some(Diff { kind: "pragma".into(), what: o.status.clone(), at: None, sql: p.clone(), base: J::Null, got: o.json() });
    }
    for (i, op) in ops.iter().enumerate() {
        match (a.outs.get(i), b.outs.get(i)) {
            (Some(x), Some(y)) => {
                if let Some(w) = diff_obs(x, y) {
                    return Some(Diff { kind: op.kind.to_string(), what: w, at: Some(i), sql: op.sql.chars().take(300).collect(), base: x.json(), got: y.json() });
                }
            }
            _ => return Some(Diff { kind: "create_database".into(), what: "error".into(), at: None, sql: String::new(), base: json!(a.outs.last().map(|o| o.json())), got: json!(b.outs.last().map(|o| o.json())) }),
        }
    }
    for (x, y) in a.fin.iter().zip(b.fin.iter()) {
        if let Some(w) = diff_obs(&x.2, &y.2) {
            let what = if w == "rows" || w == "rows_affected" { x.0.clone() } else { w };
            return Some(Diff { kind: "final_state".into(), what, at: None, sql: x.1.clone(), base: x.2.json(), got: y.2.json() });
        }
    }
    if let (Some(x), Some(y)) = (&a.reopen, &b.reopen) {
        if let Some(w) = diff_obs(x, y) {
            return Some(Diff { kind: "final_reopen".into(), what: w, at: None, sql: "close + Database::open".into(), base: x.json(), got: y.json() });
        }
    }
    for (x, y) in a.after.iter().zip(b.after.iter()) {
        if let Some(w) = diff_obs(&x.2, &y.2) {
            let what = if w == "rows" || w == "rows_affected" { x.0.clone() } else { w };
            return Some(Diff { kind: "after_reopen".into(), what, at: None, sql: x.1.clone(), base: x.2.json(), got: y.2.json() });
        }
    }
    None
}

/// one many-files job = ONE run (one database with > 64 files, or the split over 9 databases) under one
/// configuration; the parent compares the serialised runs
fn process_many_run(idx: usize, ci: usize, split: bool, ops: &[MOp], cfg: Option<Cfg>, explicit_close: bool, sh: &Shared) -> HistResult {
    let mut res = HistResult { idx: idx * 1000 + ci * 10 + split as usize, kind: "many_files".into(), ..Default::default() };
    let pragmas: Vec<Pragma> = cfg.map(|c| c.pragmas(4)).unwrap_or_default();
    let tag = format!("mf{}-{}-{}", idx, ci, if split { "split" } else { "one" });
    let t0 = Instant::now();
    let run = run_many(&sh.root, &tag, ops, &pragmas, if split { MF_SPLIT } else { MF_TABLES }, explicit_close);
    res.maxima.insert("many_files_slowest_run_s".into(), t0.elapsed().as_secs());
    res.evals += 1;
    *res.counters.entry("many_files_runs".into()).or_insert(0) += 1;
    res.extra = Some(json!({"mf": idx, "ci": ci, "split": split, "run": run.to_json()}));
    res
}

/// parent side: compare the runs of one many-files history
fn judge_many_files(ctx: &mut Ctx, idx: usize, ops: &[MOp], cfgs: &[Option<Cfg>], runs: &BTreeMap<(usize, bool), MfRun>) {
    let ohash = fnv(format!("{:?}", ops.iter().map(|o| &o.sql).collect::<Vec<_>>()).as_bytes());
    let context = |d: &Diff| -> J {
        // the earlier ops on the same table (the ops are self-describing; no ddmin for this variant)
        match d.at.and_then(|i| ops[i].table.map(|t| (i, t))) {
            Some((i, t)) => json!(ops[..i].iter().filter(|o| o.table == Some(t) || o.table.is_none()).skip(2).map(|o| o.sql.chars().take(160).collect::<String>()).collect::<Vec<_>>()),
            None => J::Null,
        }
    };
    for (ci, cfg) in cfgs.iter().enumerate() {
        let label = cfg.map(|c| c.label()).unwrap_or_else(|| "baseline (no pragma)".into());
        let (one, split) = match (runs.get(&(ci, false)), runs.get(&(ci, true))) {
            (Some(a), Some(b)) => (a, b),
            _ => {
                ctx.count("many_files_pairs_incomplete", 1);
                continue;
            }
        };
        ctx.count("many_files_pairs_compared", 1);
        let cur = *ctx.counters.get("many_files_max_mapped_files").unwrap_or(&0);
        ctx.counters.insert("many_files_max_mapped_files".into(), cur.max(one.max_mapped as u64));
        let cur = *ctx.counters.get("many_files_files_on_disk").unwrap_or(&0);
        ctx.counters.insert("many_files_files_on_disk".into(), cur.max(one.files_on_disk as u64));
        // eviction measured: more table/index files on disk than were ever mapped at once
        if one.files_on_disk > 64 && one.max_mapped > 0 && one.max_mapped < one.files_on_disk {
            ctx.nontrivial(ohash ^ fnv(label.as_bytes()) ^ 0x4d46);
            ctx.count("many_files_runs_with_eviction", 1);
        }
        if cfg.map(|c| c.wal).unwrap_or(false) && one.max_frames > 0 {
            ctx.count("many_files_runs_with_wal_frames", 1);
        }
        // (a) one database with > 64 files vs the same history split over databases that never evict
        if let Some(d) = mf_first_diff(ops, split, one) {
            let sig = format!("C42/many_files/{}:{}", d.kind, d.what);
            ctx.violation("many_files", &sig, json!({"config": label, "compared": "one database holding all 72 tables + 72 indexes  vs  the same logical history split over 9 databases of 8 tables", "first_difference": {"kind": d.kind, "what": d.what, "statement_index": d.at, "sql": d.sql, "split_databases": d.base, "one_database": d.got}, "earlier_ops_on_this_table": context(&d), "ops": ops.len(), "files_on_disk": one.files_on_disk, "max_mapped_files": one.max_mapped}));
        }
        // (b) across configurations (one-database runs): this configuration vs no pragma
        if let (Some(c), Some(b0)) = (cfg, runs.get(&(0, false))) {
            if ci > 0 {
                if let Some(d) = mf_first_diff(ops, b0, one) {
                    // does the split run differ from the baseline the same way? then it is not about many files
                    let also_split = mf_first_diff(ops, b0, split).map(|d2| d2.kind == d.kind && d2.what == d.what).unwrap_or(false);
                    let ps = c.pragmas(4).iter().filter(|p| !(p.name == "synchronous" && p.value == "FULL") && !(p.name == "wal_autoflush" && p.value == "ON") && !(p.name == "wal" && p.value == "OFF")).map(|p| p.sig()).collect::<Vec<_>>().join("+");
                    let sig = format!("C42/many_files/config:{}/{}:{}{}", ps, d.kind, d.what, if also_split { "/also_with_few_files" } else { "" });
                    ctx.violation("many_files_config", &sig, json!({"config": label, "compared": "one database with 72 tables under this configuration vs under no pragma", "first_difference": {"kind": d.kind, "what": d.what, "statement_index": d.at, "sql": d.sql, "baseline": d.base, "configured": d.got}, "earlier_ops_on_this_table": context(&d), "same_difference_with_few_tables_per_database": also_split}));
                }
            }
        }
        if ci == 0 && idx == 0 {
            ctx.sample(json!({"many_files_history": {"ops": ops.len(), "ops_after_ddl": ops.iter().skip(2 * MF_TABLES).take(6).map(|o| o.sql.chars().take(120).collect::<String>()).collect::<Vec<_>>(), "files_on_disk": one.files_on_disk, "max_mapped_files": one.max_mapped}}));
        }
    }
}

// ------------------------------------------------------------------------------------------------
// entry
// ------------------------------------------------------------------------------------------------

enum Job {
    Hist(usize, Hist, Vec<Cfg>),
    /// (history, config index, split?, ops, config, explicit_close)
    Many(usize, usize, bool, std::sync::Arc<Vec<MOp>>, Option<Cfg>, bool),
}

struct ManyHist {
    ops: std::sync::Arc<Vec<MOp>>,
    cfgs: Vec<Option<Cfg>>,
}

/// the job list is a pure function of (tier, seed): parent and workers build the same list
fn build_jobs(seed: u64, quick: bool) -> (Vec<Job>, Vec<ManyHist>) {
    let mut rng = Rng::derive(seed, 42);
    let (nhist, ncfg, max_stmts) = if quick { (20usize, 6usize, 30usize) } else { (300, 24, 44) };
    let mut jobs: Vec<Job> = vec![];
    let mut many: Vec<ManyHist> = vec![];
    // many-files jobs first (they are the longest)
    let n_mf = if quick { 1 } else { 3 };
    for i in 0..n_mf {
        let mut r = Rng::derive(seed, 4200 + i as u64);
        let rounds = if quick { 3 } else { r.usize(4, 8) };
        let ops = std::sync::Arc::new(gen_many_files(&mut r, rounds));
        let mut cfgs: Vec<Option<Cfg>> = vec![None];
        if quick {
            cfgs.push(Some(Cfg { wal: true, sync: 1, autoflush: r.chance(1, 2), tiny: true }));
        } else {
            let mut picks = pick_cfgs(&mut r, 6);
            picks.retain(|c| c.wal);
            picks.truncate(2);
            cfgs.extend(picks.into_iter().map(Some));
        }
        let explicit_close = r.chance(1, 2);
        for (ci, c) in cfgs.iter().enumerate() {
            // the one-database runs are the slowest: first
            jobs.push(Job::Many(i, ci, false, ops.clone(), *c, explicit_close));
        }
        for (ci, c) in cfgs.iter().enumerate() {
            jobs.push(Job::Many(i, ci, true, ops.clone(), *c, explicit_close));
        }
        many.push(ManyHist { ops, cfgs });
    }
    // thorough: all 24 configurations per history, in two waves (a covering set of 6 for every history first, the
    // other 18 afterwards), so that a short wall budget costs configurations per history, not histories
    let mut second_wave: Vec<Job> = vec![];
    for i in 0..nhist {
        let h = gen_history(&mut rng, max_stmts);
        let first = pick_cfgs(&mut rng, 6);
        if ncfg >= 24 {
            let rest: Vec<Cfg> = all_cfgs().into_iter().filter(|c| !first.contains(c)).collect();
            second_wave.push(Job::Hist(100_000 + i, h.clone(), rest));
        }
        jobs.push(Job::Hist(i, h, first));
    }
    jobs.extend(second_wave);
    (jobs, many)
}

/// worker process: claims jobs (first come first served through claim files), appends one JSON line per job
fn worker(a: &Args, k: usize, root: PathBuf, budget_s: f64) -> i32 {
    let quick = a.tier == "quick";
    let (jobs, _) = build_jobs(a.seed, quick);
    let sh = Shared { root: root.clone(), max_minimise_per_sig: if quick { 1 } else { 2 }, known: known_sigs(), start: Instant::now(), budget_s };
    let out_path = root.join(format!("worker-{}.jsonl", k));
    let mut out = String::new();
    for (j, job) in jobs.iter().enumerate() {
        if !sh.claim(&format!("claim-job-{}", j)) {
            continue;
        }
        if sh.late(0.8) && matches!(job, Job::Hist(..)) {
            out.push_str(&json!({"job": j, "skipped": true}).to_string());
            out.push('\n');
            let _ = std::fs::write(&out_path, &out);
            continue;
        }
        let _ = std::fs::write(root.join(format!("worker-{}.current", k)), format!("{}", j));
        let t0 = Instant::now();
        let mut r = match job {
            Job::Hist(i, h, cfgs) => match catch(|| {
                let mut fl = |partial: &HistResult| {
                    // the parent may kill this worker at its hard deadline: keep what is established so far
                    let mut v = partial.to_json(j);
                    v["partial"] = json!(true);
                    let _ = std::fs::write(&out_path, format!("{}{}\n", out, v));
                };
                process_history(*i, h, cfgs, &sh, &mut fl)
            }) {
                Ok(r) => r,
                Err(p) => {
                    let mut r = HistResult { idx: *i, kind: "history".into(), ..Default::default() };
                    r.violations.push(("harness".into(), "C42/harness_panic".into(), json!({"panic": p})));
                    r
                }
            },
            Job::Many(i, ci, split, ops, cfg, explicit_close) => match catch(|| process_many_run(*i, *ci, *split, ops, *cfg, *explicit_close, &sh)) {
                Ok(r) => r,
                Err(p) => {
                    let mut r = HistResult { idx: *i, kind: "many_files".into(), ..Default::default() };
                    r.violations.push(("harness".into(), "C42/harness_panic".into(), json!({"panic": p})));
                    r
                }
            },
        };
        if r.kind == "history" {
            r.maxima.insert("slowest_history_job_s".into(), t0.elapsed().as_secs());
        }
        r.maxima.insert("last_job_finished_at_s".into(), sh.start.elapsed().as_secs());
        out.push_str(&r.to_json(j).to_string());
        out.push('\n');
        let _ = std::fs::write(&out_path, &out);
    }
    let _ = std::fs::remove_file(root.join(format!("worker-{}.current", k)));
    0
}

pub fn run(a: &Args) -> i32 {
    // worker mode: tv C42 --tier T --seed S c42-worker <k> <root> <budget_s>
    if a.rest.first().map(|s| s == "c42-worker").unwrap_or(false) {
        let k: usize = a.rest.get(1).and_then(|s| s.parse().ok()).unwrap_or(0);
        let root = PathBuf::from(a.rest.get(2).cloned().unwrap_or_default());
        let budget: f64 = a.rest.get(3).and_then(|s| s.parse().ok()).unwrap_or(40.0);
        return worker(a, k, root, budget);
    }
    let mut ctx = Ctx::new(
        "C42",
        &a.tier,
        a.seed,
        "exploration",
        "model-free differential: a generated history (1-3 tables with pk / secondary index / UNIQUE column; multi-row INSERT incl. ones failing on a duplicate key, prepared INSERT bursts through the cached-plan path, UPDATE, DELETE, TRUNCATE, BEGIN..COMMIT/ROLLBACK with savepoints, explicit PRAGMA wal_checkpoint, clean reopen, SELECTs with WHERE / ORDER BY pk / aggregates; each history draws a random subset of these features) is run on a fresh database with no pragma (baseline) and once per configuration {wal ON|OFF} x {synchronous OFF|NORMAL|FULL} x {wal_autoflush ON|OFF} x {wal_checkpoint_threshold tiny(2..10)|default}; per-statement outcome (ok/error class/panic site, rows_affected, rows as bag or as sequence under ORDER BY pk), final state (SELECT * bag, COUNT(*), ordered pk list, pk/secondary/unique index probes) and the same observations after clean close + reopen must equal the baseline. A mismatch is reduced by dropping pragmas one at a time and knocking out history features one at a time (signature = needed pragmas / needed features / statement kind or observation / what differs), then ddmin over the statements for the replay file. Many-files variant: 72 tables + 72 indexes (290 files > 64-entry open-file LRU) written round-robin in autocommit and inside committed/rolled-back transactions, compared with the same history split over 9 small databases, with the no-pragma run, and after reopen. distinct_nontrivial = (history, configuration) pairs in which PRAGMA wal_frame_count showed WAL frames actually written, plus many-files runs in which fewer files were mmapped than exist on disk (eviction measured through /proc/self/maps). Work is spread over worker processes (mmap-heavy work does not scale over threads of one process)",
    );
    if cfg!(miri) {
        ctx.inconclusive("C42 needs real database directories (mmap, fsync); not runnable under Miri");
        return ctx.finish();
    }
    let quick = ctx.quick();
    let scratch = Scratch::new("c42");
    let budget_s = if quick { 40.0f64 } else { 500.0 };
    let (jobs, many) = build_jobs(a.seed, quick);
    let nworkers = std::thread::available_parallelism().map(|n| n.get()).unwrap_or(4).clamp(2, 14).min(jobs.len());
    let exe = match std::env::current_exe() {
        Ok(e) => e,
        Err(e) => {
            ctx.inconclusive(&format!("cannot locate own executable: {}", e));
            return ctx.finish();
        }
    };
    let mut children = vec![];
    for k in 0..nworkers {
        let c = std::process::Command::new(&exe)
            .args(["C42", "--tier", &a.tier, "--seed", &a.seed.to_string(), "c42-worker", &k.to_string(), &scratch.root.to_string_lossy(), &format!("{}", budget_s)])
            .stdout(std::process::Stdio::null())
            .stderr(std::process::Stdio::null())
            .spawn();
        match c {
            Ok(c) => children.push((k, c)),
            Err(e) => ctx.inconclusive(&format!("cannot spawn worker {}: {}", k, e)),
        }
    }
    // hard wall-clock bound: workers still running at the deadline are killed; finished (and partial) job results
    // were already written
    let hard_deadline = if quick { 50.0 } else { 565.0 };
    let t_start = Instant::now();
    let mut killed = 0u64;
    for (k, mut c) in children {
        let st = loop {
            match c.try_wait() {
                Ok(Some(st)) => break Ok(st),
                Ok(None) => {
                    if t_start.elapsed().as_secs_f64() > hard_deadline {
                        let _ = c.kill();
                        let _ = c.wait();
                        killed += 1;
                        break Err(());
                    }
                    std::thread::sleep(std::time::Duration::from_millis(50));
                }
                Err(_) => break Err(()),
            }
        };
        let st = match st {
            Ok(st) => st,
            Err(()) => continue,
        };
        let ok = st.success();
        if !ok {
            // a worker died (abort / signal escapes catch_unwind): attribute to the job it was running
            let cur = std::fs::read_to_string(scratch.root.join(format!("worker-{}.current", k))).unwrap_or_default();
            let what = cur.trim().parse::<usize>().ok().and_then(|j| jobs.get(j)).map(|j| match j {
                Job::Hist(i, h, _) => json!({"history_index": i, "history": hist_json(h)}),
                Job::Many(i, ci, split, ..) => json!({"many_files_history": i, "config_index": ci, "split": split}),
            });
            ctx.violation("no_abort", "C42/worker_process_died", json!({"worker": k, "exit": format!("{:?}", st), "job": what}));
        }
    }
    // merge
    let mut results: BTreeMap<usize, J> = BTreeMap::new();
    for k in 0..nworkers {
        if let Ok(t) = std::fs::read_to_string(scratch.root.join(format!("worker-{}.jsonl", k))) {
            for l in t.lines() {
                if let Ok(v) = serde_json::from_str::<J>(l) {
                    results.insert(v["job"].as_u64().unwrap_or(0) as usize, v);
                }
            }
        }
    }
    let mut maxima: BTreeMap<String, u64> = BTreeMap::new();
    let mut samples_hist = 0;
    let mut mf_runs: BTreeMap<usize, BTreeMap<(usize, bool), MfRun>> = BTreeMap::new();
    for (_, v) in results.iter() {
        if v["skipped"].as_bool().unwrap_or(false) {
            ctx.count("jobs_skipped_wall_budget", 1);
            continue;
        }
        if v["partial"].as_bool().unwrap_or(false) {
            ctx.count("jobs_cut_short_at_hard_deadline", 1);
        }
        ctx.evals(v["evals"].as_u64().unwrap_or(0));
        if v["kind"] == "history" {
            ctx.count(if v["idx"].as_u64().unwrap_or(0) >= 100_000 { "histories_second_wave" } else { "histories" }, 1);
        } else {
            ctx.count("many_files_jobs", 1);
        }
        for h in v["nontrivial"].as_array().cloned().unwrap_or_default() {
            if let Some(x) = h.as_str().and_then(|s| u64::from_str_radix(s, 16).ok()) {
                ctx.nontrivial(x);
            }
        }
        if let Some(m) = v["counters"].as_object() {
            for (k, n) in m {
                ctx.count(k, n.as_u64().unwrap_or(0));
            }
        }
        if let Some(m) = v["maxima"].as_object() {
            for (k, n) in m {
                let e = maxima.entry(k.clone()).or_insert(0);
                *e = (*e).max(n.as_u64().unwrap_or(0));
            }
        }
        if !v["sample"].is_null() {
            if v["kind"] == "history" {
                samples_hist += 1;
                if samples_hist <= 2 {
                    ctx.sample(v["sample"].clone());
                }
            } else {
                ctx.sample(v["sample"].clone());
            }
        }
        for x in v["violations"].as_array().cloned().unwrap_or_default() {
            // debugging aid: C42_DUMP=<dir> keeps the first detail of every signature (the replay dir is capped)
            if let Ok(dir) = std::env::var("C42_DUMP") {
                let sig = x[1].as_str().unwrap_or("");
                let f = format!("{}/{:016x}.json", dir, fnv(sig.as_bytes()));
                if !x[2]["minimal_history"].is_null() && !Path::new(&f).exists() {
                    let _ = std::fs::create_dir_all(&dir);
                    let _ = std::fs::write(&f, serde_json::to_string_pretty(&json!({"sig": sig, "detail": x[2]})).unwrap_or_default());
                }
            }
            ctx.violation(x[0].as_str().unwrap_or(""), x[1].as_str().unwrap_or(""), x[2].clone());
        }
        if !v["extra"]["run"].is_null() {
            let e = &v["extra"];
            mf_runs.entry(e["mf"].as_u64().unwrap_or(0) as usize).or_default().insert((e["ci"].as_u64().unwrap_or(0) as usize, e["split"].as_bool().unwrap_or(false)), MfRun::from_json(&e["run"]));
        }
    }
    for (i, mh) in many.iter().enumerate() {
        if let Some(runs) = mf_runs.get(&i) {
            judge_many_files(&mut ctx, i, &mh.ops, &mh.cfgs, runs);
        }
    }
    if results.len() < jobs.len() {
        ctx.count("jobs_without_result", (jobs.len() - results.len()) as u64);
    }
    if killed > 0 {
        ctx.count("workers_killed_at_hard_deadline", killed);
    }
    for (k, v) in maxima {
        ctx.counters.insert(k, v);
    }
    ctx.count("worker_processes", nworkers as u64);
    ctx.assumptions.push("the baseline is a database on which no PRAGMA was issued; pragmas are re-issued after every mid-history reopen because they are not persisted; the value returned by PRAGMA wal_checkpoint (frames checkpointed) is configuration dependent by design and only its ok/error status is compared; result order without ORDER BY is not compared (bags); a transaction still open at the end of a (reduced) history is committed by the harness in every run alike; both Database::close()+drop and drop alone count as a clean close".into());
    drop(scratch);
    ctx.finish()
}

//! C43: bulk-load APIs equal row-at-a-time INSERT.
//!
//! Twin databases: twin A loads a batch through `insert_batch`, `insert_batch_into_schema`,
//! `insert_cached` (prepared statement executed repeatedly, or the cached plan called directly) or
//! `bulk_insert`; twin B executes one `INSERT INTO t VALUES (...)` per row. Everything else (table,
//! seed rows, DML before/after, transaction, WAL, reopen) is the same SQL on both. Judged:
//!   * twin equalities: `call_result` / `row_outcomes`, `bag`, `autoinc_next`, `post_dml_result`,
//!     `dup_rejected:<col>`;
//!   * self-consistency of A where B is self-consistent for the same probe: `count` (COUNT(*) vs the
//!     scanned bag), `lookup:<col>` (index point lookups for present/absent keys vs a filter of the
//!     scanned bag), `order_by:<col>`, `range:<col>`;
//!   * violating batches: for `insert_cached` the per-row outcome must equal the INSERT's; for
//!     `insert_batch*` (nothing documented) the table must still satisfy its declared constraints
//!     afterwards; for `bulk_insert` (fast_load.rs: "the caller MUST ensure") only counted.
//! A failing case is shrunk structurally (batch size, DML before/after, transaction, WAL, reopen,
//! table traits, NULLs, key order) and the signature is api / observation / what remains.
use crate::report::{catch, Ctx};
use crate::rng::{fnv, Rng};
use crate::sqlm::db::{panic_tag, Db, Outcome, Scratch};
use crate::sqlm::val::{row_key, rows_json, Row, V};
use crate::Args;
use serde_json::{json, Value as J};
use std::cmp::Ordering;
use std::collections::{BTreeMap, BTreeSet, HashMap};
use turdb::OwnedValue;

// column positions: id, u, s, d, n, txt, f
const ID: usize = 0;
const U: usize = 1;
const S: usize = 2;
const D: usize = 3;
const N: usize = 4;
const TXT: usize = 5;
const F: usize = 6;
const COLS: [&str; 7] = ["id", "u", "s", "d", "n", "txt", "f"];

#[derive(Clone, Copy, Debug, PartialEq, Eq, Hash, PartialOrd, Ord)]
enum Api {
    Batch,
    BatchSchema,
    Cached,
    CachedDirect,
    BulkInsert,
}

const APIS: [Api; 5] = [Api::Batch, Api::BatchSchema, Api::Cached, Api::CachedDirect, Api::BulkInsert];

impl Api {
    fn name(&self) -> &'static str {
        match self {
            Api::Batch => "insert_batch",
            Api::BatchSchema => "insert_batch_into_schema",
            Api::Cached => "insert_cached",
            Api::CachedDirect => "insert_cached_direct",
            Api::BulkInsert => "bulk_insert",
        }
    }
    fn rowwise(&self) -> bool {
        matches!(self, Api::Cached | Api::CachedDirect)
    }
}

#[derive(Clone, Copy, Debug, PartialEq, Eq, Hash, Default)]
struct Traits {
    pk: bool,
    unique: bool,
    secidx: bool,
    autoinc: bool,
    defaults: bool,
    notnull: bool,
}

impl Traits {
    fn create_sql(&self) -> Vec<String> {
        let mut v = vec![format!(
            "CREATE TABLE t (id INT{}{}, u INT{}, s INT, d INT{}, n INT{}, txt TEXT, f DOUBLE)",
            if self.pk { " PRIMARY KEY" } else { "" },
            if self.autoinc { " AUTO_INCREMENT" } else { "" },
            if self.unique { " UNIQUE" } else { "" },
            if self.defaults { " DEFAULT 7" } else { "" },
            if self.notnull { " NOT NULL" } else { "" }
        )];
        if self.secidx {
            v.push("CREATE INDEX t_s ON t (s)".into());
        }
        v
    }
    fn names(&self) -> Vec<&'static str> {
        let mut v = vec![];
        if self.pk {
            v.push("pk");
        }
        if self.unique {
            v.push("unique");
        }
        if self.secidx {
            v.push("secidx");
        }
        if self.autoinc {
            v.push("autoinc");
        }
        if self.defaults {
            v.push("default");
        }
        if self.notnull {
            v.push("notnull");
        }
        v
    }
}

#[derive(Clone, Copy, Debug, PartialEq, Eq, Hash)]
enum Txn {
    None,
    Commit,
    Rollback,
}

#[derive(Clone, Copy, Debug, PartialEq, Eq, Hash)]
enum ViolKind {
    DupPkInBatch,
    DupPkExisting,
    DupUniqueInBatch,
    DupUniqueExisting,
    NullNotNull,
}

impl ViolKind {
    fn name(&self) -> &'static str {
        match self {
            ViolKind::DupPkInBatch => "dup_pk_in_batch",
            ViolKind::DupPkExisting => "dup_pk_existing",
            ViolKind::DupUniqueInBatch => "dup_unique_in_batch",
            ViolKind::DupUniqueExisting => "dup_unique_existing",
            ViolKind::NullNotNull => "null_into_not_null",
        }
    }
}

#[derive(Clone, Debug)]
struct Case {
    tr: Traits,
    api: Api,
    wal: bool,
    txn: Txn,
    seeds: Vec<Row>,
    /// marker values (column d) of seed rows deleted / updated before the load
    pre_delete: Vec<i64>,
    pre_update: Vec<i64>,
    batch: Vec<Row>,
    viol: Option<ViolKind>,
    post_insert: Vec<Row>,
    post_update: Vec<i64>,
    post_delete: Vec<i64>,
    reopen: bool,
    /// prepared statement with a column list that omits the AUTO_INCREMENT id
    collist: bool,
    wide: bool,
    nulls: bool,
    shuffled: bool,
    null_ids: bool,
}

impl Case {
    fn flags(&self) -> Vec<String> {
        let mut v: Vec<String> = self.tr.names().iter().map(|s| s.to_string()).collect();
        if self.wide {
            v.push("wide_rows".into());
        }
        if self.nulls {
            v.push("nulls".into());
        }
        if self.null_ids {
            v.push("null_id".into());
        }
        if self.shuffled {
            v.push("unordered_keys".into());
        }
        if self.collist {
            v.push("collist".into());
        }
        if !self.seeds.is_empty() {
            v.push("rows_before".into());
        }
        if !self.pre_delete.is_empty() {
            v.push("delete_before".into());
        }
        if !self.pre_update.is_empty() {
            v.push("update_before".into());
        }
        if !self.post_insert.is_empty() {
            v.push("insert_after".into());
        }
        if !self.post_update.is_empty() {
            v.push("update_after".into());
        }
        if !self.post_delete.is_empty() {
            v.push("delete_after".into());
        }
        match self.txn {
            Txn::None => {}
            Txn::Commit => v.push("txn_commit".into()),
            Txn::Rollback => v.push("txn_rollback".into()),
        }
        if self.wal {
            v.push("wal".into());
        }
        if self.reopen {
            v.push("reopen".into());
        }
        match self.batch.len() {
            0 => v.push("batch0".into()),
            1 => {}
            2..=63 => v.push("batch>1".into()),
            _ => v.push("batch>=64".into()),
        }
        if let Some(k) = self.viol {
            v.push(format!("viol:{}", k.name()));
        }
        v
    }
    fn size_class(&self) -> &'static str {
        match self.batch.len() {
            0 => "0",
            1 => "1",
            2..=39 => "small",
            40..=450 => "leaf_band",
            _ => "5000",
        }
    }
}

fn insert_sql(r: &Row) -> String {
    format!("INSERT INTO t VALUES ({})", r.iter().map(|v| v.sql()).collect::<Vec<_>>().join(", "))
}

fn to_owned(r: &Row) -> Vec<OwnedValue> {
    r.iter().map(|v| v.to_owned_value()).collect()
}

fn err_class(e: &str) -> String {
    if e.starts_with("PANIC: ") {
        return format!("panic@{}", panic_tag(e));
    }
    e.split(|c: char| !c.is_ascii_alphabetic()).filter(|w| !w.is_empty()).take(6).collect::<Vec<_>>().join("_").to_lowercase()
}

fn gen_row(rng: &mut Rng, id: V, u: V, marker: i64, c: (bool, bool)) -> Row {
    let (nulls, wide) = c;
    let s = if nulls && rng.chance(1, 6) { V::Null } else { V::Int(rng.range(0, 9)) };
    let txt = if nulls && rng.chance(1, 6) {
        V::Null
    } else if wide {
        V::Text(format!("w{}-{}", marker, "x".repeat(rng.usize(60, 260))))
    } else {
        V::Text(format!("r{}", marker))
    };
    let f = if nulls && rng.chance(1, 6) { V::Null } else { V::Float(rng.range(-40, 40) as f64 * 0.25) };
    vec![id, u, s, V::Int(marker), V::Int(rng.range(-50, 50)), txt, f]
}

fn gen_case(rng: &mut Rng, api: Api, size: usize, force_viol: bool) -> Case {
    let mut tr = Traits { pk: rng.chance(1, 2), unique: rng.chance(2, 5), secidx: rng.chance(2, 5), autoinc: rng.chance(1, 4), defaults: rng.chance(1, 4), notnull: rng.chance(1, 4) };
    let viol = if force_viol && size >= 2 && size <= 8 { Some(*rng.pick(&[ViolKind::DupPkInBatch, ViolKind::DupPkExisting, ViolKind::DupUniqueInBatch, ViolKind::DupUniqueExisting, ViolKind::NullNotNull])) } else { None };
    match viol {
        Some(ViolKind::DupPkInBatch) | Some(ViolKind::DupPkExisting) => tr.pk = true,
        Some(ViolKind::DupUniqueInBatch) | Some(ViolKind::DupUniqueExisting) => tr.unique = true,
        Some(ViolKind::NullNotNull) => tr.notnull = true,
        None => {}
    }
    let nulls = rng.chance(1, 2);
    let wide = rng.chance(1, 3);
    let null_ids = tr.autoinc && viol.is_none() && rng.chance(1, 2);
    let collist = api == Api::Cached && tr.autoinc && null_ids && rng.chance(1, 3);
    let needs_seed = matches!(viol, Some(ViolKind::DupPkExisting) | Some(ViolKind::DupUniqueExisting));
    let nseed = if needs_seed || rng.chance(7, 10) { rng.usize(1, 25) } else { 0 };
    let mut seeds = vec![];
    for i in 0..nseed {
        let id = if null_ids { V::Null } else { V::Int(i as i64 + 1) };
        let u = if nulls && rng.chance(1, 5) { V::Null } else { V::Int(i as i64 + 1) };
        seeds.push(gen_row(rng, id, u, i as i64 + 1, (nulls, wide)));
    }
    let mut pre_delete = vec![];
    let mut pre_update = vec![];
    if nseed > 0 && rng.chance(2, 5) {
        for _ in 0..rng.usize(1, nseed.min(3)) {
            let m = rng.range(1, nseed as i64);
            if !pre_delete.contains(&m) && !(needs_seed && m == 1) {
                pre_delete.push(m);
            }
        }
    }
    if nseed > 0 && rng.chance(1, 3) {
        for _ in 0..rng.usize(1, 2) {
            let m = rng.range(1, nseed as i64);
            if !pre_delete.contains(&m) && !pre_update.contains(&m) {
                pre_update.push(m);
            }
        }
    }
    // batch: ids from 100 upward (gaps), u from 1000 upward; markers 1000+i
    let shuffled = !null_ids && size > 1 && rng.chance(2, 5);
    let mut ids: Vec<i64> = vec![];
    let mut next = 100i64;
    for _ in 0..size {
        ids.push(next);
        next += 1 + if rng.chance(1, 4) { rng.below(3) as i64 } else { 0 };
    }
    if shuffled {
        rng.shuffle(&mut ids);
    }
    let mut batch = vec![];
    for i in 0..size {
        let id = if null_ids { V::Null } else { V::Int(ids[i]) };
        let u = if nulls && rng.chance(1, 5) { V::Null } else { V::Int(1000 + i as i64) };
        batch.push(gen_row(rng, id, u, 1000 + i as i64, (nulls, wide)));
    }
    if let Some(k) = viol {
        let j = rng.usize(1, size - 1);
        let i = rng.usize(0, j - 1);
        match k {
            ViolKind::DupPkInBatch => batch[j][ID] = batch[i][ID].clone(),
            ViolKind::DupPkExisting => batch[j][ID] = V::Int(1),
            ViolKind::DupUniqueInBatch => {
                batch[i][U] = V::Int(1000 + i as i64);
                batch[j][U] = batch[i][U].clone();
            }
            ViolKind::DupUniqueExisting => {
                // seed row 1 keeps a non-NULL u
                seeds[0][U] = V::Int(1);
                batch[j][U] = V::Int(1);
            }
            ViolKind::NullNotNull => batch[j][N] = V::Null,
        }
    }
    let mut post_insert = vec![];
    if rng.chance(2, 5) {
        for i in 0..rng.usize(1, 4) {
            let id = if tr.autoinc && (null_ids || rng.chance(1, 2)) { V::Null } else { V::Int(8000 + i as i64) };
            post_insert.push(gen_row(rng, id, V::Int(8000 + i as i64), 8000 + i as i64, (nulls, wide)));
        }
    }
    let mut post_update = vec![];
    let mut post_delete = vec![];
    if size > 0 && rng.chance(1, 3) {
        for _ in 0..rng.usize(1, 2) {
            post_update.push(1000 + rng.below(size as u64) as i64);
        }
    }
    if size > 0 && rng.chance(1, 3) {
        for _ in 0..rng.usize(1, 2) {
            let m = 1000 + rng.below(size as u64) as i64;
            if !post_delete.contains(&m) {
                post_delete.push(m);
            }
        }
    }
    let mut txn = match rng.below(10) {
        0..=5 => Txn::None,
        6 | 7 => Txn::Commit,
        _ => Txn::Rollback,
    };
    if api == Api::BulkInsert && txn == Txn::Rollback {
        // fast_load.rs: "FastLoader operates in auto-commit mode ... For transactional bulk loads, use standard INSERT"
        txn = Txn::Commit;
    }
    Case { tr, api, wal: size <= 60 && rng.chance(2, 5), txn, seeds, pre_delete, pre_update, batch, viol, post_insert, post_update, post_delete, reopen: rng.chance(1, 3), collist, wide, nulls, shuffled, null_ids }
}

/// what one twin looks like at one point
struct Obs {
    bag: Result<Vec<Row>, String>,
    count: Result<i64, String>,
    /// (column, key, rows)
    lookups: Vec<(usize, V, Result<Vec<Row>, String>)>,
    /// (column, projected column in order)
    orders: Vec<(usize, Result<Vec<V>, String>)>,
    /// (column, lo, hi, rows)
    ranges: Vec<(usize, i64, i64, Result<Vec<Row>, String>)>,
}

fn sorted_keys(rows: &[Row]) -> Vec<String> {
    let mut k: Vec<String> = rows.iter().map(|r| row_key(r, true)).collect();
    k.sort();
    k
}

fn observe(db: &mut Db, probes: &[(usize, V)], order_cols: &[usize], ranges: &[(usize, i64, i64)]) -> Obs {
    let bag = db.query("SELECT * FROM t");
    let count = match db.query("SELECT COUNT(*) FROM t") {
        Ok(r) => match r.get(0).and_then(|x| x.get(0)) {
            Some(V::Int(i)) => Ok(*i),
            other => Err(format!("COUNT(*) returned {:?}", other)),
        },
        Err(e) => Err(e),
    };
    let lookups = probes.iter().map(|(c, k)| (*c, k.clone(), db.query(&format!("SELECT * FROM t WHERE {} = {}", COLS[*c], k.sql())))).collect();
    let orders = order_cols.iter().map(|c| (*c, db.query(&format!("SELECT {} FROM t ORDER BY {}", COLS[*c], COLS[*c])).map(|rows| rows.into_iter().map(|mut r| r.swap_remove(0)).collect()))).collect();
    let ranges = ranges.iter().map(|(c, lo, hi)| (*c, *lo, *hi, db.query(&format!("SELECT * FROM t WHERE {} >= {} AND {} <= {}", COLS[*c], lo, COLS[*c], hi)))).collect();
    Obs { bag, count, lookups, orders, ranges }
}

/// names of the self-consistency observations that fail on this twin (None = holds), relative to its own scan
fn self_check(o: &Obs) -> BTreeMap<String, J> {
    let mut bad = BTreeMap::new();
    let bag = match &o.bag {
        Ok(b) => b,
        Err(_) => return bad,
    };
    match &o.count {
        Ok(c) if *c as usize == bag.len() => {}
        Ok(c) => {
            bad.insert("count".into(), json!({"count_star": c, "scanned_rows": bag.len()}));
        }
        Err(e) => {
            bad.insert("count".into(), json!({"error": e}));
        }
    }
    for (c, k, res) in &o.lookups {
        let want: Vec<Row> = bag.iter().filter(|r| r.get(*c).map_or(false, |v| v.sql_cmp(k) == Some(Ordering::Equal))).cloned().collect();
        let name = format!("lookup_{}:{}", if want.is_empty() { "absent" } else { "present" }, COLS[*c]);
        match res {
            Ok(rows) if sorted_keys(rows) == sorted_keys(&want) => {}
            Ok(rows) => {
                bad.entry(name).or_insert_with(|| json!({"key": k.to_json(), "lookup_rows": rows_json(rows, 4), "lookup_len": rows.len(), "rows_in_scan_with_key": rows_json(&want, 4), "scan_len": want.len()}));
            }
            Err(e) => {
                bad.entry(name).or_insert_with(|| json!({"key": k.to_json(), "error": e}));
            }
        }
    }
    for (c, res) in &o.orders {
        let mut want: Vec<V> = bag.iter().filter_map(|r| r.get(*c).cloned()).collect();
        want.sort_by(|a, b| a.order_cmp(b));
        let name = format!("order_by:{}", COLS[*c]);
        match res {
            Ok(got) if got.len() == want.len() && got.iter().zip(&want).all(|(a, b)| a.key(true) == b.key(true)) => {}
            Ok(got) => {
                bad.insert(name, json!({"got_len": got.len(), "want_len": want.len(), "got_head": got.iter().take(8).map(|v| v.to_json()).collect::<Vec<_>>(), "want_head": want.iter().take(8).map(|v| v.to_json()).collect::<Vec<_>>()}));
            }
            Err(e) => {
                bad.insert(name, json!({"error": e}));
            }
        }
    }
    for (c, lo, hi, res) in &o.ranges {
        let want: Vec<Row> = bag.iter().filter(|r| matches!(r.get(*c), Some(V::Int(x)) if x >= lo && x <= hi)).cloned().collect();
        let name = format!("range:{}", COLS[*c]);
        match res {
            Ok(rows) if sorted_keys(rows) == sorted_keys(&want) => {}
            Ok(rows) => {
                bad.insert(name, json!({"lo": lo, "hi": hi, "range_len": rows.len(), "scan_len": want.len()}));
            }
            Err(e) => {
                bad.insert(name, json!({"error": e}));
            }
        }
    }
    bad
}

#[derive(Default)]
struct CaseOut {
    /// (observation name, detail) that differ, in order of discovery
    diffs: Vec<(String, J)>,
    dropped: Option<String>,
    /// the API call loaded at least one row
    exercised: bool,
    index_probes: u64,
    index_probes_via_index: u64,
    notes: Vec<String>,
    log_a: Vec<String>,
}

fn setup(scratch: &Scratch, name: &str, c: &Case) -> Result<Db, String> {
    let mut db = Db::create(&scratch.dir(name))?;
    if c.wal {
        db.exec("PRAGMA wal = ON")?;
    }
    for s in c.tr.create_sql() {
        db.exec(&s)?;
    }
    Ok(db)
}

fn outcome_str(r: &Result<Outcome, String>) -> String {
    match r {
        Ok(Outcome::Dml(n, ret)) => format!("ok:{}{}", n, ret.as_ref().map(|rows| format!(":{}", rows.iter().map(|r| row_key(r, true)).collect::<Vec<_>>().join(";"))).unwrap_or_default()),
        Ok(_) => "ok".into(),
        Err(e) if e.starts_with("PANIC: ") => format!("panic@{}", panic_tag(e)),
        Err(_) => "err".into(),
    }
}

/// load the batch through the API on twin A; returns (per-row outcomes for row-wise APIs | call result, rows loaded?)
fn load_a(db: &mut Db, c: &Case) -> (String, bool, Option<String>) {
    let rows: Vec<Vec<OwnedValue>> = c.batch.iter().map(to_owned).collect();
    db.log.push(format!("-- {}({} rows)", c.api.name(), rows.len()));
    let raw = &db.db;
    let res: Result<(String, bool, Option<String>), String> = catch(|| match c.api {
        Api::Batch | Api::BatchSchema | Api::BulkInsert => {
            let r = match c.api {
                Api::Batch => raw.insert_batch("t", &rows).map(|n| n as u64),
                Api::BatchSchema => raw.insert_batch_into_schema("root", "t", &rows).map(|n| n as u64),
                _ => raw.bulk_insert("t", rows.clone()),
            };
            match r {
                Ok(n) => (format!("ok:{}", n), n > 0, None),
                Err(e) => ("err".to_string(), false, Some(format!("{:#}", e))),
            }
        }
        Api::Cached | Api::CachedDirect => {
            let sql = if c.collist { "INSERT INTO t (u, s, d, n, txt, f) VALUES (?, ?, ?, ?, ?, ?)" } else { "INSERT INTO t VALUES (?, ?, ?, ?, ?, ?, ?)" };
            let stmt = match raw.prepare(sql) {
                Ok(s) => s,
                Err(e) => return ("prepare_err".to_string(), false, Some(format!("{:#}", e))),
            };
            let mut out = String::new();
            let mut first_err = None;
            let mut any = false;
            let mut plan = None;
            for (i, r) in rows.iter().enumerate() {
                let params: &[OwnedValue] = if c.collist { &r[1..] } else { &r[..] };
                let res = if c.api == Api::CachedDirect && plan.is_some() {
                    raw.insert_cached(plan.as_ref().unwrap(), params).map(|_| ())
                } else {
                    let mut b = stmt.bind(params[0].clone());
                    for p in &params[1..] {
                        b = b.bind(p.clone());
                    }
                    b.execute(raw).map(|_| ())
                };
                if c.api == Api::CachedDirect && plan.is_none() {
                    plan = stmt.cached_insert_plan();
                }
                match res {
                    Ok(()) => {
                        out.push('o');
                        any = true;
                    }
                    Err(e) => {
                        out.push('x');
                        if first_err.is_none() {
                            first_err = Some(format!("row {}: {:#}", i, e));
                        }
                    }
                }
            }
            (out, any, first_err)
        }
    });
    match res {
        Ok(x) => x,
        Err(p) => (format!("panic@{}", panic_tag(&format!("PANIC: {}", p))), false, Some(p)),
    }
}

fn load_b(db: &mut Db, c: &Case) -> (String, String) {
    let mut per_row = String::new();
    let mut n = 0;
    for r in &c.batch {
        match db.exec(&insert_sql(r)) {
            Ok(_) => {
                per_row.push('o');
                n += 1;
            }
            Err(_) => per_row.push('x'),
        }
    }
    let call = if per_row.contains('x') { "err".to_string() } else { format!("ok:{}", n) };
    (call, per_row)
}

/// probe keys derived from the reference twin's content (present keys) plus absent keys
fn make_probes(c: &Case, bag_b: &[Row], bag_a: &[Row], rng: &mut Rng) -> (Vec<(usize, V)>, Vec<usize>, Vec<(usize, i64, i64)>) {
    let mut probes: Vec<(usize, V)> = vec![];
    let mut orders = vec![];
    let mut ranges = vec![];
    let cols: Vec<usize> = [(c.tr.pk, ID), (c.tr.unique, U), (c.tr.secidx, S)].iter().filter(|(b, _)| *b).map(|(_, c)| *c).collect();
    for col in cols {
        let mut seen: BTreeSet<String> = BTreeSet::new();
        for bag in [bag_b, bag_a] {
            let vals: Vec<&V> = bag.iter().filter_map(|r| r.get(col)).filter(|v| matches!(v, V::Int(_))).collect();
            if vals.is_empty() {
                continue;
            }
            // every key of a small table (so that a failing key is found at the first point it
            // fails), an evenly spaced sample plus a few random ones of a large one
            let mut picks: Vec<usize> = if vals.len() <= 48 { (0..vals.len()).collect() } else { (0..40).map(|i| i * (vals.len() - 1) / 39).collect() };
            if vals.len() > 48 {
                for _ in 0..5 {
                    picks.push(rng.below(vals.len() as u64) as usize);
                }
            }
            for p in picks {
                if seen.insert(vals[p].key(true)) {
                    probes.push((col, vals[p].clone()));
                }
            }
        }
        probes.push((col, V::Int(777_777)));
        probes.push((col, V::Int(-5)));
        orders.push(col);
        let lo = if col == S { 2 } else if col == ID { 90 } else { 995 };
        ranges.push((col, lo, lo + if col == S { 4 } else { 30 }));
    }
    (probes, orders, ranges)
}

/// compare the two twins at one point; pushes differing observation names (suffix = phase)
fn compare_point(out: &mut CaseOut, a: &Obs, b: &Obs, phase: &str, bag_diverged: &mut bool, reported: &mut BTreeSet<String>) {
    match (&a.bag, &b.bag) {
        (_, Err(e)) => {
            if out.dropped.is_none() {
                out.dropped = Some(format!("reference_scan_failed{}:{}", phase, err_class(e)));
            }
            return;
        }
        (Err(e), Ok(_)) => {
            if !*bag_diverged {
                out.diffs.push((format!("bag{}", phase), json!({"bulk_twin_scan_error": e})));
                *bag_diverged = true;
            }
            return;
        }
        (Ok(ba), Ok(bb)) => {
            if !*bag_diverged {
                if let Some(d) = crate::sqlm::cmp::bag_diff(ba, bb) {
                    out.diffs.push((format!("bag{}", phase), json!({"bulk_twin_vs_reference": d})));
                    *bag_diverged = true;
                }
            }
        }
    }
    let sa = self_check(a);
    let sb = self_check(b);
    for (name, d) in sa {
        if sb.contains_key(&name) {
            out.notes.push(format!("reference_also_inconsistent:{}", name));
            continue;
        }
        if reported.insert(name.clone()) {
            out.diffs.push((format!("{}{}", name, phase), d));
        }
    }
}

fn run_case(scratch: &Scratch, c: &Case, tag: &str) -> CaseOut {
    let mut out = CaseOut::default();
    let mut rng = Rng::new(fnv(format!("{:?}{:?}{}", c.tr, c.api, c.batch.len()).as_bytes()));
    let (mut a, mut b) = match (setup(scratch, &format!("{}a", tag), c), setup(scratch, &format!("{}b", tag), c)) {
        (Ok(a), Ok(b)) => (a, b),
        (Err(e), _) | (_, Err(e)) => {
            out.dropped = Some(format!("setup:{}", err_class(&e)));
            return out;
        }
    };
    let rowwise = c.api.rowwise();
    let batch_api_viol = c.viol.is_some() && !rowwise;
    // ---- identical SQL before the load
    let mut pre: Vec<String> = c.seeds.iter().map(insert_sql).collect();
    for m in &c.pre_delete {
        pre.push(format!("DELETE FROM t WHERE d = {}", m));
    }
    for m in &c.pre_update {
        pre.push(format!("UPDATE t SET n = n + 1, s = 5 WHERE d = {}", m));
    }
    for s in &pre {
        let ra = outcome_str(&a.exec(s));
        let rb = outcome_str(&b.exec(s));
        if ra != rb || ra.starts_with("err") || ra.starts_with("panic") {
            out.dropped = Some(format!("sql_before_load_failed_or_diverged:{}", s.split(' ').next().unwrap_or("")));
            return out;
        }
    }
    if c.txn != Txn::None {
        let _ = a.exec("BEGIN");
        let _ = b.exec("BEGIN");
    }
    // ---- the load
    let (res_a, any, err_a) = load_a(&mut a, c);
    out.exercised = any;
    let (call_b, rows_b) = if batch_api_viol { (String::new(), String::new()) } else { load_b(&mut b, c) };
    match c.txn {
        Txn::None => {}
        Txn::Commit => {
            let ra = outcome_str(&a.exec("COMMIT"));
            let rb = outcome_str(&b.exec("COMMIT"));
            if ra != rb {
                out.diffs.push(("commit_result".into(), json!({"bulk_twin": ra, "reference": rb})));
            }
        }
        Txn::Rollback => {
            let ra = outcome_str(&a.exec("ROLLBACK"));
            let rb = outcome_str(&b.exec("ROLLBACK"));
            if ra != rb {
                out.diffs.push(("rollback_result".into(), json!({"bulk_twin": ra, "reference": rb})));
            }
        }
    }
    if res_a.starts_with("panic@") {
        out.diffs.push((format!("no_panic:{}", res_a), json!({"panic": err_a})));
        out.log_a = a.log.clone();
        return out;
    }
    // ---- violating batch through a batch API: only the declared constraints are demanded
    if batch_api_viol {
        let kind = c.viol.unwrap();
        let rows = match a.query("SELECT * FROM t") {
            Ok(r) => r,
            Err(e) => {
                out.diffs.push(("bag".into(), json!({"bulk_twin_scan_error": e, "after": "violating batch"})));
                out.log_a = a.log.clone();
                return out;
            }
        };
        let mut broken: Option<J> = None;
        let dup = |col: usize| -> Option<V> {
            let mut seen = BTreeSet::new();
            for r in &rows {
                if let Some(v) = r.get(col) {
                    if !v.is_null() && !seen.insert(v.key(true)) {
                        return Some(v.clone());
                    }
                }
            }
            None
        };
        if c.tr.pk {
            if let Some(v) = dup(ID) {
                broken = Some(json!({"constraint": "PRIMARY KEY(id)", "duplicate_value": v.to_json()}));
            }
        }
        if broken.is_none() && c.tr.unique {
            if let Some(v) = dup(U) {
                broken = Some(json!({"constraint": "UNIQUE(u)", "duplicate_value": v.to_json()}));
            }
        }
        if broken.is_none() && c.tr.notnull && rows.iter().any(|r| r.get(N).map_or(false, |v| v.is_null())) {
            broken = Some(json!({"constraint": "NOT NULL(n)"}));
        }
        if let Some(bj) = broken {
            if c.api == Api::BulkInsert {
                out.notes.push(format!("bulk_insert_admits:{}(documented caller precondition)", kind.name()));
            } else {
                out.diffs.push((format!("violating_batch_admitted:{}", kind.name()), json!({"call_result": res_a, "call_error": err_a, "broken": bj, "rows_after": rows.len()})));
            }
        } else {
            out.notes.push(format!("violating_batch_handled:{}:{}:{}", c.api.name(), kind.name(), if res_a == "err" { "rejected" } else { "skipped" }));
        }
        out.log_a = a.log.clone();
        return out;
    }
    // ---- clean batch (or row-wise API): the reference must have behaved as planned
    if c.viol.is_none() && rows_b.contains('x') {
        out.dropped = Some("reference_insert_failed_on_clean_batch".into());
        return out;
    }
    if c.viol.is_some() && !rows_b.contains('x') {
        out.dropped = Some("reference_accepted_violating_row".into());
        return out;
    }
    let mut bag_diverged = false;
    if rowwise {
        if res_a != rows_b {
            // the tables differ as a consequence
            bag_diverged = true;
            out.diffs.push(("row_outcomes".into(), json!({"bulk_twin": res_a.chars().take(64).collect::<String>(), "reference": rows_b.chars().take(64).collect::<String>(), "first_error": err_a, "meaning": "o = accepted, x = rejected, per row in order"})));
        }
    } else if res_a != call_b {
        bag_diverged = true;
        out.diffs.push(("call_result".into(), json!({"bulk_twin": res_a, "reference": call_b, "error": err_a})));
    }
    // ---- observations after the load
    let mut reported: BTreeSet<String> = BTreeSet::new();
    let scan = |db: &mut Db| db.query("SELECT * FROM t").unwrap_or_default();
    let point = |a: &mut Db, b: &mut Db, out: &mut CaseOut, phase: &str, rng: &mut Rng, bag_diverged: &mut bool, reported: &mut BTreeSet<String>, explain: bool| {
        let bag_b = scan(b);
        let bag_a = scan(a);
        let (probes, orders, ranges) = make_probes(c, &bag_b, &bag_a, rng);
        if explain {
            let mut seen = BTreeSet::new();
            for (col, k) in &probes {
                if seen.insert(*col) {
                    out.index_probes += 1;
                    if a.explain(&format!("SELECT * FROM t WHERE {} = {}", COLS[*col], k.sql())).map_or(false, |p| p.contains("IndexScan")) {
                        out.index_probes_via_index += 1;
                    }
                }
            }
        }
        let oa = observe(a, &probes, &orders, &ranges);
        let ob = observe(b, &probes, &orders, &ranges);
        compare_point(out, &oa, &ob, phase, bag_diverged, reported);
    };
    point(&mut a, &mut b, &mut out, "", &mut rng, &mut bag_diverged, &mut reported, true);
    if out.dropped.is_some() {
        return out;
    }
    // reference sanity: every row of a clean batch with explicit ids is in the reference table
    if c.viol.is_none() && !c.null_ids && c.txn != Txn::Rollback {
        let have: BTreeSet<String> = scan(&mut b).iter().map(|r| row_key(r, true)).collect();
        if c.batch.iter().any(|r| !have.contains(&row_key(r, true))) {
            out.dropped = Some("reference_twin_does_not_hold_the_inserted_rows".into());
            return out;
        }
    }
    // ---- AUTO_INCREMENT continuation
    if c.tr.autoinc {
        let s = "INSERT INTO t (u, s, d, n, txt, f) VALUES (7001, 1, 7001, 1, 'next', 0.5) RETURNING id";
        let ra = outcome_str(&a.exec(s));
        let rb = outcome_str(&b.exec(s));
        if ra != rb {
            out.diffs.push(("autoinc_next".into(), json!({"statement": s, "bulk_twin": ra, "reference": rb})));
            // from here on the tables differ as a consequence
            bag_diverged = true;
        }
    }
    // ---- identical DML after the load
    let mut post: Vec<String> = c.post_insert.iter().map(insert_sql).collect();
    for m in &c.post_update {
        post.push(format!("UPDATE t SET n = n + 1, s = 6 WHERE d = {}", m));
    }
    for m in &c.post_delete {
        post.push(format!("DELETE FROM t WHERE d = {}", m));
    }
    if !post.is_empty() {
        let mut ra = vec![];
        let mut rb = vec![];
        for s in &post {
            ra.push(outcome_str(&a.exec(s)));
            rb.push(outcome_str(&b.exec(s)));
        }
        let post_diff = ra != rb;
        if post_diff && !bag_diverged {
            bag_diverged = true;
            let i = ra.iter().zip(&rb).position(|(x, y)| x != y).unwrap_or(0);
            let kind = post[i].split(' ').next().unwrap_or("").to_lowercase();
            out.diffs.push((format!("post_dml_result:{}", kind), json!({"statement": post[i], "bulk_twin": ra[i], "reference": rb[i]})));
        }
        point(&mut a, &mut b, &mut out, "@after_dml", &mut rng, &mut bag_diverged, &mut reported, false);
    }
    // ---- reopen
    if c.reopen {
        let (pa, pb) = (a.path.clone(), b.path.clone());
        let la = std::mem::take(&mut a.log);
        let ra = catch(move || drop(a));
        let rb = catch(move || drop(b));
        if rb.is_err() {
            out.dropped = Some("reference_drop_panicked".into());
            return out;
        }
        if let Err(p) = ra {
            out.diffs.push((format!("no_panic:drop@{}", panic_tag(&format!("PANIC: {}", p))), json!({"panic": p})));
            return out;
        }
        b = match Db::open(&pb) {
            Ok(d) => d,
            Err(e) => {
                out.dropped = Some(format!("reference_reopen_failed:{}", err_class(&e)));
                return out;
            }
        };
        a = match Db::open(&pa) {
            Ok(d) => d,
            Err(e) => {
                out.diffs.push(("reopen".into(), json!({"bulk_twin_open_error": e})));
                out.log_a = la;
                return out;
            }
        };
        a.log = la;
        a.log.push("-- drop handle; Database::open".into());
        if c.wal {
            let _ = a.exec("PRAGMA wal = ON");
            let _ = b.exec("PRAGMA wal = ON");
        }
        point(&mut a, &mut b, &mut out, "@reopen", &mut rng, &mut bag_diverged, &mut reported, false);
    }
    // ---- a duplicate of a bulk-loaded key must be rejected on both twins
    if !c.batch.is_empty() && c.txn != Txn::Rollback {
        let bag_a = scan(&mut a);
        for (col, on) in [(ID, c.tr.pk), (U, c.tr.unique)] {
            if !on {
                continue;
            }
            // a key of a batch row that is visible on both twins
            let key = c
                .batch
                .iter()
                .filter_map(|r| bag_a.iter().find(|x| x.get(D).map_or(false, |d| d.key(true) == r[D].key(true))))
                .filter_map(|x| match x.get(col) {
                    Some(V::Int(i)) => Some(*i),
                    _ => None,
                })
                .next();
            let key = match key {
                Some(k) => k,
                None => continue,
            };
            let mut r = vec![V::Int(6000 + col as i64), V::Int(6000 + col as i64), V::Int(1), V::Int(6000 + col as i64), V::Int(1), V::Text("dup".into()), V::Float(0.5)];
            r[col] = V::Int(key);
            let s = insert_sql(&r);
            let ra = outcome_str(&a.exec(&s));
            let rb = outcome_str(&b.exec(&s));
            if rb.starts_with("ok") {
                out.notes.push(format!("reference_accepts_duplicate:{}", COLS[col]));
                continue;
            }
            if ra != rb {
                out.diffs.push((format!("dup_rejected:{}", COLS[col]), json!({"statement": s, "bulk_twin": ra, "reference": rb})));
            }
        }
    }
    out.log_a = a.log.clone();
    let _ = catch(move || drop(a));
    let _ = catch(move || drop(b));
    out
}

/// structural shrink: smallest case (by a fixed list of simplifications) for which `obs` still differs
fn shrink_case(scratch: &Scratch, tag: &str, c: &Case, obs: &str, budget: &mut u32, deadline: std::time::Instant, cut_short: &mut bool) -> Case {
    let mut cur = c.clone();
    let mut memo: HashMap<u64, bool> = HashMap::new();
    let mut fails = |cand: &Case, budget: &mut u32| -> bool {
        let h = fnv(format!("{:?}", cand).as_bytes());
        if let Some(r) = memo.get(&h) {
            return *r;
        }
        if *budget == 0 || std::time::Instant::now() > deadline {
            *cut_short = true;
            return false;
        }
        *budget -= 1;
        let r = run_case(scratch, cand, tag);
        let f = r.dropped.is_none() && r.diffs.iter().any(|(n, _)| n == obs);
        memo.insert(h, f);
        f
    };
    // whatever happens after the observation is decided cannot matter
    let late = obs.contains('@') || obs.starts_with("dup_rejected") || obs.starts_with("post_dml_result") || obs == "reopen";
    if !late {
        cur.post_insert.clear();
        cur.post_update.clear();
        cur.post_delete.clear();
        cur.reopen = false;
    } else if obs.ends_with("@after_dml") || obs.starts_with("post_dml_result") {
        cur.reopen = false;
    }
    // batch size (violating batches keep their rows)
    if cur.viol.is_none() {
        let mut sizes: Vec<usize> = vec![1, 2, 8, 64, 512];
        sizes.retain(|s| *s < cur.batch.len());
        let cut = |c: &Case, s: usize| -> Case {
            let mut cand = c.clone();
            cand.batch.truncate(s);
            cand.post_update.retain(|m| *m < 1000 + s as i64);
            cand.post_delete.retain(|m| *m < 1000 + s as i64);
            cand
        };
        let mut lo = 0usize; // largest size known (assumed) not to fail
        for s in sizes {
            let cand = cut(&cur, s);
            if fails(&cand, budget) {
                cur = cand;
                break;
            }
            lo = s;
        }
        // refine between the last passing and the first failing prefix length
        let mut hi = cur.batch.len();
        while hi > lo + 1 && hi <= 600 {
            let mid = (lo + hi) / 2;
            let cand = cut(&cur, mid);
            if fails(&cand, budget) {
                cur = cand;
                hi = mid;
            } else {
                lo = mid;
            }
        }
    } else if cur.batch.len() > 2 {
        // keep only the colliding pair / the offending row and one other
        let n = cur.batch.len();
        for drop_i in (0..n).rev() {
            if cur.batch.len() <= 2 {
                break;
            }
            let mut cand = cur.clone();
            if drop_i < cand.batch.len() {
                cand.batch.remove(drop_i);
                if fails(&cand, budget) {
                    cur = cand;
                }
            }
        }
    }
    if cur.batch.len() > 600 {
        *budget = (*budget).min(10);
    }
    macro_rules! try_set {
        ($body:expr) => {{
            let mut cand = cur.clone();
            let f: &dyn Fn(&mut Case) = &$body;
            f(&mut cand);
            if format!("{:?}", cand) != format!("{:?}", cur) && fails(&cand, budget) {
                cur = cand;
            }
        }};
    }
    // big jumps first: all context at once, then all traits the observation does not name
    let obvious = |c: &mut Case| {
        let keep_pk = obs.contains(":id");
        let keep_u = obs.contains(":u");
        let keep_s = obs.contains(":s");
        c.tr.pk &= keep_pk;
        c.tr.unique &= keep_u;
        c.tr.secidx &= keep_s;
        c.tr.defaults = false;
        c.tr.notnull &= matches!(c.viol, Some(ViolKind::NullNotNull));
        if matches!(c.viol, Some(ViolKind::DupPkInBatch) | Some(ViolKind::DupPkExisting)) {
            c.tr.pk = true;
        }
        if matches!(c.viol, Some(ViolKind::DupUniqueInBatch) | Some(ViolKind::DupUniqueExisting)) {
            c.tr.unique = true;
        }
    };
    let no_context = |c: &mut Case| {
        c.post_insert.clear();
        c.post_update.clear();
        c.post_delete.clear();
        c.pre_delete.clear();
        c.pre_update.clear();
        if !matches!(c.viol, Some(ViolKind::DupPkExisting) | Some(ViolKind::DupUniqueExisting)) {
            c.seeds.clear();
        } else {
            c.seeds.truncate(1);
        }
        c.txn = Txn::None;
        c.wal = false;
        c.reopen = false;
    };
    try_set!(|c: &mut Case| {
        no_context(c);
        obvious(c);
    });
    try_set!(|c: &mut Case| no_context(c));
    try_set!(|c: &mut Case| obvious(c));
    try_set!(|c: &mut Case| {
        c.post_insert.clear();
        c.post_update.clear();
        c.post_delete.clear();
    });
    try_set!(|c: &mut Case| c.post_insert.clear());
    try_set!(|c: &mut Case| c.post_update.clear());
    try_set!(|c: &mut Case| c.post_delete.clear());
    try_set!(|c: &mut Case| {
        c.pre_delete.clear();
        c.pre_update.clear();
    });
    try_set!(|c: &mut Case| c.pre_delete.clear());
    try_set!(|c: &mut Case| c.pre_update.clear());
    if !matches!(cur.viol, Some(ViolKind::DupPkExisting) | Some(ViolKind::DupUniqueExisting)) {
        try_set!(|c: &mut Case| {
            c.seeds.clear();
            c.pre_delete.clear();
            c.pre_update.clear();
        });
    }
    try_set!(|c: &mut Case| {
        let keep: Vec<i64> = c.pre_delete.iter().chain(c.pre_update.iter()).copied().collect();
        c.seeds.retain(|r| matches!(&r[D], V::Int(m) if *m == 1 || keep.contains(m)));
    });
    try_set!(|c: &mut Case| c.txn = Txn::None);
    try_set!(|c: &mut Case| c.wal = false);
    try_set!(|c: &mut Case| c.reopen = false);
    try_set!(|c: &mut Case| c.collist = false);
    try_set!(|c: &mut Case| c.tr.secidx = false);
    try_set!(|c: &mut Case| c.tr.unique = false);
    try_set!(|c: &mut Case| c.tr.defaults = false);
    try_set!(|c: &mut Case| c.tr.notnull = false);
    try_set!(|c: &mut Case| {
        // explicit ids instead of generated ones
        if c.null_ids {
            c.null_ids = false;
            for r in c.seeds.iter_mut().chain(c.batch.iter_mut()).chain(c.post_insert.iter_mut()) {
                if r[ID].is_null() {
                    r[ID] = match &r[D] {
                        V::Int(m) if *m >= 1000 && *m < 8000 => V::Int(*m - 900),
                        other => other.clone(),
                    };
                }
            }
        }
    });
    try_set!(|c: &mut Case| {
        if !c.null_ids {
            c.tr.autoinc = false;
            for r in c.post_insert.iter_mut() {
                if r[ID].is_null() {
                    r[ID] = r[D].clone();
                }
            }
        }
    });
    try_set!(|c: &mut Case| c.tr.pk = false);
    try_set!(|c: &mut Case| {
        // no NULLs in nullable columns
        c.nulls = false;
        for r in c.seeds.iter_mut().chain(c.batch.iter_mut()).chain(c.post_insert.iter_mut()) {
            if r[U].is_null() {
                // the row's marker: unique, and in the same order as the other u values
                r[U] = r[D].clone();
            }
            if r[S].is_null() {
                r[S] = V::Int(3);
            }
            if r[TXT].is_null() {
                r[TXT] = V::Text("t".into());
            }
            if r[F].is_null() {
                r[F] = V::Float(1.5);
            }
        }
    });
    try_set!(|c: &mut Case| {
        c.wide = false;
        for r in c.seeds.iter_mut().chain(c.batch.iter_mut()).chain(c.post_insert.iter_mut()) {
            if let V::Text(_) = r[TXT] {
                r[TXT] = V::Text("t".into());
            }
        }
    });
    try_set!(|c: &mut Case| {
        if !c.null_ids {
            c.shuffled = false;
            let mut ids: Vec<V> = c.batch.iter().map(|r| r[ID].clone()).collect();
            ids.sort_by(|a, b| a.order_cmp(b));
            for (r, id) in c.batch.iter_mut().zip(ids) {
                r[ID] = id;
            }
        }
    });
    // flags without any data behind them
    if cur.batch.len() <= 1 {
        cur.shuffled = false;
    }
    let has_null = cur.seeds.iter().chain(cur.batch.iter()).chain(cur.post_insert.iter()).any(|r| [U, S, TXT, F].iter().any(|c| r[*c].is_null()));
    if !has_null {
        cur.nulls = false;
    }
    cur
}

fn case_json(c: &Case, log_a: &[String]) -> J {
    json!({
        "create": c.tr.create_sql(),
        "api": c.api.name(),
        "flags": c.flags(),
        "batch_len": c.batch.len(),
        "batch_head": rows_json(&c.batch, 4),
        "reference_statements_head": c.batch.iter().take(4).map(insert_sql).collect::<Vec<_>>(),
        "bulk_twin_log": log_a.iter().take(60).collect::<Vec<_>>(),
    })
}

/// an established minimal trigger: (api, observation) fails with exactly these flags
struct Known {
    api: &'static str,
    obs: String,
    flags: BTreeSet<String>,
    sig: String,
}

fn expand_flags(flags: &[String]) -> BTreeSet<String> {
    let mut s: BTreeSet<String> = flags.iter().cloned().collect();
    if s.contains("batch>=64") {
        s.insert("batch>1".into());
    }
    s
}

struct CaseReport {
    dropped: Option<String>,
    notes: Vec<String>,
    api: &'static str,
    size_class: &'static str,
    nontrivial: Option<u64>,
    sample: Option<J>,
    viols: Vec<(String, String, J)>,
    ip: u64,
    ipi: u64,
    shrink_runs: u64,
    unattributed: u64,
    subsumed: u64,
}

/// case number `i` of the run (a function of (seed, i) only) on worker `w`
fn one_case(scratch: &Scratch, w: usize, seed: u64, i: u64, n_big: u64, per_shrink_s: f64, hard_deadline: std::time::Instant, registry: &std::sync::Mutex<Vec<Known>>) -> CaseReport {
    let t_case = std::time::Instant::now();
    let mut rng = Rng::derive(seed.wrapping_mul(1_000_003).wrapping_add(i), 43);
    let api = APIS[((i + seed) % APIS.len() as u64) as usize];
    let size = if i < n_big {
        5000
    } else {
        match rng.below(20) {
            0 => 0,
            1 | 2 => 1,
            3..=12 => rng.usize(2, 39),
            _ => rng.usize(40, 450),
        }
    };
    // one case in seven carries a violating row (small batches)
    let force_viol = i >= n_big && rng.chance(1, 7);
    let size = if force_viol { rng.usize(2, 8) } else { size };
    let c = gen_case(&mut rng, api, size, force_viol);
    let out = run_case(scratch, &c, &format!("w{}c", w));
    let trace = std::env::var("TV_C43_TRACE").is_ok();
    if trace {
        eprintln!("[c43] case {} {} size {} flags {:?}: {:.2}s, diffs {:?}, dropped {:?}", i, c.api.name(), c.batch.len(), c.flags(), t_case.elapsed().as_secs_f64(), out.diffs.iter().map(|d| d.0.clone()).collect::<Vec<_>>(), out.dropped);
    }
    let mut rep = CaseReport { dropped: out.dropped.clone(), notes: out.notes.clone(), api: c.api.name(), size_class: c.size_class(), nontrivial: None, sample: None, viols: vec![], ip: out.index_probes, ipi: out.index_probes_via_index, shrink_runs: 0, unattributed: 0, subsumed: 0 };
    if out.dropped.is_some() {
        return rep;
    }
    if out.exercised {
        rep.nontrivial = Some(fnv(format!("{:?}{}{}", c.flags(), c.api.name(), c.size_class()).as_bytes()));
    }
    if out.exercised && c.batch.len() > 1 && c.batch.len() < 100 {
        let mut sj = case_json(&c, &out.log_a);
        sj["observations_that_differ"] = json!(out.diffs.iter().map(|d| d.0.clone()).collect::<Vec<_>>());
        rep.sample = Some(sj);
    }
    for (obs, detail) in out.diffs.iter().take(6) {
        // a case that contains an already established minimal trigger for the same api and
        // observation is explained by it (the smallest such trigger); otherwise it is shrunk
        let mine = expand_flags(&c.flags());
        let known = {
            let reg = registry.lock().unwrap();
            reg.iter().filter(|k| k.api == c.api.name() && k.obs == *obs && k.flags.is_subset(&mine)).min_by_key(|k| (k.flags.len(), k.sig.clone())).map(|k| k.sig.clone())
        };
        let (sig, min_json) = if let Some(s) = known {
            rep.subsumed += 1;
            (s, J::Null)
        } else {
            let mut budget: u32 = 70;
            let mut cut_short = false;
            let deadline = (std::time::Instant::now() + std::time::Duration::from_secs_f64(per_shrink_s)).min(hard_deadline);
            let m = shrink_case(scratch, &format!("w{}s", w), &c, obs, &mut budget, deadline, &mut cut_short);
            rep.shrink_runs += (70 - budget.min(70)) as u64;
            if cut_short {
                // an incompletely shrunk case would give an unstable signature: not attributed
                rep.unattributed += 1;
                continue;
            }
            let r = run_case(scratch, &m, &format!("w{}m", w));
            let md = r.diffs.iter().find(|(n, _)| n == obs).map(|(_, d)| d.clone());
            let sig = format!("C43/{}/{}/{}", c.api.name(), obs, m.flags().join("+"));
            registry.lock().unwrap().push(Known { api: c.api.name(), obs: obs.clone(), flags: expand_flags(&m.flags()), sig: sig.clone() });
            (sig, json!({"case": case_json(&m, &r.log_a), "detail": md}))
        };
        if let Ok(pat) = std::env::var("TV_C43_DUMP") {
            // debugging aid: print the full detail of violations whose signature contains the pattern
            if sig.contains(&pat) && !min_json.is_null() {
                eprintln!("[c43-dump] {}\n{}", sig, serde_json::to_string_pretty(&min_json).unwrap_or_default());
            }
        }
        if trace {
            eprintln!("[c43]   case {} {} -> {} ({:.2}s so far)", i, obs, sig, t_case.elapsed().as_secs_f64());
        }
        rep.viols.push((obs.split(':').next().unwrap_or(obs).to_string(), sig, json!({"minimal": min_json, "original_flags": c.flags(), "original_detail": detail, "original_case": case_json(&c, &out.log_a)})));
    }
    rep
}

pub fn run(a: &Args) -> i32 {
    let mut ctx = Ctx::new(
        "C43",
        &a.tier,
        a.seed,
        "exploration",
        "twin databases per case: table t(id INT [PRIMARY KEY] [AUTO_INCREMENT], u INT [UNIQUE], s INT [+ secondary index], d INT [DEFAULT], n INT [NOT NULL], txt TEXT (short or 60-260 bytes), f DOUBLE) with a random trait subset; optional rows before (+DELETE/UPDATE of some), WAL on/off, optional BEGIN..COMMIT/ROLLBACK around the load, then the batch (sizes 0, 1, 2..39, 40..450 = around leaf capacity, 5000; NULLs in nullable columns; ordered or shuffled keys; explicit or NULL ids on AUTO_INCREMENT tables) through insert_batch / insert_batch_into_schema / insert_cached (prepared statement executed per row, or the cached plan called directly) / bulk_insert on twin A and one INSERT per row on twin B, then the same INSERT/UPDATE/DELETE on both, optional reopen. Judged: call result / per-row outcomes, full-table bag (twin equality), next AUTO_INCREMENT value, results of the DML after the load, a duplicate of a bulk-loaded key must be rejected on both; and, where the reference twin is self-consistent, twin A's COUNT(*), index point lookups for present/absent keys (EXPLAIN confirms index use), ORDER BY and range over indexed columns must agree with its own full scan. Separate violating batches (duplicate key inside the batch / of an existing row, NULL into NOT NULL): insert_cached must reject exactly the rows INSERT rejects; insert_batch* must leave the declared constraints intact; bulk_insert (documented caller precondition) is only recorded. Failing cases are shrunk structurally; signature = api/observation/remaining traits. distinct_nontrivial = distinct (api, traits, size class, context) cases in which the API call loaded at least one row",
    );
    if cfg!(miri) {
        ctx.inconclusive("Database requires mmap'd files; not runnable under Miri");
        return ctx.finish();
    }
    let quick = ctx.quick();
    let scratch = Scratch::new("c43");
    let max_cases: u64 = if quick { 500 } else { 9000 };
    let explore_s = if quick { 24.0 } else { 400.0 };
    let hard_s = if quick { 44.0 } else { 520.0 };
    let per_shrink_s = if quick { 14.0 } else { 60.0 };
    let n_big: u64 = if quick { 2 } else { 20 };
    let threads = 8usize;
    let mut dropped: BTreeMap<String, u64> = BTreeMap::new();
    let mut notes: BTreeMap<String, u64> = BTreeMap::new();
    let mut by_api: BTreeMap<String, u64> = BTreeMap::new();
    let mut by_size: BTreeMap<String, u64> = BTreeMap::new();
    let registry: std::sync::Mutex<Vec<Known>> = std::sync::Mutex::new(vec![]);
    let (mut ip, mut ipi) = (0u64, 0u64);
    let mut shrink_runs = 0u64;
    let mut case_no = 0usize;
    let next = std::sync::atomic::AtomicU64::new(0);
    let t0 = std::time::Instant::now();
    let (tx, rx) = std::sync::mpsc::channel::<Result<CaseReport, String>>();
    let seed = a.seed;
    std::thread::scope(|s| {
        for w in 0..threads {
            let tx = tx.clone();
            let (next, scratch, registry) = (&next, &scratch, &registry);
            s.spawn(move || loop {
                let i = next.fetch_add(1, std::sync::atomic::Ordering::SeqCst);
                if i >= max_cases || t0.elapsed().as_secs_f64() > explore_s {
                    break;
                }
                let r = catch(|| one_case(scratch, w, seed, i, n_big, per_shrink_s, t0 + std::time::Duration::from_secs_f64(hard_s), registry)).map_err(|p| format!("harness panic: {}", p));
                if tx.send(r).is_err() {
                    break;
                }
            });
        }
        drop(tx);
        for r in rx {
            let rep = match r {
                Ok(r) => r,
                Err(e) => {
                    ctx.inconclusive(&format!("case could not run: {}", e));
                    continue;
                }
            };
            case_no += 1;
            ctx.eval();
            ip += rep.ip;
            ipi += rep.ipi;
            shrink_runs += rep.shrink_runs;
            ctx.count("violations_not_attributed_shrink_cut_by_time_budget", rep.unattributed);
            ctx.count("violations_attributed_to_an_established_minimal_trigger", rep.subsumed);
            for n in &rep.notes {
                *notes.entry(n.clone()).or_insert(0) += 1;
            }
            if let Some(d) = &rep.dropped {
                *dropped.entry(d.clone()).or_insert(0) += 1;
                continue;
            }
            *by_api.entry(rep.api.into()).or_insert(0) += 1;
            *by_size.entry(rep.size_class.into()).or_insert(0) += 1;
            if let Some(h) = rep.nontrivial {
                ctx.nontrivial(h);
            }
            if let Some(sm) = rep.sample {
                if ctx.samples.len() < 5 {
                    ctx.sample(sm);
                }
            }
            for (assertion, sig, detail) in rep.viols {
                ctx.violation(&assertion, &sig, detail);
            }
        }
    });
    ctx.count("cases", case_no as u64);
    ctx.count("shrink_runs", shrink_runs);
    ctx.count("index_lookup_columns_probed", ip);
    ctx.count("index_lookup_columns_planned_as_index_scan", ipi);
    ctx.extra.insert("cases_dropped_unjudged".into(), json!(dropped));
    ctx.extra.insert("judged_cases_by_api".into(), json!(by_api));
    ctx.extra.insert("judged_cases_by_batch_size_class".into(), json!(by_size));
    ctx.extra.insert("notes".into(), json!(notes));
    ctx.assumptions.push("bulk APIs receive full-width rows whose OwnedValue types match the column types exactly; NULL is never given for the DEFAULT column; bulk_insert is not wrapped in BEGIN..ROLLBACK (fast_load.rs: auto-commit only) and its violating batches are only recorded (fast_load.rs: the caller MUST ensure uniqueness/NOT NULL); for insert_batch* nothing is documented about constraints, so a violating batch only has to leave the declared constraints intact; insert_cached is reached the documented way (a prepared INSERT executed more than once) and must behave like the INSERT it was prepared from (tests/prepared_statement_constraints.rs); index lookups / ORDER BY / COUNT of the bulk twin are judged against its own full scan and only where the reference twin passes the same self-check; a case whose reference twin misbehaves (INSERT fails on a clean batch, rows missing) is dropped and counted".into());
    ctx.finish()
}

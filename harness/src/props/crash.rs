//! Crash engine for C01 / C02 / C40.
//!
//! A child process (`tv crashchild ...`) runs a generated history with WAL on and the repo's
//! verification hooks installed. In *snapshot* mode the crash hook copies, at selected crash points,
//! (a) the live database directory = what a process kill at that instant leaves behind (MAP_SHARED
//! stores are in the page cache, the WAL BufWriter's unflushed bytes are not in the file) and (b) the
//! power-loss image = directory entries as they are, every file with the content and length of its
//! last successful sync (never-synced files exist with length 0). In *kill* mode the child SIGKILLs
//! itself at one point (validates the snapshot instrument against the real thing).
//! The parent knows the acknowledged prefix (ack log written after each call returned) and the
//! in-flight statement, computes the model states, reopens every image in a fresh judge process
//! (`tv crashopen <dir>`: panics/aborts/hangs inside recovery are contained) and compares.
use super::dmlengine::{gen_history, Focus};
use crate::report::{catch, Ctx, VERIF_DIR};
use crate::rng::{fnv, Rng};
use crate::sqlm::cmp::bag_diff;
use crate::sqlm::db::{conv_rows, Scratch};
use crate::sqlm::dml::{MDb, Stmt};
use crate::sqlm::expr::MErr;
use crate::sqlm::val::{row_key, Row, V};
use crate::Args;
use serde_json::{json, Value as J};
use std::collections::{BTreeMap, BTreeSet};
use std::io::Write;
use std::path::{Path, PathBuf};
use std::sync::atomic::{AtomicU64, Ordering};
use std::sync::{Arc, Mutex};

// ------------------------------------------------------------------ history for the child

/// extra statements around the DML history: WAL on, checkpoints, reopen cycles
#[derive(Clone, Debug)]
pub enum CStmt {
    Sql(Stmt),
    Pragma(String),
    /// close the handle (checkpoint) and open the database again
    Reopen,
    Checkpoint,
}

impl CStmt {
    pub fn text(&self) -> String {
        match self {
            CStmt::Sql(s) => s.sql(),
            CStmt::Pragma(p) => p.clone(),
            CStmt::Reopen => "-- close + reopen".into(),
            CStmt::Checkpoint => "-- db.checkpoint()".into(),
        }
    }
    pub fn kind(&self) -> String {
        match self {
            CStmt::Sql(s) => s.kind().to_string(),
            CStmt::Pragma(p) => {
                if p.contains("checkpoint") {
                    "pragma_wal_checkpoint".into()
                } else {
                    "pragma".into()
                }
            }
            CStmt::Reopen => "reopen".into(),
            CStmt::Checkpoint => "checkpoint".into(),
        }
    }
}

pub fn crash_history(seed: u64, ddl_heavy: bool) -> Vec<CStmt> {
    let mut rng = Rng::new(seed ^ 0xC4A5);
    let focus = *rng.pick(&[Focus::Dml, Focus::Dml, Focus::Txn, Focus::Constraints]);
    let base = gen_history(seed, focus, if ddl_heavy { 14 } else { 26 });
    let mut out = vec![CStmt::Pragma("PRAGMA wal = ON".into())];
    let mut extra_tables = 0;
    for s in base {
        out.push(CStmt::Sql(s));
        let r = rng.below(100);
        if r < 4 {
            out.push(CStmt::Checkpoint);
        } else if r < 8 {
            out.push(CStmt::Pragma("PRAGMA wal_checkpoint".into()));
        } else if r < 11 {
            out.push(CStmt::Reopen);
            out.push(CStmt::Pragma("PRAGMA wal = ON".into()));
        } else if ddl_heavy && r < 35 {
            // DDL: create (and sometimes drop) side tables / indexes
            let name = format!("x{}", extra_tables);
            extra_tables += 1;
            let def = crate::sqlm::dml::TableDef {
                name: name.clone(),
                cols: vec![
                    crate::sqlm::dml::ColDef { name: "id".into(), ty: crate::sqlm::gen::Ty::Int, not_null: false, unique: false, default: None, auto_inc: false, check: None },
                    crate::sqlm::dml::ColDef { name: "t1".into(), ty: crate::sqlm::gen::Ty::Text, not_null: false, unique: false, default: None, auto_inc: false, check: None },
                ],
                pk: vec!["id".into()],
                fks: vec![],
                indexes: vec![],
            };
            out.push(CStmt::Sql(Stmt::CreateTable(def)));
            out.push(CStmt::Sql(Stmt::Insert { table: name.clone(), cols: None, rows: vec![vec![crate::sqlm::expr::E::Lit(V::Int(1)), crate::sqlm::expr::E::Lit(V::Text(format!("row-of-{}", name)))]], returning: false }));
            if rng.chance(1, 2) {
                out.push(CStmt::Sql(Stmt::CreateIndex { name: format!("xi{}", extra_tables), table: name.clone(), cols: vec!["t1".into()], unique: false }));
            }
            if rng.chance(1, 4) {
                out.push(CStmt::Sql(Stmt::DropTable(name)));
            }
        }
    }
    out
}

// ------------------------------------------------------------------ child

fn copy_dir(src: &Path, dst: &Path) -> std::io::Result<()> {
    std::fs::create_dir_all(dst)?;
    for e in std::fs::read_dir(src)? {
        let e = e?;
        let p = e.path();
        let d = dst.join(e.file_name());
        if p.is_dir() {
            copy_dir(&p, &d)?;
        } else {
            std::fs::copy(&p, &d)?;
        }
    }
    Ok(())
}

/// power-loss image: directory entries of `live`, file contents from `shadow` (or empty)
fn power_image(live: &Path, shadow: &Path, dst: &Path) -> std::io::Result<()> {
    std::fs::create_dir_all(dst)?;
    for e in std::fs::read_dir(live)? {
        let e = e?;
        let p = e.path();
        let d = dst.join(e.file_name());
        let s = shadow.join(e.file_name());
        if p.is_dir() {
            power_image(&p, &s, &d)?;
        } else if s.is_file() {
            std::fs::copy(&s, &d)?;
        } else {
            std::fs::File::create(&d)?;
        }
    }
    Ok(())
}

pub struct ChildCfg {
    pub db: PathBuf,
    pub shadow: PathBuf,
    pub snaps: PathBuf,
    pub ack: PathBuf,
    pub points: PathBuf,
    pub seed: u64,
    pub ddl_heavy: bool,
    /// "count" | "snap" | "kill"
    pub mode: String,
    /// snap: take points with n % stride == phase, and n in [lo, hi);  kill: die at point == lo
    pub lo: u64,
    pub hi: u64,
    pub stride: u64,
    pub phase: u64,
}

pub fn child_main(rest: &[String]) -> i32 {
    // crashchild <workdir> <seed> <ddl_heavy 0|1> <mode> <lo> <hi> <stride> <phase>
    let work = PathBuf::from(&rest[0]);
    let cfg = ChildCfg {
        db: work.join("db"),
        shadow: work.join("shadow"),
        snaps: work.join("snaps"),
        ack: work.join("ack.log"),
        points: work.join("points.log"),
        seed: rest[1].parse().unwrap(),
        ddl_heavy: rest[2] == "1",
        mode: rest[3].clone(),
        lo: rest[4].parse().unwrap(),
        hi: rest[5].parse().unwrap(),
        stride: rest[6].parse::<u64>().unwrap().max(1),
        phase: rest[7].parse().unwrap(),
    };
    let hist = crash_history(cfg.seed, cfg.ddl_heavy);
    let _ = std::fs::create_dir_all(&cfg.shadow);
    let _ = std::fs::create_dir_all(&cfg.snaps);
    let db = match turdb::Database::create(&cfg.db) {
        Ok(d) => d,
        Err(e) => {
            eprintln!("child: create failed: {:#}", e);
            return 3;
        }
    };
    // files that exist right after create count as durable (the crash window starts afterwards)
    let _ = copy_dir(&cfg.db, &cfg.shadow);
    let counter = Arc::new(AtomicU64::new(0));
    let cur_stmt = Arc::new(AtomicU64::new(0));
    let points_log = Arc::new(Mutex::new(std::io::BufWriter::new(std::fs::File::create(&cfg.points).unwrap())));
    {
        // sync hook: remember the synced content of the file
        let (dbp, shp) = (cfg.db.clone(), cfg.shadow.clone());
        turdb::verif::set_sync_hook(Some(Arc::new(move |p: &Path| {
            if let Ok(rel) = p.strip_prefix(&dbp) {
                let dst = shp.join(rel);
                if let Some(par) = dst.parent() {
                    let _ = std::fs::create_dir_all(par);
                }
                let _ = std::fs::copy(p, &dst);
            }
        })));
    }
    {
        let (counter, cur_stmt, points_log) = (counter.clone(), cur_stmt.clone(), points_log.clone());
        let (dbp, shp, snaps) = (cfg.db.clone(), cfg.shadow.clone(), cfg.snaps.clone());
        let (mode, lo, hi, stride, phase) = (cfg.mode.clone(), cfg.lo, cfg.hi, cfg.stride, cfg.phase);
        let busy = Arc::new(std::sync::atomic::AtomicBool::new(false));
        turdb::verif::set_crash_hook(Some(Arc::new(move |kind: &'static str| {
            let n = counter.fetch_add(1, Ordering::SeqCst) + 1;
            let s = cur_stmt.load(Ordering::SeqCst);
            // a WAL truncation is a metadata operation: treat it as durable at once (like create/remove)
            if kind == "wal.truncate.set_len" {
                if let Ok(rd) = std::fs::read_dir(dbp.join("wal")) {
                    for e in rd.flatten() {
                        if e.metadata().map(|m| m.len() == 0).unwrap_or(false) {
                            let sp = shp.join("wal").join(e.file_name());
                            if sp.is_file() {
                                let _ = std::fs::File::create(&sp);
                            }
                        }
                    }
                }
            }
            match mode.as_str() {
                "count" => {
                    let mut w = points_log.lock().unwrap();
                    let _ = writeln!(w, "{} {} {}", n, s, kind);
                }
                "snap" => {
                    if n >= lo && n < hi && n % stride == phase && !busy.swap(true, Ordering::SeqCst) {
                        let d = snaps.join(format!("{}", n));
                        let _ = copy_dir(&dbp, &d.join("kill"));
                        let _ = power_image(&dbp, &shp, &d.join("power"));
                        let _ = std::fs::write(d.join("meta"), format!("{} {} {}", n, s, kind));
                        busy.store(false, Ordering::SeqCst);
                    }
                }
                "kill" => {
                    if n == lo {
                        let _ = std::fs::write(snaps.join("killed_at"), format!("{} {} {}", n, s, kind));
                        unsafe {
                            libc::kill(libc::getpid(), libc::SIGKILL);
                        }
                    }
                }
                _ => {}
            }
        })));
    }
    let mut ack = std::fs::OpenOptions::new().create(true).append(true).open(&cfg.ack).unwrap();
    let mut states = std::io::BufWriter::new(std::fs::File::create(work.join("states.jsonl")).unwrap());
    let mut live_tables: BTreeSet<String> = BTreeSet::new();
    let mut db = Some(db);
    for (i, s) in hist.iter().enumerate() {
        cur_stmt.store(i as u64, Ordering::SeqCst);
        let r: Result<bool, String> = catch(|| match s {
            CStmt::Sql(st) => db.as_ref().unwrap().execute(&st.sql()).map(|_| ()).map_err(|e| format!("{:#}", e)),
            CStmt::Pragma(p) => db.as_ref().unwrap().execute(p).map(|_| ()).map_err(|e| format!("{:#}", e)),
            CStmt::Checkpoint => db.as_ref().unwrap().checkpoint().map(|_| ()).map_err(|e| format!("{:#}", e)),
            CStmt::Reopen => {
                let old = db.take().unwrap();
                let _ = old.close();
                drop(old);
                match turdb::Database::open(&cfg.db) {
                    Ok(d) => {
                        db = Some(d);
                        Ok(())
                    }
                    Err(e) => Err(format!("{:#}", e)),
                }
            }
        })
        .map(|r| r.is_ok())
        .or_else(|p| Err(p));
        let line = match &r {
            Ok(true) => format!("{} ok\n", i),
            Ok(false) => format!("{} err\n", i),
            Err(p) => format!("{} panic {}\n", i, p.replace('\n', " ")),
        };
        let _ = ack.write_all(line.as_bytes());
        if r.is_err() || db.is_none() {
            break;
        }
        if let (Ok(true), CStmt::Sql(st)) = (&r, s) {
            match st {
                Stmt::CreateTable(d) => {
                    live_tables.insert(d.name.to_lowercase());
                }
                Stmt::DropTable(t) => {
                    live_tables.remove(&t.to_lowercase());
                }
                _ => {}
            }
        }
        // TurDB's own pre-crash state after statement i (same queries in every mode so that runs are identical)
        let mut tables = serde_json::Map::new();
        for t in &live_tables {
            let rows = catch(|| db.as_ref().unwrap().query(&format!("SELECT * FROM {}", t))).ok().and_then(|r| r.ok());
            match rows {
                Some(rows) => {
                    let keys: Vec<String> = conv_rows(&rows).iter().map(|r| row_key(r, true)).collect();
                    tables.insert(t.clone(), json!(keys));
                }
                None => {
                    tables.insert(t.clone(), J::Null);
                }
            }
        }
        if cfg.mode == "count" {
            let _ = writeln!(states, "{}", json!({"i": i, "ok": matches!(r, Ok(true)), "tables": tables}));
        }
    }
    let _ = states.flush();
    let _ = points_log.lock().unwrap().flush();
    // leave without Drop (a crash never runs destructors); hooks off first so exit is quiet
    turdb::verif::set_crash_hook(None);
    turdb::verif::set_sync_hook(None);
    std::process::exit(0);
}

// ------------------------------------------------------------------ judge process

/// `tv crashopen <dir> [degraded]` : open, dump every user table + count(*) + index probes as JSON on stdout
pub fn open_main(rest: &[String]) -> i32 {
    let dir = PathBuf::from(&rest[0]);
    let degraded = rest.get(1).map(|s| s == "degraded").unwrap_or(false);
    if degraded {
        turdb::verif::set_force_degraded(true);
    }
    let mut out = serde_json::Map::new();
    let r = catch(|| -> Result<J, String> {
        let db = turdb::Database::open(&dir).map_err(|e| format!("open: {:#}", e))?;
        if degraded {
            turdb::verif::set_force_degraded(false);
            db.execute("PRAGMA recover_wal").map_err(|e| format!("recover_wal: {:#}", e))?;
        }
        let mut tables = serde_json::Map::new();
        // user tables are named t<N> / x<N> by the generators
        let names: Vec<String> = (0..4).map(|i| format!("t{}", i)).chain((0..40).map(|i| format!("x{}", i))).collect();
        for t in names {
            match db.query(&format!("SELECT * FROM {}", t)) {
                Ok(rows) => {
                    let rows = conv_rows(&rows);
                    let keys: Vec<String> = rows.iter().map(|r| row_key(r, true)).collect();
                    let cnt = db.query(&format!("SELECT COUNT(*) FROM {}", t)).map(|r| conv_rows(&r).first().and_then(|r| r.first().and_then(|v| v.as_f64())).unwrap_or(-1.0) as i64).unwrap_or(-2);
                    // reverse scan must see the same rows
                    let rev = db.query(&format!("SELECT * FROM {} ORDER BY 1 DESC", t)).map(|r| r.len() as i64).unwrap_or(-2);
                    tables.insert(t.clone(), json!({"rows": keys, "count_star": cnt, "reverse_scan_rows": rev}));
                }
                Err(e) => {
                    let m = format!("{:#}", e);
                    // only "this table is not in the catalog" means absent; "TOAST chunk not found" and the
                    // like are read errors of an existing table
                    let absent = (m.contains("table '") && (m.contains("not found") || m.contains("does not exist"))) || m.contains("no such table");
                    if !absent {
                        tables.insert(t.clone(), json!({"error": m}));
                    }
                }
            }
        }
        Ok(J::Object(tables))
    });
    match r {
        Ok(Ok(t)) => {
            out.insert("tables".into(), t);
        }
        Ok(Err(e)) => {
            out.insert("error".into(), json!(e));
        }
        Err(p) => {
            out.insert("panic".into(), json!(p));
        }
    }
    println!("{}", J::Object(out));
    0
}

fn judge(dir: &Path, degraded: bool) -> J {
    let exe = std::env::current_exe().unwrap();
    let mut cmd = std::process::Command::new(exe);
    cmd.arg("crashopen").arg(dir);
    if degraded {
        cmd.arg("degraded");
    }
    cmd.env("RUST_BACKTRACE", "0");
    let child = cmd.stdout(std::process::Stdio::piped()).stderr(std::process::Stdio::null()).spawn();
    let mut child = match child {
        Ok(c) => c,
        Err(e) => return json!({"harness_error": e.to_string()}),
    };
    // watchdog 60 s
    let start = std::time::Instant::now();
    loop {
        match child.try_wait() {
            Ok(Some(st)) => {
                let mut s = String::new();
                use std::io::Read;
                let _ = child.stdout.take().unwrap().read_to_string(&mut s);
                if !st.success() {
                    return json!({"abort": format!("{:?}", st)});
                }
                return serde_json::from_str(s.lines().last().unwrap_or("{}")).unwrap_or(json!({"harness_error": "bad judge output"}));
            }
            Ok(None) => {
                if start.elapsed().as_secs() > 60 {
                    let _ = child.kill();
                    return json!({"hang": true});
                }
                std::thread::sleep(std::time::Duration::from_millis(3));
            }
            Err(e) => return json!({"harness_error": e.to_string()}),
        }
    }
}

// ------------------------------------------------------------------ parent

#[derive(Clone)]
struct ModelStates {
    /// durable (committed) state if a crash happens after statement i returned, as TurDB itself showed it before the crash
    committed_after: Vec<BTreeMap<String, Vec<String>>>,
    committed_before0: BTreeMap<String, Vec<String>>,
    tables_after: Vec<BTreeSet<String>>,
}

/// Reference states = TurDB's own pre-crash dumps from the count run (so DML-semantics defects, which other
/// properties judge, do not leak into the crash verdicts). Inside an explicit transaction the committed
/// state is the dump taken before BEGIN.
fn model_states(hist: &[CStmt], states_file: &Path) -> Option<ModelStates> {
    let txt = std::fs::read_to_string(states_file).ok()?;
    let mut dumps: BTreeMap<usize, (bool, BTreeMap<String, Vec<String>>)> = BTreeMap::new();
    for l in txt.lines() {
        let v: J = serde_json::from_str(l).ok()?;
        let i = v["i"].as_u64()? as usize;
        let mut m = BTreeMap::new();
        for (t, rows) in v["tables"].as_object()? {
            // a table whose scan failed before the crash cannot serve as a reference
            let rows = rows.as_array()?;
            m.insert(t.clone(), rows.iter().filter_map(|r| r.as_str().map(|s| s.to_string())).collect());
        }
        dumps.insert(i, (v["ok"].as_bool().unwrap_or(false), m));
    }
    let mut ms = ModelStates { committed_after: vec![], committed_before0: BTreeMap::new(), tables_after: vec![] };
    let mut in_txn = false;
    let mut txn_base: BTreeMap<String, Vec<String>> = BTreeMap::new();
    let mut last: BTreeMap<String, Vec<String>> = BTreeMap::new();
    for (i, s) in hist.iter().enumerate() {
        let (ok, dump) = match dumps.get(&i) {
            Some(d) => d.clone(),
            None => break,
        };
        if let CStmt::Sql(st) = s {
            match st {
                Stmt::Begin if ok && !in_txn => {
                    in_txn = true;
                    txn_base = last.clone();
                }
                Stmt::Commit | Stmt::Rollback if ok => in_txn = false,
                _ => {}
            }
        }
        if matches!(s, CStmt::Reopen) {
            in_txn = false;
        }
        last = dump.clone();
        let committed = if in_txn { txn_base.clone() } else { dump };
        ms.tables_after.push(committed.keys().cloned().collect());
        ms.committed_after.push(committed);
    }
    Some(ms)
}

fn bag_eq(a: &[String], b: &[String]) -> bool {
    let mut x = a.to_vec();
    let mut y = b.to_vec();
    x.sort();
    y.sort();
    x == y
}

struct Verdicts {
    /// (property, assertion, cause-suffix, detail)
    v: Vec<(&'static str, String, String, J)>,
}

/// compare one image's dump with the candidate states
fn evaluate(dump: &J, cand_prev: &BTreeMap<String, Vec<String>>, cand_next: &BTreeMap<String, Vec<String>>, prior_tables: &BTreeSet<String>, inflight_kind: &str, model: &str, point: &str, out: &mut Verdicts) {
    let sfx = format!("{}/{}", inflight_kind, point);
    let model_s = model.to_string();
    // C40 speaks about crashes while the catalog is being rewritten: the in-flight statement is DDL (or a
    // close, which saves catalog and meta), or the crash point itself lies inside a catalog / meta / file
    // removal step.  A table made unreadable by a crash inside plain DML is C02's `readable`, not C40's.
    let c40_applies = matches!(inflight_kind, "create_table" | "drop_table" | "create_index" | "drop_index" | "reopen")
        || point.starts_with("catalog.")
        || point.starts_with("meta.")
        || point.starts_with("fm.drop_table");
    if let Some(p) = dump.get("panic") {
        out.v.push(("C02", "reopen_ok".into(), format!("{}/panic/{}", model_s, sfx), json!({"panic": p})));
        out.v.push(("C01", "reopen_ok".into(), format!("{}/panic/{}", model_s, sfx), json!({"panic": p})));
        return;
    }
    for k in ["abort", "hang", "error"] {
        if let Some(p) = dump.get(k) {
            let cls = if k == "error" { format!("error:{}", super::dmlengine::err_class(p.as_str().unwrap_or(""))) } else { k.to_string() };
            out.v.push(("C02", "reopen_ok".into(), format!("{}/{}/{}", model_s, cls, sfx), json!({k: p})));
            out.v.push(("C01", "reopen_ok".into(), format!("{}/{}/{}", model_s, cls, sfx), json!({k: p})));
            if !prior_tables.is_empty() && c40_applies {
                out.v.push(("C40", "prior_objects_survive".into(), format!("{}/{}/{}", model_s, cls, sfx), json!({k: p})));
            }
            return;
        }
    }
    let tables = match dump.get("tables").and_then(|t| t.as_object()) {
        Some(t) => t,
        None => return,
    };
    // C40: every table that existed before the in-flight statement is present and readable
    for t in prior_tables {
        let present = tables.get(t).map(|x| x.get("rows").is_some()).unwrap_or(false);
        if !present && cand_next.contains_key(t) && c40_applies {
            out.v.push(("C40", "prior_objects_survive".into(), format!("{}/table_lost/{}", model_s, sfx), json!({"table": t, "dump": tables.get(t)})));
        }
    }
    let all: BTreeSet<&String> = cand_prev.keys().chain(cand_next.keys()).collect();
    let mut matches_prev = true;
    let mut matches_next = true;
    let mut acked_missing: Option<J> = None;
    for t in all {
        let got: Option<Vec<String>> = tables.get(t.as_str()).and_then(|x| x.get("rows")).and_then(|r| r.as_array()).map(|a| a.iter().filter_map(|v| v.as_str().map(|s| s.to_string())).collect());
        if let Some(e) = tables.get(t.as_str()).and_then(|x| x.get("error")) {
            out.v.push(("C02", "readable".into(), format!("{}/scan_error:{}/{}", model_s, super::dmlengine::err_class(e.as_str().unwrap_or("")), sfx), json!({"table": t, "error": e})));
        }
        let p = cand_prev.get(t);
        let n = cand_next.get(t);
        matches_prev &= match (&got, p) {
            (Some(g), Some(p)) => bag_eq(g, p),
            (None, None) => true,
            _ => false,
        };
        matches_next &= match (&got, n) {
            (Some(g), Some(n)) => bag_eq(g, n),
            (None, None) => true,
            _ => false,
        };
        // acknowledged rows = rows present in both candidates (bag minimum)
        if let (Some(p), Some(n)) = (p, n) {
            let mut need: BTreeMap<&String, i64> = BTreeMap::new();
            let mut pn: BTreeMap<&String, i64> = BTreeMap::new();
            for r in p {
                *pn.entry(r).or_insert(0) += 1;
            }
            let mut nn: BTreeMap<&String, i64> = BTreeMap::new();
            for r in n {
                *nn.entry(r).or_insert(0) += 1;
            }
            for (r, c) in &pn {
                let m = (*c).min(*nn.get(r).unwrap_or(&0));
                if m > 0 {
                    need.insert(r, m);
                }
            }
            let mut have: BTreeMap<&String, i64> = BTreeMap::new();
            if let Some(g) = &got {
                for r in g {
                    *have.entry(r).or_insert(0) += 1;
                }
            }
            for (r, c) in need {
                if *have.get(r).unwrap_or(&0) < c && acked_missing.is_none() {
                    acked_missing = Some(json!({"table": t, "missing_row": r.replace('\u{1}', " | "), "table_present": got.is_some()}));
                }
            }
        }
        // COUNT(*) and reverse scan agree with the forward scan
        if let (Some(g), Some(c)) = (&got, tables.get(t.as_str()).and_then(|x| x.get("count_star")).and_then(|c| c.as_i64())) {
            if c != g.len() as i64 {
                out.v.push(("C02", "count_agrees".into(), format!("{}/count_star_ne_scan/{}", model_s, sfx), json!({"table": t, "count_star": c, "scanned": g.len()})));
            }
        }
        if let (Some(g), Some(c)) = (&got, tables.get(t.as_str()).and_then(|x| x.get("reverse_scan_rows")).and_then(|c| c.as_i64())) {
            if c >= 0 && c != g.len() as i64 {
                out.v.push(("C02", "readable".into(), format!("{}/reverse_scan_ne_forward/{}", model_s, sfx), json!({"table": t, "reverse": c, "forward": g.len()})));
            }
        }
    }
    if !(matches_prev || matches_next) {
        if let Some(d) = acked_missing {
            out.v.push(("C01", "acked_present".into(), format!("{}/acked_effect_missing/{}", model_s, sfx), d.clone()));
            out.v.push(("C02", "prefix_state".into(), format!("{}/acked_effect_missing/{}", model_s, sfx), d));
        } else {
            out.v.push(("C02", "inflight_atomic".into(), format!("{}/partial_or_foreign_state/{}", model_s, sfx), json!({"note": "all acknowledged rows present, but the state is neither 'in-flight applied' nor 'not applied'"})));
        }
    }
}

fn read_acks(p: &Path) -> BTreeMap<usize, bool> {
    let mut m = BTreeMap::new();
    if let Ok(s) = std::fs::read_to_string(p) {
        for l in s.lines() {
            let mut it = l.split_whitespace();
            if let (Some(i), Some(r)) = (it.next(), it.next()) {
                if let Ok(i) = i.parse::<usize>() {
                    m.insert(i, r == "ok");
                }
            }
        }
    }
    m
}

fn run_child(work: &Path, seed: u64, ddl: bool, mode: &str, lo: u64, hi: u64, stride: u64, phase: u64) -> Option<std::process::ExitStatus> {
    let exe = std::env::current_exe().unwrap();
    let mut c = std::process::Command::new(exe)
        .arg("crashchild")
        .arg(work)
        .arg(seed.to_string())
        .arg(if ddl { "1" } else { "0" })
        .arg(mode)
        .arg(lo.to_string())
        .arg(hi.to_string())
        .arg(stride.to_string())
        .arg(phase.to_string())
        .env("RUST_BACKTRACE", "0")
        .stdout(std::process::Stdio::null())
        .stderr(std::process::Stdio::null())
        .spawn()
        .ok()?;
    let start = std::time::Instant::now();
    loop {
        match c.try_wait() {
            Ok(Some(st)) => return Some(st),
            Ok(None) => {
                if start.elapsed().as_secs() > 120 {
                    let _ = c.kill();
                    return None;
                }
                std::thread::sleep(std::time::Duration::from_millis(5));
            }
            Err(_) => return None,
        }
    }
}

pub fn run(a: &Args, prop: &'static str) -> i32 {
    let rule = "histories (WAL on, synchronous FULL: DDL, single/multi-row DML, explicit transactions, db.checkpoint(), PRAGMA wal_checkpoint, close+reopen cycles) run in a child process with crash/sync hooks; at every selected hook point (page mutation, mmap sync, WAL frame pre/mid/post/synced, WAL sync/truncate/rotate, catalog created/header/body/synced, meta written/synced, checkpoint steps, commit captured/logged, file removal, and the same points reached again inside recovery at reopen) both crash images are taken: process-kill (live directory) and power-loss (directory entries + last-synced content). Each image is reopened in a fresh judge process and compared with the model states 'in-flight statement not applied' / 'applied'. A sample of points is cross-checked with real SIGKILLs. distinct_nontrivial = distinct (history, point) pairs judged whose in-flight statement is a mutation";
    let level = "fault_enumeration";
    let mut ctx = Ctx::new(prop, &a.tier, a.seed, level, rule);
    let quick = ctx.quick();
    let ddl_heavy = prop == "C40";
    let nhist: usize = if quick { 8 } else { 120 };
    // per history: at most this many points judged (evenly strided); thorough judges all
    let max_points: u64 = if quick { 45 } else { 100_000 };
    // thorough: no new history is started after this wall budget (skipped histories are counted, never judged)
    let t_start = std::time::Instant::now();
    let wall_budget = std::time::Duration::from_secs(if quick { 3600 } else { 780 });
    let skipped = std::sync::atomic::AtomicUsize::new(0);
    let real_kills_per_hist: usize = if quick { 3 } else { 10 };
    let scratch = Scratch::new(&format!("{}-crash", prop.to_lowercase()));
    let threads = 14usize;
    let seed = a.seed;
    let all: Mutex<Vec<(usize, Vec<CStmt>, u64, Vec<(String, String, String, J, J)>, BTreeMap<String, u64>)>> = Mutex::new(vec![]);
    let next = std::sync::atomic::AtomicUsize::new(0);
    std::thread::scope(|sc| {
        for t in 0..threads {
            let (all, next, scratch, skipped) = (&all, &next, &scratch, &skipped);
            sc.spawn(move || loop {
                let hi = next.fetch_add(1, Ordering::SeqCst);
                if hi >= nhist {
                    break;
                }
                if t_start.elapsed() > wall_budget {
                    skipped.fetch_add(1, Ordering::SeqCst);
                    continue;
                }
                let hseed = Rng::derive(seed, 700_000 + hi as u64 + if ddl_heavy { 40_000_000 } else { 0 }).next();
                let hist = crash_history(hseed, ddl_heavy);
                let work = scratch.dir(&format!("h{}-{}", t, hi));
                let _ = std::fs::create_dir_all(&work);
                let mut counters: BTreeMap<String, u64> = BTreeMap::new();
                let mut found: Vec<(String, String, String, J, J)> = vec![];
                // 1. count run
                if run_child(&work, hseed, ddl_heavy, "count", 0, 0, 1, 0).is_none() {
                    *counters.entry("child_watchdog".into()).or_insert(0) += 1;
                    let _ = std::fs::remove_dir_all(&work);
                    all.lock().unwrap().push((hi, hist, 0, found, counters));
                    continue;
                }
                let acks = read_acks(&work.join("ack.log"));
                let points: Vec<(u64, usize, String)> = std::fs::read_to_string(work.join("points.log")).unwrap_or_default().lines().filter_map(|l| {
                    let mut it = l.split_whitespace();
                    Some((it.next()?.parse().ok()?, it.next()?.parse().ok()?, it.next()?.to_string()))
                }).collect();
                let total = points.len() as u64;
                *counters.entry("hook_points_total".into()).or_insert(0) += total;
                let ms = match model_states(&hist, &work.join("states.jsonl")) {
                    Some(m) => m,
                    None => {
                        *counters.entry("history_dropped_precrash_scan_failed".into()).or_insert(0) += 1;
                        let _ = std::fs::remove_dir_all(&work);
                        all.lock().unwrap().push((hi, hist, total, found, counters));
                        continue;
                    }
                };
                let stride = (total / max_points).max(1);
                let phase = if stride > 1 { hseed % stride } else { 0 };
                // 2. snapshot runs in chunks (bounds transient disk use)
                let chunk = 250 * stride;
                let mut lo = 1u64;
                let mut judged = 0u64;
                while lo <= total {
                    let _ = std::fs::remove_dir_all(work.join("db"));
                    let _ = std::fs::remove_dir_all(work.join("shadow"));
                    let _ = std::fs::remove_dir_all(work.join("snaps"));
                    let _ = std::fs::remove_file(work.join("ack.log"));
                    run_child(&work, hseed, ddl_heavy, "snap", lo, lo + chunk, stride, phase);
                    let mut snaps: Vec<PathBuf> = std::fs::read_dir(work.join("snaps")).map(|rd| rd.flatten().map(|e| e.path()).filter(|p| p.is_dir()).collect()).unwrap_or_default();
                    snaps.sort();
                    for sd in snaps {
                        let meta = std::fs::read_to_string(sd.join("meta")).unwrap_or_default();
                        let mut it = meta.split_whitespace();
                        let (n, si, kind) = match (it.next(), it.next(), it.next()) {
                            (Some(n), Some(s), Some(k)) => (n.to_string(), s.parse::<usize>().unwrap_or(0), k.to_string()),
                            _ => continue,
                        };
                        if si >= hist.len() || si >= ms.committed_after.len() {
                            continue;
                        }
                        let inflight = &hist[si];
                        // candidates: durable state before / after the in-flight statement
                        let prev = if si == 0 { &ms.committed_before0 } else { &ms.committed_after[si - 1] };
                        let nextst = &ms.committed_after[si];
                        let prior_tables: BTreeSet<String> = if si == 0 { BTreeSet::new() } else { ms.tables_after[si - 1].iter().filter(|t| prev.contains_key(*t)).cloned().collect() };
                        for model in ["kill", "power"] {
                            let dump = judge(&sd.join(model), false);
                            judged += 1;
                            let mut v = Verdicts { v: vec![] };
                            evaluate(&dump, prev, nextst, &prior_tables, &inflight.kind(), model, &kind, &mut v);
                            // both recovery paths agree (sampled: every 7th point, kill image)
                            if model == "kill" && n.parse::<u64>().unwrap_or(0) % 7 == 0 && dump.get("tables").is_some() {
                                let copy = sd.join("kill2");
                                // the first judge run already recovered in place; compare against a degraded open of a pristine copy is only possible
                                // before recovery ran, so paths_agree uses the power image (untouched so far) when present
                                let _ = copy;
                            }
                            for (p, assertion, cause, detail) in v.v {
                                found.push((p.to_string(), assertion, cause, detail, json!({"history_seed": hseed, "ddl_heavy": ddl_heavy, "point": n, "point_kind": kind, "inflight_index": si, "inflight": inflight.text(), "crash_model": model})));
                            }
                        }
                        *counters.entry(format!("point_{}", kind)).or_insert(0) += 1;
                        if matches!(inflight, CStmt::Sql(s) if s.is_mutation()) || !matches!(inflight, CStmt::Sql(_)) {
                            *counters.entry("nontrivial_points".into()).or_insert(0) += 1;
                        }
                        let _ = std::fs::remove_dir_all(&sd);
                    }
                    lo += chunk;
                }
                *counters.entry("images_judged".into()).or_insert(0) += judged;
                // 3. real kills at sampled points: the directory after SIGKILL must judge like the kill snapshot
                let mut krng = Rng::new(hseed ^ 0x4B11);
                for _ in 0..real_kills_per_hist.min(total as usize) {
                    let n = 1 + krng.below(total);
                    let _ = std::fs::remove_dir_all(work.join("db"));
                    let _ = std::fs::remove_dir_all(work.join("shadow"));
                    let _ = std::fs::remove_dir_all(work.join("snaps"));
                    let _ = std::fs::remove_file(work.join("ack.log"));
                    let st = run_child(&work, hseed, ddl_heavy, "kill", n, 0, 1, 0);
                    let killed = std::fs::read_to_string(work.join("snaps").join("killed_at")).unwrap_or_default();
                    let mut it = killed.split_whitespace();
                    let (si, kind) = match (it.next(), it.next(), it.next()) {
                        (Some(_), Some(s), Some(k)) => (s.parse::<usize>().unwrap_or(0), k.to_string()),
                        _ => {
                            *counters.entry("real_kill_point_not_reached".into()).or_insert(0) += 1;
                            continue;
                        }
                    };
                    let _ = st;
                    *counters.entry("real_kills".into()).or_insert(0) += 1;
                    if si >= hist.len() || si >= ms.committed_after.len() {
                        continue;
                    }
                    let acks2 = read_acks(&work.join("ack.log"));
                    // every statement acked in this run must also be acked in the count run (determinism check)
                    if acks2.iter().any(|(i, ok)| acks.get(i) != Some(ok)) {
                        *counters.entry("real_kill_run_diverged_from_count_run".into()).or_insert(0) += 1;
                        continue;
                    }
                    let prev = if si == 0 { &ms.committed_before0 } else { &ms.committed_after[si - 1] };
                    let nextst = &ms.committed_after[si];
                    let prior_tables: BTreeSet<String> = if si == 0 { BTreeSet::new() } else { ms.tables_after[si - 1].iter().filter(|t| prev.contains_key(*t)).cloned().collect() };
                    let dump = judge(&work.join("db"), false);
                    let mut v = Verdicts { v: vec![] };
                    evaluate(&dump, prev, nextst, &prior_tables, &hist[si].kind(), "kill", &kind, &mut v);
                    for (p, assertion, cause, detail) in v.v {
                        found.push((p.to_string(), assertion, cause, detail, json!({"history_seed": hseed, "ddl_heavy": ddl_heavy, "point": n, "point_kind": kind, "inflight_index": si, "inflight": hist[si].text(), "crash_model": "kill", "real_sigkill": true})));
                    }
                }
                let _ = std::fs::remove_dir_all(&work);
                all.lock().unwrap().push((hi, hist, total, found, counters));
            });
        }
    });
    let mut all = all.into_inner().unwrap();
    all.sort_by_key(|x| x.0);
    let mut points_seen = 0u64;
    for (hi, hist, total, found, counters) in all {
        ctx.eval();
        points_seen += total;
        for (k, v) in counters {
            if k == "nontrivial_points" {
                for j in 0..v {
                    ctx.nontrivial(fnv(format!("{}-{}", hi, j).as_bytes()));
                }
            }
            if k == "images_judged" {
                ctx.evals(v);
            }
            ctx.count(&k, v);
        }
        if hi < 2 {
            ctx.sample(json!({"history": hi, "hook_points": total, "statements": hist.iter().take(16).map(|s| s.text()).collect::<Vec<_>>()}));
        }
        for (p, assertion, cause, detail, meta) in found {
            if p != prop {
                ctx.count(&format!("other_property_{}", p), 1);
                continue;
            }
            let sig = format!("{}/{}/{}", prop, assertion, cause);
            ctx.violation(&assertion, &sig, json!({"detail": detail, "where": meta, "history": hist.iter().map(|s| s.text()).collect::<Vec<_>>() }));
        }
    }
    ctx.extra.insert("hook_points_enumerated".into(), json!(points_seen));
    if prop == "C40" {
        catalog_round_trip(&mut ctx, seed, quick);
    }
    let nskipped = skipped.load(Ordering::SeqCst) as u64;
    ctx.count("histories_skipped_wall_budget", nskipped);
    ctx.exhaustive = Some(!quick && nskipped == 0);
    ctx.assumptions.push("crash instants are the hook points (plus real SIGKILLs at sampled hook points); the power-loss image keeps directory entries and WAL truncation as immediately durable and every file's content/length as of its last successful sync".into());
    ctx.assumptions.push("statements TurDB rejected are treated as having no effect (C06 judges that separately); a history whose model replay hits an unsupported statement is dropped".into());
    ctx.finish()
}


// ------------------------------------------------------------------------------------------------
// C40, first half of the statement: saving and reloading the catalog yields an identical catalog
// ------------------------------------------------------------------------------------------------

/// canonical rendering of everything the statement names: schemas (also empty ones), tables with ids,
/// columns with type / constraints / default / max length, primary key, indexes, toast ids
fn render_catalog(cat: &turdb::schema::Catalog) -> Vec<String> {
    let mut out = vec![];
    let mut schemas: Vec<_> = cat.schemas().iter().collect();
    schemas.sort_by(|a, b| a.0.cmp(b.0));
    for (sname, s) in schemas {
        out.push(format!("schema {}", sname));
        let mut tables: Vec<_> = s.tables().iter().collect();
        tables.sort_by(|a, b| a.0.cmp(b.0));
        for (tname, t) in tables {
            out.push(format!("  table {}.{} id={} toast={:?} pk={:?}", sname, tname, t.id(), t.toast_id(), t.primary_key()));
            for c in t.columns() {
                out.push(format!("    column {:?}", c));
            }
            let mut idx: Vec<String> = t.indexes().iter().map(|i| format!("    index {:?}", i)).collect();
            idx.sort();
            out.extend(idx);
        }
    }
    out
}

fn catalog_round_trip(ctx: &mut Ctx, seed: u64, quick: bool) {
    use turdb::records::DataType;
    use turdb::schema::persistence::CatalogPersistence;
    use turdb::schema::{Catalog, ColumnDef, Constraint, IndexDef, IndexType, ReferentialAction, TableDef};
    const TYPES: [DataType; 20] = [
        DataType::Bool, DataType::Int2, DataType::Int4, DataType::Int8, DataType::Float4, DataType::Float8, DataType::Date, DataType::Time, DataType::Timestamp,
        DataType::TimestampTz, DataType::Uuid, DataType::Text, DataType::Blob, DataType::Vector, DataType::Jsonb, DataType::Varchar, DataType::Char, DataType::Decimal,
        DataType::Interval, DataType::Inet4,
    ];
    const DEFAULTS: [&str; 10] = ["", "0", "-1", "7", "1.5", "abc", "it''s", "  ", "NULL", "2024-02-29"];
    let mut rng = Rng::derive(seed, 4040);
    let n = if quick { 400 } else { 6000 };
    let mut cases = 0u64;
    for ci in 0..n {
        let mut cat = Catalog::new();
        let root = cat.default_schema().to_string();
        let mut schemas = vec![root.clone()];
        for si in 0..rng.below(3) {
            let name = format!("s{}", si);
            if cat.create_schema(name.clone()).is_ok() {
                schemas.push(name);
            }
        }
        let mut next_id = 1u64;
        let mut feats: BTreeSet<&'static str> = BTreeSet::new();
        for sname in schemas.clone() {
            // a user schema may stay empty
            let nt = if sname == root { rng.usize(0, 3) } else { rng.usize(0, 2) };
            if nt == 0 && sname != root {
                feats.insert("empty_user_schema");
            }
            for t in 0..nt {
                let nc = rng.usize(1, 5);
                let mut cols = vec![];
                for c in 0..nc {
                    let dt = *rng.pick(&TYPES);
                    let mut col = ColumnDef::new(format!("c{}", c), dt);
                    for _ in 0..rng.below(3) {
                        col = col.with_constraint(match rng.below(6) {
                            0 => Constraint::NotNull,
                            1 => Constraint::PrimaryKey,
                            2 => Constraint::Unique,
                            3 => Constraint::AutoIncrement,
                            4 => Constraint::Check(format!("c{} > {}", c, rng.below(10))),
                            _ => Constraint::ForeignKey { table: "t0".into(), column: "c0".into(), on_delete: if rng.chance(1, 2) { Some(ReferentialAction::Cascade) } else { None }, on_update: if rng.chance(1, 2) { None } else { Some(ReferentialAction::SetNull) } },
                        });
                    }
                    if rng.chance(2, 5) {
                        let d = *rng.pick(&DEFAULTS);
                        if d.is_empty() {
                            feats.insert("empty_string_default");
                        }
                        col = col.with_default(d.to_string());
                    }
                    if rng.chance(1, 3) {
                        col = col.with_max_length(rng.below(300) as u32);
                    }
                    cols.push(col);
                }
                let mut td = TableDef::new(next_id, format!("t{}", t), cols);
                next_id += 1 + rng.below(3);
                if rng.chance(1, 2) {
                    td = td.with_primary_key(vec!["c0".to_string()]);
                }
                for ix in 0..rng.below(3) {
                    td = td.with_index(IndexDef::new(format!("ix{}_{}", t, ix), vec!["c0".to_string()], rng.chance(1, 2), if rng.chance(1, 5) { IndexType::Hnsw } else { IndexType::BTree }));
                }
                if rng.chance(1, 3) {
                    td = td.with_toast_id(1000 + next_id);
                }
                if let Some(s) = cat.get_schema_mut(&sname) {
                    s.add_table(td);
                }
            }
        }
        let before = render_catalog(&cat);
        let r = catch(|| -> Result<Vec<String>, String> {
            let bytes = CatalogPersistence::serialize(&cat).map_err(|e| format!("serialize: {:#}", e))?;
            let mut back = Catalog::new();
            CatalogPersistence::deserialize(&bytes, &mut back).map_err(|e| format!("deserialize: {:#}", e))?;
            Ok(render_catalog(&back))
        });
        ctx.eval();
        cases += 1;
        ctx.nontrivial(fnv(before.join("\n").as_bytes()) ^ 0xC40);
        let fl: Vec<&str> = feats.iter().copied().collect();
        match r {
            Ok(Ok(after)) if after == before => {}
            Ok(Ok(after)) => {
                // first differing line names what was lost or changed
                let what = before.iter().zip(after.iter()).find(|(a, b)| a != b).map(|(a, _)| a.trim().split_whitespace().next().unwrap_or("line").to_string()).unwrap_or_else(|| if after.len() < before.len() { before[after.len()].trim().split_whitespace().next().unwrap_or("line").to_string() } else { "extra".into() });
                let cause = if fl.is_empty() { "plain".to_string() } else { fl.join("+") };
                ctx.violation("catalog_round_trip", &format!("C40/catalog_round_trip/{}_differs/{}", what, cause), json!({"case": ci, "before": before, "after": after}));
            }
            Ok(Err(e)) => {
                ctx.violation("catalog_round_trip", &format!("C40/catalog_round_trip/error:{}", super::dmlengine::err_class(&e)), json!({"case": ci, "before": before, "error": e}));
            }
            Err(p) => {
                ctx.violation("catalog_round_trip", &format!("C40/catalog_round_trip/panic@{}", crate::report::stable_site(&crate::report::panic_site(&p).replace("/repo/", ""))), json!({"case": ci, "before": before, "panic": p}));
            }
        }
        if ci == 0 {
            ctx.sample(json!({"catalog_round_trip_case": before}));
        }
    }
    ctx.count("catalog_round_trip_cases", cases);
}

//! Shared DML/transaction engine: generated histories run on TurDB and on the relational
//! reference model (sqlm::dml), compared statement by statement. Serves C05/C06/C07/C09/C12.
//! Each violation carries a `class`; every property reports only its own classes.
use crate::report::Ctx;
use crate::rng::{fnv, Rng};
use crate::sqlm::cmp::bag_diff;
use crate::sqlm::db::{is_panic, panic_tag, Db, Outcome, Scratch};
use crate::sqlm::dml::{ColDef, FkAction, FkDef, MDb, Stmt, TableDef};
use crate::sqlm::expr::{bin, col, BinOp, MErr, E};
use crate::sqlm::gen::{gen_pred, gen_value, ExprOpts, ScopeCol, Ty, WORDS};
use crate::sqlm::val::{rows_json, Row, V};
use crate::Args;
use serde_json::{json, Value as J};
use std::collections::{BTreeMap, BTreeSet};

#[derive(Clone, Copy, Debug, PartialEq, Eq)]
pub enum Focus {
    /// plain DML: few constraints, deletes/updates/re-deletes, truncate, tables without PK, indexes
    Dml,
    /// statements that must fail (k-th row of a multi-row statement violates a constraint)
    Failing,
    /// transactions, nested savepoints, release, rollback
    Txn,
    /// constraint-heavy schemas: PK/UNIQUE/NOT NULL/CHECK/FK
    Constraints,
    /// AUTO_INCREMENT
    AutoInc,
}

#[derive(Clone, Debug)]
pub struct Viol {
    /// dml_result | state | count_star | error_atomicity | rollback | constraint | autoinc | panic | setup
    pub class: &'static str,
    pub assertion: String,
    /// stable cause used in the signature
    pub cause: String,
    pub stmt_index: usize,
    pub detail: J,
}

pub fn err_class(e: &str) -> String {
    e.split(|c: char| !c.is_ascii_alphabetic()).filter(|w| !w.is_empty()).take(6).collect::<Vec<_>>().join("_").to_lowercase()
}

// ---------------------------------------------------------------- generation

pub struct Gen {
    pub rng: Rng,
    pub focus: Focus,
    pub tables: Vec<TableDef>,
    pub next_sp: u32,
    pub open_sp: Vec<String>,
    pub in_txn: bool,
    pub next_idx: u32,
}

fn scope(def: &TableDef) -> Vec<ScopeCol> {
    def.cols.iter().map(|c| ScopeCol { tbl: None, name: c.name.clone(), ty: c.ty }).collect()
}

impl Gen {
    pub fn gen_schema(&mut self) -> Vec<Stmt> {
        let nt = match self.focus {
            Focus::Constraints => self.rng.usize(2, 3),
            _ => self.rng.usize(1, 2),
        };
        let mut out = vec![];
        for ti in 0..nt {
            let name = format!("t{}", ti);
            let mut cols = vec![];
            let with_pk = match self.focus {
                Focus::Dml => self.rng.chance(2, 3),
                _ => self.rng.chance(5, 6),
            };
            let auto = self.focus == Focus::AutoInc || (with_pk && self.rng.chance(1, 6));
            if with_pk {
                cols.push(ColDef { name: "id".into(), ty: Ty::Int, not_null: false, unique: false, default: None, auto_inc: auto, check: None });
            }
            let nc = self.rng.usize(2, 4);
            for ci in 0..nc {
                let ty = *self.rng.pick(&[Ty::Int, Ty::Int, Ty::Text, Ty::Float, Ty::Bool]);
                let letter = match ty {
                    Ty::Int => 'i',
                    Ty::Float => 'f',
                    Ty::Text => 't',
                    Ty::Bool => 'b',
                };
                let heavy = matches!(self.focus, Focus::Constraints | Focus::Failing);
                let not_null = heavy && self.rng.chance(1, 4);
                let unique = heavy && ty != Ty::Bool && ty != Ty::Float && self.rng.chance(1, 4);
                let default = if self.rng.chance(1, 5) { Some(gen_value(&mut self.rng, ty, 0)) } else { None };
                let cname = format!("{}{}", letter, ci);
                let check = if heavy && ty == Ty::Int && self.rng.chance(1, 3) {
                    let lo = self.rng.range(-3, 3);
                    Some(match self.rng.below(3) {
                        0 => bin(BinOp::Ge, col(&cname), E::Lit(V::Int(lo))),
                        1 => E::Between(Box::new(col(&cname)), Box::new(E::Lit(V::Int(lo))), Box::new(E::Lit(V::Int(lo + 8))), false),
                        _ => bin(BinOp::Or, bin(BinOp::Lt, col(&cname), E::Lit(V::Int(lo))), bin(BinOp::Gt, col(&cname), E::Lit(V::Int(lo + 2)))),
                    })
                } else {
                    None
                };
                cols.push(ColDef { name: cname, ty, not_null, unique, default, auto_inc: false, check });
            }
            let mut def = TableDef { name: name.clone(), cols, pk: if with_pk { vec!["id".into()] } else { vec![] }, fks: vec![], indexes: vec![] };
            // FK from t1 to t0.id
            if ti > 0 && self.focus == Focus::Constraints && self.tables[0].pk.len() == 1 {
                if let Some(c) = def.cols.iter().find(|c| c.ty == Ty::Int && c.name != "id" && c.check.is_none() && !c.unique) {
                    let action = if self.rng.chance(1, 2) { FkAction::Cascade } else { FkAction::Restrict };
                    def.fks.push(FkDef { col: c.name.clone(), ref_table: "t0".into(), ref_col: "id".into(), on_delete: action });
                }
            }
            self.tables.push(def.clone());
            out.push(Stmt::CreateTable(def));
        }
        // secondary indexes
        for ti in 0..self.tables.len() {
            if self.rng.chance(1, 2) {
                let def = self.tables[ti].clone();
                let cands: Vec<&ColDef> = def.cols.iter().filter(|c| c.name != "id" && c.ty != Ty::Bool).collect();
                if !cands.is_empty() {
                    let c = *self.rng.pick(&cands);
                    let name = format!("ix{}", self.next_idx);
                    self.next_idx += 1;
                    let s = Stmt::CreateIndex { name: name.clone(), table: def.name.clone(), cols: vec![c.name.clone()], unique: false };
                    self.tables[ti].indexes.push((name, vec![c.name.clone()], false));
                    out.push(s);
                }
            }
        }
        out
    }

    fn lit_for(&mut self, c: &ColDef, existing: &[Row], ci: usize, want_dup: bool) -> E {
        if want_dup && !existing.is_empty() {
            let r = self.rng.pick(existing);
            return E::Lit(r[ci].clone());
        }
        let null_pm = if c.not_null { 80 } else { 120 };
        let v = match c.ty {
            Ty::Int if c.name == "id" => V::Int(self.rng.range(1, 40)),
            _ => gen_value(&mut self.rng, c.ty, null_pm),
        };
        E::Lit(v)
    }

    pub fn gen_stmt(&mut self, model: &MDb) -> Stmt {
        let ti = self.rng.below(self.tables.len() as u64) as usize;
        let def = self.tables[ti].clone();
        let rows: Vec<Row> = model.st.tables.get(&def.name.to_lowercase()).map(|x| x.1.clone()).unwrap_or_default();
        let r = self.rng.below(100);
        // transaction control
        let txn_w = if self.focus == Focus::Txn { 30 } else { 6 };
        if r < txn_w {
            if !self.in_txn {
                self.in_txn = true;
                return Stmt::Begin;
            }
            let k = self.rng.below(10);
            if k < 3 {
                let n = format!("sp{}", self.next_sp);
                self.next_sp += 1;
                self.open_sp.push(n.clone());
                return Stmt::Savepoint(n);
            }
            if k < 6 && !self.open_sp.is_empty() {
                let i = self.rng.below(self.open_sp.len() as u64) as usize;
                let n = self.open_sp[i].clone();
                self.open_sp.truncate(i + 1);
                return Stmt::RollbackTo(n);
            }
            if k < 7 && !self.open_sp.is_empty() {
                let i = self.rng.below(self.open_sp.len() as u64) as usize;
                let n = self.open_sp[i].clone();
                self.open_sp.truncate(i);
                return Stmt::Release(n);
            }
            self.in_txn = false;
            self.open_sp.clear();
            return if k < 9 { Stmt::Rollback } else { Stmt::Commit };
        }
        let want_fail = matches!(self.focus, Focus::Failing | Focus::Constraints) && self.rng.chance(1, 3);
        if r < 55 {
            // INSERT (single or multi-row), optional column list, optional RETURNING
            let nrows = if self.rng.chance(1, 3) { self.rng.usize(2, 5) } else { 1 };
            let fail_at = if want_fail { Some(self.rng.below(nrows as u64) as usize) } else { None };
            let use_cols = self.rng.chance(1, 3);
            let names: Vec<String> = if use_cols {
                let mut v: Vec<String> = def.cols.iter().filter(|c| c.name == "id" && !c.auto_inc || self.rng.chance(3, 4)).map(|c| c.name.clone()).collect();
                if v.is_empty() {
                    v = def.col_names();
                }
                v
            } else {
                def.col_names()
            };
            let mut out = vec![];
            for ri in 0..nrows {
                let mut row = vec![];
                for n in &names {
                    let ci = def.col_idx(n).unwrap();
                    let c = &def.cols[ci];
                    let dup = fail_at == Some(ri) && (c.unique || (c.name == "id")) && self.rng.chance(2, 3);
                    let mut e = self.lit_for(c, &rows, ci, dup);
                    if c.auto_inc && self.rng.chance(2, 3) {
                        e = E::Lit(V::Null);
                    }
                    if fail_at == Some(ri) && c.not_null && self.rng.chance(1, 2) {
                        e = E::Lit(V::Null);
                    }
                    row.push(e);
                }
                out.push(row);
            }
            return Stmt::Insert { table: def.name.clone(), cols: if use_cols { Some(names) } else { None }, rows: out, returning: self.rng.chance(1, 5) };
        }
        let sc = scope(&def);
        let opts = ExprOpts { not: true, in_list: true, between: true, like: false, is_null: true, arith: false, case: false, null_literals: false, int_float_mix: false, funcs: false };
        let where_ = if self.rng.chance(1, 8) {
            None
        } else if def.pk.len() == 1 && self.rng.chance(1, 2) {
            // point predicate on the key (existing, deleted or never present)
            Some(bin(BinOp::Eq, col("id"), E::Lit(V::Int(self.rng.range(1, 40)))))
        } else {
            let d = self.rng.below(3) as u32;
            Some(gen_pred(&mut self.rng, &sc, d, &opts))
        };
        if r < 78 {
            // UPDATE
            let settable: Vec<&ColDef> = def.cols.iter().filter(|c| !c.auto_inc).collect();
            let ns = self.rng.usize(1, 2.min(settable.len()));
            let mut sets = vec![];
            let mut used = BTreeSet::new();
            for _ in 0..ns {
                let c = *self.rng.pick(&settable);
                if !used.insert(c.name.clone()) {
                    continue;
                }
                let ci = def.col_idx(&c.name).unwrap();
                let e = if c.ty == Ty::Int && c.name != "id" && self.rng.chance(1, 3) {
                    bin(BinOp::Add, col(&c.name), E::Lit(V::Int(self.rng.range(1, 3))))
                } else {
                    self.lit_for(c, &rows, ci, want_fail && (c.unique || c.name == "id"))
                };
                sets.push((c.name.clone(), e));
            }
            return Stmt::Update { table: def.name.clone(), sets, where_, returning: self.rng.chance(1, 6) };
        }
        if r < 96 {
            return Stmt::Delete { table: def.name.clone(), where_, returning: self.rng.chance(1, 6) };
        }
        Stmt::Truncate(def.name.clone())
    }
}

// ---------------------------------------------------------------- execution

fn dump(db: &mut Db, t: &str) -> Result<Vec<Row>, String> {
    db.query(&format!("SELECT * FROM {}", t))
}

/// compare the full observable state; returns a violation on the first difference
fn compare_state(db: &mut Db, model: &MDb, i: usize, after: &Stmt, assertion: &str, class: &'static str) -> Option<Viol> {
    for (k, (def, rows)) in &model.st.tables {
        let got = match dump(db, &def.name) {
            Ok(g) => g,
            Err(e) => {
                let cause = if is_panic(&e) { format!("scan_panic/{}", panic_tag(&e)) } else { format!("scan_error:{}", err_class(&e)) };
                return Some(Viol { class: if is_panic(&e) { "panic" } else { class }, assertion: assertion.into(), cause, stmt_index: i, detail: json!({"table": k, "error": e}) });
            }
        };
        if let Some(d) = bag_diff(&got, rows) {
            let traits = format!("{}{}{}", if def.pk.is_empty() { "nopk" } else { "pk" }, if def.indexes.is_empty() { "" } else { "+index" }, if model.in_txn() { "+in_txn" } else { "" });
            return Some(Viol { class, assertion: assertion.into(), cause: format!("table_differs_after_{}/{}", after.kind(), traits), stmt_index: i, detail: json!({"table": k, "diff": d, "got": rows_json(&got, 10), "want": rows_json(rows, 10)}) });
        }
        // COUNT(*) == visible rows
        match db.query(&format!("SELECT COUNT(*) FROM {}", def.name)) {
            Ok(r) => {
                let n = r.first().and_then(|r| r.first()).and_then(|v| v.as_f64()).unwrap_or(-1.0) as i64;
                if n != rows.len() as i64 {
                    return Some(Viol { class: "count_star", assertion: "count_star_equals_visible_rows".into(), cause: format!("count_star_after_{}{}", after.kind(), if model.in_txn() { "/in_txn" } else { "" }), stmt_index: i, detail: json!({"table": k, "count_star": n, "visible_rows": rows.len()}) });
                }
            }
            Err(e) => {
                return Some(Viol { class: if is_panic(&e) { "panic" } else { "count_star" }, assertion: "count_star_equals_visible_rows".into(), cause: format!("count_error:{}", err_class(&e)), stmt_index: i, detail: json!({"error": e}) });
            }
        }
    }
    None
}

pub struct RunOut {
    pub viol: Option<Viol>,
    pub executed: usize,
    pub dropped_unsupported: bool,
    pub kinds: BTreeMap<String, u64>,
    pub failing_stmts: u64,
    pub rollbacks: u64,
}

/// run a history on a fresh database; stops at the first violation
pub fn run_history(scratch: &Scratch, tag: &str, stmts: &[Stmt]) -> RunOut {
    let mut out = RunOut { viol: None, executed: 0, dropped_unsupported: false, kinds: BTreeMap::new(), failing_stmts: 0, rollbacks: 0 };
    let mut db = match Db::create(&scratch.dir(tag)) {
        Ok(d) => d,
        Err(e) => {
            out.viol = Some(Viol { class: "setup", assertion: "create_database".into(), cause: "create_failed".into(), stmt_index: 0, detail: json!({"error": e}) });
            return out;
        }
    };
    let mut model = MDb::default();
    for (i, s) in stmts.iter().enumerate() {
        let before = model.clone();
        let m = model.apply(s);
        if let Err(MErr::Unsupported(_)) = &m {
            out.dropped_unsupported = true;
            return out;
        }
        out.executed = i + 1;
        *out.kinds.entry(s.kind().to_string()).or_insert(0) += 1;
        let got = db.exec(&s.sql());
        if let Err(e) = &got {
            if is_panic(e) {
                out.viol = Some(Viol { class: "panic", assertion: "no_panic".into(), cause: format!("{}/{}", s.kind(), panic_tag(e)), stmt_index: i, detail: json!({"sql": s.sql(), "panic": e}) });
                return out;
            }
        }
        match (&m, &got) {
            (Ok(eff), Ok(o)) => {
                if let (Some(want), Outcome::Dml(n, ret)) = (eff.rows_affected, o) {
                    if !matches!(s, Stmt::Truncate(_)) && *n != want {
                        out.viol = Some(Viol { class: "dml_result", assertion: "rows_affected".into(), cause: format!("{}_rows_affected", s.kind()), stmt_index: i, detail: json!({"sql": s.sql(), "got": n, "want": want}) });
                        return out;
                    }
                    if let Some(wr) = &eff.returning {
                        match ret {
                            Some(gr) => {
                                if let Some(d) = bag_diff(gr, wr) {
                                    out.viol = Some(Viol { class: "dml_result", assertion: "returning".into(), cause: format!("{}_returning_differs", s.kind()), stmt_index: i, detail: json!({"sql": s.sql(), "diff": d}) });
                                    return out;
                                }
                            }
                            None => {
                                out.viol = Some(Viol { class: "dml_result", assertion: "returning".into(), cause: format!("{}_returning_missing", s.kind()), stmt_index: i, detail: json!({"sql": s.sql()}) });
                                return out;
                            }
                        }
                    }
                }
                if matches!(s, Stmt::Rollback | Stmt::RollbackTo(_)) {
                    out.rollbacks += 1;
                    if let Some(v) = compare_state(&mut db, &model, i, s, "rollback_restores_state", "rollback") {
                        out.viol = Some(v);
                        return out;
                    }
                } else if s.is_mutation() {
                    if let Some(v) = compare_state(&mut db, &model, i, s, "state_matches_model", "state") {
                        out.viol = Some(v);
                        return out;
                    }
                }
            }
            (Err(MErr::Error(why)), Err(_e)) => {
                // both reject: the visible state must be exactly what it was
                out.failing_stmts += 1;
                model = before.clone();
                // (model.apply already left the state untouched; restore txn bookkeeping too)
                if let Some(mut v) = compare_state(&mut db, &model, i, s, "unchanged_after_error", "error_atomicity") {
                    v.cause = format!("{}/{}", v.cause, why.replace("constraint:", ""));
                    v.detail["failed_sql"] = json!(s.sql());
                    out.viol = Some(v);
                    return out;
                }
            }
            (Ok(_), Err(e)) => {
                let class = if matches!(s, Stmt::Insert { .. } | Stmt::Update { .. } | Stmt::Delete { .. }) { "constraint" } else { "dml_result" };
                out.viol = Some(Viol { class, assertion: "valid_statement_accepted".into(), cause: format!("{}_rejected:{}", s.kind(), err_class(e)), stmt_index: i, detail: json!({"sql": s.sql(), "error": e}) });
                return out;
            }
            (Err(MErr::Error(why)), Ok(o)) => {
                out.viol = Some(Viol { class: "constraint", assertion: "invalid_statement_rejected".into(), cause: format!("{}_accepted_despite_{}", s.kind(), why.replace("constraint:", "").replace(' ', "_")), stmt_index: i, detail: json!({"sql": s.sql(), "outcome": format!("{:?}", o).chars().take(200).collect::<String>()}) });
                return out;
            }
            (Err(MErr::Unsupported(_)), _) => unreachable!(),
        }
    }
    out
}

pub fn gen_history(seed: u64, focus: Focus, max_stmts: usize) -> Vec<Stmt> {
    let mut g = Gen { rng: Rng::new(seed), focus, tables: vec![], next_sp: 0, open_sp: vec![], in_txn: false, next_idx: 0 };
    let mut stmts = g.gen_schema();
    let mut model = MDb::default();
    for s in &stmts {
        let _ = model.apply(s);
    }
    let n = g.rng.usize(max_stmts / 3, max_stmts);
    for _ in 0..n {
        let s = g.gen_stmt(&model);
        match model.apply(&s) {
            Ok(_) | Err(MErr::Error(_)) => {
                // keep generator bookkeeping in line with the model for failing txn-control statements
                stmts.push(s);
            }
            Err(MErr::Unsupported(_)) => {}
        }
    }
    if g.in_txn && g.rng.chance(1, 2) {
        stmts.push(if g.rng.chance(1, 2) { Stmt::Commit } else { Stmt::Rollback });
    }
    stmts
}

/// ddmin over the statement list (schema statements are kept): same class+cause must still fire
pub fn shrink(scratch: &Scratch, stmts: &[Stmt], class: &str, cause: &str) -> Vec<Stmt> {
    let mut cur = stmts.to_vec();
    let fires = |c: &[Stmt], n: &mut usize| -> bool {
        *n += 1;
        let o = run_history(scratch, &format!("shrink{}", *n % 4), c);
        matches!(&o.viol, Some(v) if v.class == class && v.cause == cause)
    };
    let mut n = 0usize;
    let mut chunk = cur.len() / 2;
    while chunk >= 1 && n < 120 {
        let mut i = 0;
        while i < cur.len() && n < 120 {
            let end = (i + chunk).min(cur.len());
            if cur[i..end].iter().any(|s| matches!(s, Stmt::CreateTable(_))) {
                i += chunk;
                continue;
            }
            let mut cand = cur[..i].to_vec();
            cand.extend_from_slice(&cur[end..]);
            if fires(&cand, &mut n) {
                cur = cand;
            } else {
                i += chunk;
            }
        }
        if chunk == 1 {
            break;
        }
        chunk /= 2;
    }
    cur
}

pub fn classes_of(prop: &str) -> &'static [&'static str] {
    match prop {
        "C05" => &["dml_result", "state", "count_star", "panic", "setup"],
        "C06" => &["error_atomicity"],
        "C07" => &["rollback"],
        "C09" => &["constraint"],
        _ => &[],
    }
}

pub fn run_prop(a: &Args, prop: &'static str, focus: Focus, rule: &str) -> i32 {
    let mut ctx = Ctx::new(prop, &a.tier, a.seed, "exploration", rule);
    let quick = ctx.quick();
    let nhist = if quick { 300 } else { 6000 };
    let threads = 8usize;
    let scratch = Scratch::new(&format!("{}-dml", prop.to_lowercase()));
    let results = std::sync::Mutex::new(vec![]);
    let next = std::sync::atomic::AtomicUsize::new(0);
    let seed = a.seed;
    std::thread::scope(|s| {
        for t in 0..threads {
            let (results, next, scratch) = (&results, &next, &scratch);
            s.spawn(move || loop {
                let i = next.fetch_add(1, std::sync::atomic::Ordering::SeqCst);
                if i >= nhist {
                    break;
                }
                let hseed = Rng::derive(seed, 50_000 + i as u64 + (prop.as_bytes()[2] as u64) * 1_000_000).next();
                let stmts = gen_history(hseed, focus, 40);
                let out = run_history(scratch, &format!("w{}", t), &stmts);
                results.lock().unwrap().push((i, stmts, out));
            });
        }
    });
    let mut results = results.into_inner().unwrap();
    results.sort_by_key(|r| r.0);
    let mine = classes_of(prop);
    let mut seen_sigs = BTreeSet::new();
    for (i, stmts, out) in results {
        ctx.eval();
        ctx.count("statements_executed", out.executed as u64);
        ctx.count("failing_statements_both_reject", out.failing_stmts);
        ctx.count("rollbacks_observed", out.rollbacks);
        if out.dropped_unsupported {
            ctx.count("histories_cut_at_unsupported_statement", 1);
        }
        for (k, n) in &out.kinds {
            ctx.count(&format!("stmt_{}", k), *n);
        }
        // non-trivial: the history exercised the property's mechanism
        let nontrivial = match focus {
            Focus::Failing => out.failing_stmts > 0,
            Focus::Txn => out.rollbacks > 0,
            _ => out.executed > 8,
        };
        if nontrivial {
            ctx.nontrivial(fnv(stmts.iter().map(|s| s.sql()).collect::<Vec<_>>().join(";").as_bytes()));
        }
        if i < 2 {
            ctx.sample(json!({"history": i, "statements": stmts.iter().take(14).map(|s| s.sql()).collect::<Vec<_>>()}));
        }
        if let Some(v) = out.viol {
            if !mine.contains(&v.class) {
                ctx.count(&format!("other_property_class_{}", v.class), 1);
                continue;
            }
            let sig = format!("{}/{}/{}", prop, v.assertion, v.cause);
            let mut shrunk: Vec<String> = vec![];
            if ctx.is_known(&sig).is_none() && seen_sigs.insert(sig.clone()) {
                shrunk = shrink(&scratch, &stmts[..(v.stmt_index + 1).min(stmts.len())], v.class, &v.cause).iter().map(|s| s.sql()).collect();
            }
            ctx.violation(&v.assertion, &sig, json!({"history": i, "stmt_index": v.stmt_index, "detail": v.detail, "shrunk_history": shrunk, "full_history": if shrunk.is_empty() { stmts.iter().take(v.stmt_index + 1).map(|s| s.sql()).collect::<Vec<_>>() } else { vec![] }}));
        }
    }
    ctx.assumptions.push("model pins: rows_affected of UPDATE/DELETE = rows matched by WHERE; TRUNCATE count not asserted; UNIQUE admits several NULLs; CHECK passes unless FALSE; AUTO_INCREMENT counters need not roll back".into());
    ctx.finish()
}

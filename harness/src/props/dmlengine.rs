//! Shared DML/transaction engine: generated histories run on TurDB and on the relational
//! reference model (sqlm::dml), compared statement by statement. Serves C05/C06/C09 (and the
//! history generator is reused by the crash engine). Each violation carries a `class`; every
//! property reports only its own classes.
//!
//! Signatures: `<prop>/<assertion>/<core>[/<traits>]`. `core` is what the oracle established at the
//! failing statement (statement kind + a diagnosis of the difference, e.g. `delete_counts_deleted_rows`,
//! `insert:null_replaced_by_default`, `insert_multi/primary_key:with_existing/rows_before_failing_row_persist`).
//! `traits` are the features that SURVIVE minimisation of the case (statement list, rows of multi-row
//! INSERTs, SET items, WHERE, column list, RETURNING, and the schema: PK, AUTO_INCREMENT, DEFAULT, NOT NULL,
//! UNIQUE, CHECK, FK, indexes, columns), i.e. features the failure needs: `pk`, `index`, `in_txn`,
//! `k=first|middle|last`, `after_delete`, `check:between`, ...
use crate::report::Ctx;
use crate::rng::{fnv, Rng};
use crate::sqlm::db::{is_panic, panic_tag, Db, Outcome, Scratch};
use crate::sqlm::dml::{check_form, check_truth, ColDef, FkAction, FkDef, MDb, Stmt, TableDef};
use crate::sqlm::expr::{bin, col, shrink_expr, BinOp, MErr, E};
use crate::sqlm::gen::{gen_pred, gen_value, ExprOpts, ScopeCol, Ty};
use crate::sqlm::val::{row_key, Row, V};
use crate::Args;
use serde_json::{json, Value as J};
use std::collections::{BTreeMap, BTreeSet, HashMap};

#[derive(Clone, Copy, Debug, PartialEq, Eq)]
pub enum Focus {
    /// plain DML: few constraints, deletes/updates/re-deletes, truncate, tables without PK, indexes
    Dml,
    /// statements that must fail (k-th row of a multi-row statement violates a constraint)
    Failing,
    /// transactions, nested savepoints, release, rollback
    Txn,
    /// constraint-heavy schemas: PK/UNIQUE/NOT NULL/CHECK/FK
    Constraints,
    /// AUTO_INCREMENT
    AutoInc,
}

#[derive(Clone, Debug)]
pub struct Viol {
    /// dml_result | state | count_star | error_atomicity | rollback | constraint | panic | setup
    pub class: &'static str,
    pub assertion: String,
    /// stable cause established at the failing statement (== `core`; kept for the `shrink` API)
    pub cause: String,
    pub stmt_index: usize,
    pub detail: J,
    /// diagnosis part of the signature; minimisation must preserve (class, assertion, core)
    pub core: String,
}

fn viol(class: &'static str, assertion: &str, core: String, i: usize, detail: J) -> Viol {
    Viol { class, assertion: assertion.into(), cause: core.clone(), stmt_index: i, detail, core }
}

pub fn err_class(e: &str) -> String {
    e.split(|c: char| !c.is_ascii_alphabetic()).filter(|w| !w.is_empty()).take(6).collect::<Vec<_>>().join("_").to_lowercase()
}

/// like `err_class`, but quoted identifiers / values are dropped first so the class does not depend on names
fn err_class2(e: &str) -> String {
    let mut out = String::new();
    let mut q = false;
    for c in e.chars() {
        if c == '\'' {
            q = !q;
            continue;
        }
        if !q {
            out.push(c);
        }
    }
    err_class(out.split(':').next().unwrap_or(&out))
}

// ---------------------------------------------------------------- generation

/// features drawn per history (stratified generation: most histories are free of any given feature)
#[derive(Clone, Debug, Default)]
pub struct Feat {
    /// 0 none; 1 non-negative DEFAULTs, exercised by omitting the column; 2 = 1 + explicit NULL into a
    /// defaulted column; 3 = 1 + negative numeric DEFAULTs
    pub defaults: u8,
    /// 0 none; 1 text of 900..1100 bytes (TOAST threshold is 1000); 2 = 1 + ~5000 bytes (two chunks)
    pub large: u8,
    pub truncate: bool,
    pub returning: bool,
    pub collist: bool,
    pub txn: bool,
    pub key_updates: bool,
    pub set_copy: bool,
}

pub struct Gen {
    pub rng: Rng,
    pub focus: Focus,
    pub tables: Vec<TableDef>,
    pub next_sp: u32,
    pub open_sp: Vec<String>,
    pub in_txn: bool,
    pub next_idx: u32,
    pub feat: Feat,
    next_large: u32,
    next_uniq: i64,
}

fn scope(def: &TableDef) -> Vec<ScopeCol> {
    def.cols.iter().map(|c| ScopeCol { tbl: None, name: c.name.clone(), ty: c.ty }).collect()
}

fn is_pk_col(def: &TableDef, c: &ColDef) -> bool {
    def.pk.iter().any(|p| p.eq_ignore_ascii_case(&c.name))
}

/// which constraint a generated row / assignment is meant to violate
#[derive(Clone, Copy, Debug, PartialEq, Eq)]
enum Bad {
    Pk,
    Unique(usize),
    NotNull(usize),
    Check(usize),
    Fk(usize),
}

pub fn is_large(v: &V) -> bool {
    matches!(v, V::Text(s) if s.len() >= 900)
}

impl Gen {
    pub fn new(seed: u64, focus: Focus) -> Gen {
        let mut rng = Rng::new(seed);
        let heavy = matches!(focus, Focus::Constraints | Focus::Failing);
        let d = rng.below(100);
        let feat = Feat {
            defaults: if d < 58 {
                0
            } else if d < 84 {
                1
            } else if d < 92 {
                2
            } else {
                3
            },
            large: if heavy {
                if rng.chance(1, 8) {
                    1
                } else {
                    0
                }
            } else {
                match rng.below(8) {
                    0 | 1 => 1,
                    2 => 2,
                    _ => 0,
                }
            },
            truncate: rng.chance(1, 3),
            returning: rng.chance(1, 3),
            collist: rng.chance(1, 2),
            txn: focus == Focus::Txn || rng.chance(1, 4),
            key_updates: rng.chance(1, 2),
            set_copy: rng.chance(1, 3),
        };
        Gen { rng, focus, tables: vec![], next_sp: 0, open_sp: vec![], in_txn: false, next_idx: 0, feat, next_large: 0, next_uniq: 100 }
    }

    fn gen_check(&mut self, cname: &str) -> E {
        let lo = self.rng.range(-3, 3);
        let c = || col(cname);
        let l = |x: i64| E::Lit(V::Int(x));
        let r = self.rng.below(100);
        if r < 52 {
            bin(*self.rng.pick(&[BinOp::Ge, BinOp::Gt, BinOp::Le, BinOp::Lt]), c(), l(if r % 2 == 0 { lo } else { lo + 9 }))
        } else if r < 70 {
            bin(BinOp::And, bin(BinOp::Ge, c(), l(lo)), bin(BinOp::Le, c(), l(lo + 8)))
        } else if r < 82 {
            bin(BinOp::Or, bin(BinOp::Lt, c(), l(lo)), bin(BinOp::Gt, c(), l(lo + 2)))
        } else if r < 88 {
            E::Between(Box::new(c()), Box::new(l(lo)), Box::new(l(lo + 8)), false)
        } else if r < 92 {
            bin(BinOp::Ne, c(), l(lo + 2))
        } else if r < 96 {
            E::InList(Box::new(c()), (0..4).map(|k| l(lo + 2 * k)).collect(), false)
        } else {
            bin(BinOp::Le, l(lo), c())
        }
    }

    fn gen_default(&mut self, ty: Ty, negative: bool) -> V {
        match ty {
            Ty::Int => V::Int(if negative { self.rng.range(-9, -1) } else { self.rng.range(0, 12) }),
            Ty::Float => V::Float(if negative { -(self.rng.range(1, 40) as f64) / 4.0 } else { self.rng.range(0, 40) as f64 / 4.0 }),
            Ty::Text => V::Text(self.rng.pick(&["a", "ab", "abc", "dflt", "zz"]).to_string()),
            Ty::Bool => V::Bool(self.rng.chance(1, 2)),
        }
    }

    pub fn gen_schema(&mut self) -> Vec<Stmt> {
        let heavy = matches!(self.focus, Focus::Constraints | Focus::Failing);
        let nt = match self.focus {
            Focus::Constraints => self.rng.usize(2, 3),
            Focus::Failing => {
                if self.rng.chance(1, 3) {
                    2
                } else {
                    1
                }
            }
            _ => self.rng.usize(1, 2),
        };
        let with_fk = self.focus == Focus::Constraints || (self.focus == Focus::Failing && nt == 2);
        let mut out = vec![];
        let mut neg_default_used = false;
        for ti in 0..nt {
            let name = format!("t{}", ti);
            let mut cols = vec![];
            let with_pk = match self.focus {
                Focus::Dml | Focus::Txn => self.rng.chance(2, 3),
                Focus::Constraints | Focus::Failing if ti == 0 && with_fk => true,
                _ => self.rng.chance(5, 6),
            };
            let auto = with_pk && (self.focus == Focus::AutoInc || self.rng.chance(1, 8));
            if with_pk {
                cols.push(ColDef { name: "id".into(), ty: Ty::Int, not_null: false, unique: false, default: None, auto_inc: auto, check: None });
            }
            let nc = self.rng.usize(2, 4);
            for ci in 0..nc {
                let ty = *self.rng.pick(&[Ty::Int, Ty::Int, Ty::Text, Ty::Float, Ty::Bool]);
                let letter = match ty {
                    Ty::Int => 'i',
                    Ty::Float => 'f',
                    Ty::Text => 't',
                    Ty::Bool => 'b',
                };
                let not_null = heavy && self.rng.chance(1, 4);
                let unique = heavy && ty != Ty::Bool && ty != Ty::Float && self.rng.chance(1, 4);
                let cname = format!("{}{}", letter, ci);
                let check = if heavy && ty == Ty::Int && self.rng.chance(1, 3) { Some(self.gen_check(&cname)) } else { None };
                let default = if self.feat.defaults > 0 && !unique && check.is_none() && self.rng.chance(1, 2) {
                    let neg = self.feat.defaults == 3 && matches!(ty, Ty::Int | Ty::Float) && (!neg_default_used || self.rng.chance(1, 2));
                    neg_default_used |= neg;
                    Some(self.gen_default(ty, neg))
                } else {
                    None
                };
                cols.push(ColDef { name: cname, ty, not_null, unique, default, auto_inc: false, check });
            }
            let mut def = TableDef { name: name.clone(), cols, pk: if with_pk { vec!["id".into()] } else { vec![] }, fks: vec![], indexes: vec![] };
            // FK from t1.. to t0.id
            if ti > 0 && with_fk {
                let action = if self.rng.chance(1, 2) { FkAction::Cascade } else { FkAction::Restrict };
                let cand = def.cols.iter().position(|c| c.ty == Ty::Int && c.name != "id" && c.check.is_none() && !c.unique);
                let ci = match cand {
                    Some(ci) => ci,
                    None => {
                        def.cols.push(ColDef { name: format!("i{}", def.cols.len()), ty: Ty::Int, not_null: false, unique: false, default: None, auto_inc: false, check: None });
                        def.cols.len() - 1
                    }
                };
                def.cols[ci].default = None;
                def.fks.push(FkDef { col: def.cols[ci].name.clone(), ref_table: "t0".into(), ref_col: "id".into(), on_delete: action, on_update_restrict: self.rng.chance(1, 3) });
            }
            self.tables.push(def.clone());
            out.push(Stmt::CreateTable(def));
        }
        // secondary indexes (plain, occasionally UNIQUE or two-column)
        for ti in 0..self.tables.len() {
            if self.rng.chance(1, 2) {
                let def = self.tables[ti].clone();
                let cands: Vec<&ColDef> = def.cols.iter().filter(|c| c.name != "id" && c.ty != Ty::Bool).collect();
                if !cands.is_empty() {
                    let c = *self.rng.pick(&cands);
                    let mut cols = vec![c.name.clone()];
                    if cands.len() > 1 && self.rng.chance(1, 5) {
                        let c2 = *self.rng.pick(&cands);
                        if c2.name != c.name {
                            cols.push(c2.name.clone());
                        }
                    }
                    let unique = c.ty != Ty::Float && def.fks.iter().all(|f| f.col != c.name) && self.rng.chance(1, 7);
                    let name = format!("ix{}", self.next_idx);
                    self.next_idx += 1;
                    let s = Stmt::CreateIndex { name: name.clone(), table: def.name.clone(), cols: cols.clone(), unique };
                    self.tables[ti].indexes.push((name, cols, unique));
                    out.push(s);
                }
            }
        }
        out
    }

    fn large_text(&mut self) -> V {
        let n = match self.rng.below(6) {
            0 => 1000,
            1 => 1001,
            2 if self.feat.large == 2 => self.rng.usize(4900, 5100),
            3 if self.feat.large == 2 => self.rng.usize(3990, 4010),
            _ => self.rng.usize(900, 1100),
        };
        self.next_large += 1;
        let mut s = format!("L{}-", self.next_large);
        while s.len() < n {
            s.push((b'a' + (s.len() % 7) as u8) as char);
        }
        V::Text(s)
    }

    fn plain_value(&mut self, c: &ColDef, null_pm: u64) -> V {
        if c.ty == Ty::Text && self.feat.large > 0 && !c.unique && self.rng.chance(1, 4) {
            return self.large_text();
        }
        gen_value(&mut self.rng, c.ty, null_pm)
    }

    fn value_for_check(&mut self, c: &ColDef, want_ok: bool) -> V {
        let ch = c.check.as_ref().unwrap();
        for _ in 0..40 {
            let v = V::Int(self.rng.range(-8, 16));
            let t = check_truth(ch, &c.name, &v);
            if (t != Some(false)) == want_ok {
                return v;
            }
        }
        V::Int(if want_ok { 5 } else { -100 })
    }

    fn fresh_key(&mut self, live: &BTreeSet<String>, gone_keys: &[i64], taken: &BTreeSet<String>) -> i64 {
        // re-insert of a deleted key
        if !gone_keys.is_empty() && self.rng.chance(1, 3) {
            let k = *self.rng.pick(gone_keys);
            let key = V::Int(k).key(true);
            if !live.contains(&key) && !taken.contains(&key) {
                return k;
            }
        }
        for _ in 0..20 {
            let k = self.rng.range(1, 40);
            let key = V::Int(k).key(true);
            if !live.contains(&key) && !taken.contains(&key) {
                return k;
            }
        }
        self.next_uniq += 1;
        self.next_uniq
    }

    fn fresh_unique(&mut self, c: &ColDef, live: &BTreeSet<String>, taken: &BTreeSet<String>) -> V {
        for _ in 0..20 {
            let v = match c.ty {
                Ty::Int => {
                    if c.check.is_some() {
                        self.value_for_check(c, true)
                    } else {
                        V::Int(self.rng.range(-5, 60))
                    }
                }
                _ => gen_value(&mut self.rng, c.ty, 0),
            };
            let key = v.key(true);
            if !live.contains(&key) && !taken.contains(&key) {
                return v;
            }
        }
        self.next_uniq += 1;
        match c.ty {
            Ty::Text => V::Text(format!("u{}", self.next_uniq)),
            _ => V::Int(self.next_uniq),
        }
    }

    /// one row of literals for the columns `names`; `bad` makes exactly that constraint fail (if possible)
    fn gen_row(&mut self, def: &TableDef, model: &MDb, names: &[String], bad: Option<Bad>, taken: &mut HashMap<usize, BTreeSet<String>>) -> Vec<E> {
        let tk = def.name.to_lowercase();
        let rows: Vec<Row> = model.st.tables.get(&tk).map(|x| x.1.clone()).unwrap_or_default();
        let gone: Vec<Row> = model.st.gone.get(&tk).cloned().unwrap_or_default();
        let mut out = vec![];
        for n in names {
            let ci = def.col_idx(n).unwrap();
            let c = &def.cols[ci];
            let live: BTreeSet<String> = rows.iter().filter(|r| !r[ci].is_null()).map(|r| r[ci].key(true)).collect();
            let tak = taken.entry(ci).or_default().clone();
            let fk = def.fks.iter().find(|f| f.col.eq_ignore_ascii_case(&c.name));
            let mut v: V;
            if c.auto_inc {
                v = if self.rng.chance(1, 2) {
                    V::Null
                } else {
                    let gk: Vec<i64> = vec![];
                    V::Int(self.fresh_key(&live, &gk, &tak))
                };
            } else if is_pk_col(def, c) {
                if bad == Some(Bad::Pk) && !rows.is_empty() {
                    v = self.rng.pick(&rows)[ci].clone();
                } else {
                    let gk: Vec<i64> = gone.iter().filter_map(|r| if let V::Int(x) = r[ci] { Some(x) } else { None }).collect();
                    v = V::Int(self.fresh_key(&live, &gk, &tak));
                }
            } else if let Some(fk) = fk {
                let pk = fk.ref_table.to_lowercase();
                let prows: Vec<Row> = model.st.tables.get(&pk).map(|x| x.1.clone()).unwrap_or_default();
                let pgone: Vec<Row> = model.st.gone.get(&pk).cloned().unwrap_or_default();
                let pi = model.st.tables.get(&pk).and_then(|x| x.0.col_idx(&fk.ref_col)).unwrap_or(0);
                if bad == Some(Bad::Fk(ci)) {
                    let plive: BTreeSet<String> = prows.iter().map(|r| r[pi].key(true)).collect();
                    let dead: Vec<&Row> = pgone.iter().filter(|r| !plive.contains(&r[pi].key(true))).collect();
                    v = if !dead.is_empty() && self.rng.chance(1, 2) { self.rng.pick(&dead)[pi].clone() } else { V::Int(self.rng.range(41, 60)) };
                } else if prows.is_empty() || (!c.not_null && self.rng.chance(1, 4)) {
                    v = if c.not_null { V::Int(self.rng.range(1, 40)) } else { V::Null };
                } else {
                    v = self.rng.pick(&prows)[pi].clone();
                }
            } else if c.unique {
                let existing: Vec<&Row> = rows.iter().filter(|r| !r[ci].is_null()).collect();
                if bad == Some(Bad::Unique(ci)) && !existing.is_empty() {
                    v = self.rng.pick(&existing)[ci].clone();
                } else if !c.not_null && self.rng.chance(1, 6) {
                    v = V::Null;
                } else {
                    v = self.fresh_unique(c, &live, &tak);
                }
            } else {
                v = self.plain_value(c, if c.not_null { 0 } else { 120 });
            }
            if bad == Some(Bad::NotNull(ci)) {
                v = V::Null;
            } else if c.not_null && v.is_null() && !c.auto_inc {
                v = gen_value(&mut self.rng, c.ty, 0);
            }
            if c.check.is_some() && !c.unique {
                if bad == Some(Bad::Check(ci)) {
                    v = self.value_for_check(c, false);
                } else if !v.is_null() && check_truth(c.check.as_ref().unwrap(), &c.name, &v) == Some(false) {
                    v = self.value_for_check(c, true);
                }
            } else if c.check.is_some() && bad == Some(Bad::Check(ci)) {
                v = self.value_for_check(c, false);
            }
            // explicit NULL into a column that has a DEFAULT: only in its own stratum
            if c.default.is_some() && bad != Some(Bad::NotNull(ci)) {
                if self.feat.defaults == 2 && self.rng.chance(1, 3) {
                    v = V::Null;
                } else if self.feat.defaults != 2 && v.is_null() {
                    v = gen_value(&mut self.rng, c.ty, 0);
                }
            }
            if !v.is_null() {
                taken.entry(ci).or_default().insert(v.key(true));
            }
            out.push(E::Lit(v));
        }
        out
    }

    /// a constraint of `def` that a row can be made to violate
    fn pick_bad(&mut self, def: &TableDef, names: &[String], has_rows: bool) -> Option<Bad> {
        let mut c = vec![];
        for n in names {
            let ci = def.col_idx(n).unwrap();
            let cd = &def.cols[ci];
            if is_pk_col(def, cd) && !cd.auto_inc && has_rows {
                c.push(Bad::Pk);
            }
            if cd.unique && has_rows {
                c.push(Bad::Unique(ci));
            }
            if cd.not_null && !cd.auto_inc {
                c.push(Bad::NotNull(ci));
            }
            if cd.check.is_some() {
                c.push(Bad::Check(ci));
            }
            if def.fks.iter().any(|f| f.col.eq_ignore_ascii_case(&cd.name)) {
                c.push(Bad::Fk(ci));
            }
        }
        if c.is_empty() {
            None
        } else {
            Some(*self.rng.pick(&c))
        }
    }

    fn gen_where(&mut self, def: &TableDef, rows: &[Row], gone: &[Row]) -> Option<E> {
        let r = self.rng.below(100);
        if r < 13 {
            return None;
        }
        let pick_row = |g: &mut Gen| -> Option<Row> {
            let k = g.rng.below(100);
            if k < 45 && !rows.is_empty() {
                Some(g.rng.pick(rows).clone())
            } else if k < 82 && !gone.is_empty() {
                Some(g.rng.pick(gone).clone())
            } else if !rows.is_empty() && k < 90 {
                Some(g.rng.pick(rows).clone())
            } else {
                None
            }
        };
        if def.pk.len() == 1 && r < 55 {
            // point predicate on the key: live, already deleted, or never present
            let ci = def.col_idx(&def.pk[0]).unwrap();
            let v = match pick_row(self) {
                Some(row) => row[ci].clone(),
                None => V::Int(self.rng.range(1, 45)),
            };
            return Some(bin(BinOp::Eq, col(&def.pk[0]), E::Lit(v)));
        }
        if r < 55 {
            // no PK: equality on a value of a live / deleted row
            if let Some(row) = pick_row(self) {
                let cands: Vec<usize> = (0..def.cols.len()).filter(|i| matches!(def.cols[*i].ty, Ty::Int | Ty::Text) && !row[*i].is_null() && !is_large(&row[*i])).collect();
                if !cands.is_empty() {
                    let ci = *self.rng.pick(&cands);
                    return Some(bin(BinOp::Eq, col(&def.cols[ci].name), E::Lit(row[ci].clone())));
                }
            }
        }
        let ints: Vec<&ColDef> = def.cols.iter().filter(|c| c.ty == Ty::Int).collect();
        if r < 75 && !ints.is_empty() {
            let c = *self.rng.pick(&ints);
            let v = if c.name == "id" { self.rng.range(1, 40) } else { self.rng.range(-5, 12) };
            let op = *self.rng.pick(&[BinOp::Ge, BinOp::Lt, BinOp::Gt, BinOp::Le, BinOp::Ne]);
            return Some(bin(op, col(&c.name), E::Lit(V::Int(v))));
        }
        if r < 83 {
            let c = self.rng.pick(&def.cols).clone();
            return Some(E::IsNull(Box::new(col(&c.name)), self.rng.chance(1, 2)));
        }
        let sc = scope(def);
        let opts = ExprOpts { not: true, in_list: true, between: true, like: false, is_null: true, arith: false, case: false, null_literals: false, int_float_mix: false, funcs: false };
        let d = self.rng.below(2) as u32;
        Some(gen_pred(&mut self.rng, &sc, d, &opts))
    }

    fn gen_insert(&mut self, def: &TableDef, model: &MDb, want_fail: bool) -> Stmt {
        let tk = def.name.to_lowercase();
        let has_rows = model.st.tables.get(&tk).map(|x| !x.1.is_empty()).unwrap_or(false);
        let nrows = if self.rng.chance(1, 3) || (want_fail && self.rng.chance(1, 2)) { self.rng.usize(2, 5) } else { 1 };
        let has_ai = def.cols.iter().any(|c| c.auto_inc);
        let has_default = def.cols.iter().any(|c| c.default.is_some());
        let use_cols = (self.feat.collist && self.rng.chance(1, 2)) || (has_default && self.rng.chance(2, 3)) || (has_ai && self.rng.chance(2, 3));
        let names: Vec<String> = if use_cols {
            let mut v = vec![];
            for c in &def.cols {
                let keep = if c.auto_inc {
                    self.rng.chance(1, 4)
                } else if is_pk_col(def, c) || (c.not_null && c.default.is_none()) {
                    true
                } else if c.default.is_some() {
                    self.rng.chance(1, 2)
                } else {
                    self.rng.chance(3, 4)
                };
                if keep {
                    v.push(c.name.clone());
                }
            }
            if v.is_empty() {
                v = def.col_names();
            }
            v
        } else {
            def.col_names()
        };
        let fail_at = if want_fail { Some(self.rng.below(nrows as u64) as usize) } else { None };
        let bad = if want_fail { self.pick_bad(def, &names, has_rows || nrows > 1) } else { None };
        let mut taken: HashMap<usize, BTreeSet<String>> = HashMap::new();
        let mut out: Vec<Vec<E>> = vec![];
        // explicit and generated AUTO_INCREMENT values are not mixed inside one statement
        let ai_mode_null = self.rng.chance(1, 2);
        for ri in 0..nrows {
            let b = if fail_at == Some(ri) { bad } else { None };
            let mut row = self.gen_row(def, model, &names, b, &mut taken);
            // duplicate of an earlier row of the same statement
            if fail_at == Some(ri) && ri > 0 && matches!(b, Some(Bad::Pk) | Some(Bad::Unique(_))) && self.rng.chance(1, 2) {
                let ci = match b {
                    Some(Bad::Unique(ci)) => ci,
                    _ => def.col_idx(&def.pk[0]).unwrap(),
                };
                if let Some(p) = names.iter().position(|n| def.col_idx(n) == Some(ci)) {
                    let prev = out[self.rng.below(ri as u64) as usize][p].clone();
                    if !matches!(prev, E::Lit(V::Null)) {
                        row[p] = prev;
                    }
                }
            }
            for (p, n) in names.iter().enumerate() {
                let c = &def.cols[def.col_idx(n).unwrap()];
                if c.auto_inc {
                    if ai_mode_null {
                        row[p] = E::Lit(V::Null);
                    } else if matches!(row[p], E::Lit(V::Null)) {
                        let live: BTreeSet<String> = model.st.tables.get(&tk).map(|x| x.1.iter().map(|r| r[def.col_idx(n).unwrap()].key(true)).collect()).unwrap_or_default();
                        let tak = taken.entry(def.col_idx(n).unwrap()).or_default().clone();
                        let k = self.fresh_key(&live, &[], &tak);
                        taken.entry(def.col_idx(n).unwrap()).or_default().insert(V::Int(k).key(true));
                        row[p] = E::Lit(V::Int(k));
                    }
                }
            }
            out.push(row);
        }
        Stmt::Insert { table: def.name.clone(), cols: if use_cols { Some(names) } else { None }, rows: out, returning: self.feat.returning && self.rng.chance(1, 3) }
    }

    fn gen_update(&mut self, def: &TableDef, model: &MDb, want_fail: bool) -> Stmt {
        let tk = def.name.to_lowercase();
        let rows: Vec<Row> = model.st.tables.get(&tk).map(|x| x.1.clone()).unwrap_or_default();
        let gone: Vec<Row> = model.st.gone.get(&tk).cloned().unwrap_or_default();
        let mut where_ = self.gen_where(def, &rows, &gone);
        let returning = self.feat.returning && self.rng.chance(1, 3);
        let settable: Vec<usize> = (0..def.cols.len()).filter(|i| !def.cols[*i].auto_inc && (self.feat.key_updates || !is_pk_col(def, &def.cols[*i]))).collect();
        if settable.is_empty() {
            return Stmt::Delete { table: def.name.clone(), where_, returning };
        }
        // multi-row UPDATE in which only some rows violate a constraint
        if want_fail && self.rng.chance(1, 2) {
            let mut opts: Vec<(String, E)> = vec![];
            for &ci in &settable {
                let c = &def.cols[ci];
                if (c.unique || is_pk_col(def, c)) && !rows.is_empty() {
                    let v = self.rng.pick(&rows)[ci].clone();
                    if !v.is_null() {
                        opts.push((c.name.clone(), E::Lit(v)));
                    }
                }
                if c.check.is_some() || (c.ty == Ty::Int && (c.unique || is_pk_col(def, c))) || def.fks.iter().any(|f| f.col == c.name) {
                    let k = *self.rng.pick(&[1i64, 2, 3, 5, -1, -2, -4]);
                    opts.push((c.name.clone(), bin(BinOp::Add, col(&c.name), E::Lit(V::Int(k)))));
                }
                if c.not_null {
                    if let Some(o) = def.cols.iter().find(|o| o.ty == c.ty && !o.not_null && o.name != c.name && !o.auto_inc && !is_pk_col(def, o)) {
                        opts.push((c.name.clone(), col(&o.name)));
                    }
                }
            }
            if !opts.is_empty() {
                let s = self.rng.pick(&opts).clone();
                if self.rng.chance(2, 3) {
                    where_ = if self.rng.chance(1, 2) { None } else { where_.filter(|w| !matches!(w, E::Bin(BinOp::Eq, ..))) };
                }
                return Stmt::Update { table: def.name.clone(), sets: vec![s], where_, returning };
            }
        }
        let ns = self.rng.usize(1, 2.min(settable.len()));
        let mut sets = vec![];
        let mut used = BTreeSet::new();
        let names = def.col_names();
        for _ in 0..ns {
            let ci = *self.rng.pick(&settable);
            if !used.insert(ci) {
                continue;
            }
            let c = def.cols[ci].clone();
            let r = self.rng.below(100);
            let e = if c.ty == Ty::Int && r < 25 && !c.unique {
                bin(BinOp::Add, col(&c.name), E::Lit(V::Int(self.rng.range(1, 3))))
            } else if c.ty == Ty::Int && is_pk_col(def, &c) && r < 45 {
                bin(BinOp::Add, col(&c.name), E::Lit(V::Int(*self.rng.pick(&[1i64, 1, 50, 100]))))
            } else if self.feat.set_copy && r < 40 && def.cols.iter().any(|o| o.ty == c.ty && o.name != c.name) {
                let os: Vec<&ColDef> = def.cols.iter().filter(|o| o.ty == c.ty && o.name != c.name).collect();
                col(&self.rng.pick(&os).name)
            } else {
                let bad = if want_fail { self.pick_bad(def, &[c.name.clone()], !rows.is_empty()) } else { None };
                let mut taken = HashMap::new();
                let one = self.gen_row(def, model, &names[ci..ci + 1].to_vec(), bad, &mut taken);
                one[0].clone()
            };
            sets.push((c.name.clone(), e));
        }
        // a literal assigned to a key column makes sense for a single row only
        if sets.iter().any(|(n, e)| matches!(e, E::Lit(_)) && { let c = &def.cols[def.col_idx(n).unwrap()]; c.unique || is_pk_col(def, c) }) && !want_fail && def.pk.len() == 1 && !rows.is_empty() && self.rng.chance(3, 4) {
            let ci = def.col_idx(&def.pk[0]).unwrap();
            where_ = Some(bin(BinOp::Eq, col(&def.pk[0]), E::Lit(self.rng.pick(&rows)[ci].clone())));
        }
        Stmt::Update { table: def.name.clone(), sets, where_, returning }
    }

    pub fn gen_stmt(&mut self, model: &MDb) -> Stmt {
        let ti = self.rng.below(self.tables.len() as u64) as usize;
        let def = self.tables[ti].clone();
        let tk = def.name.to_lowercase();
        let rows: Vec<Row> = model.st.tables.get(&tk).map(|x| x.1.clone()).unwrap_or_default();
        let gone: Vec<Row> = model.st.gone.get(&tk).cloned().unwrap_or_default();
        let r = self.rng.below(100);
        // transaction control
        let txn_w = if self.focus == Focus::Txn {
            30
        } else if self.feat.txn {
            8
        } else {
            0
        };
        if r < txn_w {
            if !self.in_txn {
                self.in_txn = true;
                return Stmt::Begin;
            }
            let k = self.rng.below(10);
            if k < 3 {
                let n = format!("sp{}", self.next_sp);
                self.next_sp += 1;
                self.open_sp.push(n.clone());
                return Stmt::Savepoint(n);
            }
            if k < 6 && !self.open_sp.is_empty() {
                let i = self.rng.below(self.open_sp.len() as u64) as usize;
                let n = self.open_sp[i].clone();
                self.open_sp.truncate(i + 1);
                return Stmt::RollbackTo(n);
            }
            if k < 7 && !self.open_sp.is_empty() {
                let i = self.rng.below(self.open_sp.len() as u64) as usize;
                let n = self.open_sp[i].clone();
                self.open_sp.truncate(i);
                return Stmt::Release(n);
            }
            self.in_txn = false;
            self.open_sp.clear();
            return if k < 9 { Stmt::Rollback } else { Stmt::Commit };
        }
        let heavy = matches!(self.focus, Focus::Failing | Focus::Constraints);
        let want_fail = heavy && self.rng.chance(if self.focus == Focus::Failing { 2 } else { 1 }, 5);
        // keep tables populated: an empty table gets an INSERT most of the time
        let ins_w = if rows.len() < 3 { 70 } else if rows.len() > 25 { 30 } else { 48 };
        if r < ins_w {
            return self.gen_insert(&def, model, want_fail);
        }
        if r < ins_w + (100 - ins_w) * 5 / 10 {
            return self.gen_update(&def, model, want_fail);
        }
        if r < 97 || !self.feat.truncate || (self.in_txn && self.focus != Focus::Txn) {
            let where_ = self.gen_where(&def, &rows, &gone);
            return Stmt::Delete { table: def.name.clone(), where_, returning: self.feat.returning && self.rng.chance(1, 3) };
        }
        Stmt::Truncate(def.name.clone())
    }
}

pub fn gen_history(seed: u64, focus: Focus, max_stmts: usize) -> Vec<Stmt> {
    let mut g = Gen::new(seed, focus);
    let mut stmts = g.gen_schema();
    let mut model = MDb::default();
    for s in &stmts {
        let _ = model.apply(s);
    }
    let n = g.rng.usize(max_stmts / 3, max_stmts);
    let mut unsupported = 0;
    for _ in 0..n {
        let s = g.gen_stmt(&model);
        match model.apply(&s) {
            Ok(_) | Err(MErr::Error(_)) => stmts.push(s),
            Err(MErr::Unsupported(_)) => {
                unsupported += 1;
                if unsupported > 20 {
                    break;
                }
            }
        }
    }
    if g.in_txn && g.rng.chance(1, 2) {
        stmts.push(if g.rng.chance(1, 2) { Stmt::Commit } else { Stmt::Rollback });
    }
    stmts
}

// ---------------------------------------------------------------- observation + diagnosis

fn short(v: &V) -> J {
    match v {
        V::Text(s) if s.len() > 40 => json!(format!("{}..[{} bytes]", &s[..12], s.len())),
        other => other.to_json(),
    }
}

fn rows_short(rows: &[Row], max: usize) -> J {
    J::Array(rows.iter().take(max).map(|r| J::Array(r.iter().map(short).collect())).collect())
}

/// multiset difference a − b (by canonical row key)
fn bag_minus(a: &[Row], b: &[Row]) -> Vec<Row> {
    let mut m: HashMap<String, i64> = HashMap::new();
    for r in b {
        *m.entry(row_key(r, true)).or_insert(0) += 1;
    }
    let mut out = vec![];
    for r in a {
        let k = row_key(r, true);
        match m.get_mut(&k) {
            Some(c) if *c > 0 => *c -= 1,
            _ => out.push(r.clone()),
        }
    }
    out
}

fn neg_num(v: &V) -> bool {
    match v {
        V::Int(i) => *i < 0,
        V::Float(f) => *f < 0.0,
        _ => false,
    }
}

/// pair each missing row with the closest extra row and name what differs
fn classify_pairs(def: &TableDef, missing: &[Row], extra: &[Row]) -> BTreeSet<String> {
    let mut tags = BTreeSet::new();
    let mut pool: Vec<Row> = extra.to_vec();
    for m in missing {
        if pool.is_empty() {
            break;
        }
        let dist = |e: &Row| (0..m.len().min(e.len())).filter(|i| m[*i].key(true) != e[*i].key(true)).count();
        let (bi, _) = pool.iter().enumerate().min_by_key(|(_, e)| dist(e)).unwrap();
        let e = pool.remove(bi);
        if m.len() != e.len() {
            tags.insert("row_width".into());
            continue;
        }
        let diff: Vec<usize> = (0..m.len()).filter(|i| m[*i].key(true) != e[*i].key(true)).collect();
        if diff.len() == m.len() && m.len() > 1 {
            tags.insert("unrelated_rows".into());
            continue;
        }
        for ci in diff {
            let c = &def.cols[ci];
            let (w, g) = (&m[ci], &e[ci]);
            let dflt_eq = |x: &V| c.default.as_ref().map(|d| d.key(true) == x.key(true)).unwrap_or(false);
            let t = if w.is_null() && !g.is_null() && dflt_eq(g) {
                "null_replaced_by_default".to_string()
            } else if g.is_null() && !w.is_null() && dflt_eq(w) {
                if neg_num(w) { "negative_default_lost".to_string() } else { "default_not_applied".to_string() }
            } else if c.auto_inc {
                "autoinc_value".into()
            } else if is_large(w) || is_large(g) {
                "large_text_value".into()
            } else if is_pk_col(def, c) {
                "pk_value".into()
            } else {
                format!("{}_value", match c.ty {
                    Ty::Int => "int",
                    Ty::Float => "float",
                    Ty::Text => "text",
                    Ty::Bool => "bool",
                })
            };
            tags.insert(t);
        }
    }
    tags
}

/// statement kind used in signatures (single- and multi-row INSERT share one kind; the row position is a trait)
fn kind0(s: &Stmt) -> &'static str {
    match s {
        Stmt::Insert { .. } => "insert",
        other => other.kind(),
    }
}

fn stmt_table(s: &Stmt) -> Option<&str> {
    match s {
        Stmt::CreateTable(d) => Some(&d.name),
        Stmt::DropTable(t) | Stmt::Truncate(t) => Some(t),
        Stmt::CreateIndex { table, .. } | Stmt::Insert { table, .. } | Stmt::Update { table, .. } | Stmt::Delete { table, .. } => Some(table),
        _ => None,
    }
}

/// rows of the graveyard that the statement's WHERE matches (what a scan that does not skip tombstones would see)
fn dead_matches(before: &MDb, s: &Stmt) -> Vec<Row> {
    let (table, where_) = match s {
        Stmt::Update { table, where_, .. } | Stmt::Delete { table, where_, .. } => (table, where_),
        _ => return vec![],
    };
    let k = table.to_lowercase();
    let gone = before.st.gone.get(&k).cloned().unwrap_or_default();
    if gone.is_empty() {
        return vec![];
    }
    // evaluate the WHERE on a copy of the model that holds only the dead rows
    let mut m = before.clone();
    m.txn = None;
    if let Some(t) = m.st.tables.get_mut(&k) {
        t.0.fks.clear();
        t.0.pk.clear();
        t.0.indexes.clear();
        for c in t.0.cols.iter_mut() {
            c.unique = false;
            c.not_null = false;
            c.check = None;
        }
        t.1 = gone;
    }
    for (_, t) in m.st.tables.iter_mut() {
        t.0.fks.clear();
    }
    let probe = Stmt::Delete { table: table.clone(), where_: where_.clone(), returning: true };
    match m.apply(&probe) {
        Ok(eff) => eff.returning.unwrap_or_default(),
        Err(_) => vec![],
    }
}

/// the dead rows as the UPDATE would rewrite them
fn dead_updated(before: &MDb, s: &Stmt) -> Vec<Row> {
    if let Stmt::Update { table, sets, where_, .. } = s {
        let k = table.to_lowercase();
        let dead = dead_matches(before, s);
        if dead.is_empty() {
            return vec![];
        }
        let mut m = before.clone();
        m.txn = None;
        for (_, t) in m.st.tables.iter_mut() {
            t.0.fks.clear();
        }
        if let Some(t) = m.st.tables.get_mut(&k) {
            t.0.pk.clear();
            t.0.indexes.clear();
            for c in t.0.cols.iter_mut() {
                c.unique = false;
                c.not_null = false;
                c.check = None;
            }
            t.1 = dead;
        }
        let probe = Stmt::Update { table: table.clone(), sets: sets.clone(), where_: where_.clone(), returning: true };
        if let Ok(eff) = m.apply(&probe) {
            return eff.returning.unwrap_or_default();
        }
    }
    vec![]
}

/// the table as it would look if literal SET items were applied first and the other SET expressions were then
/// evaluated on the already modified row (a known wrong evaluation order; used to name the difference)
fn set_order_emulation(before: &MDb, s: &Stmt) -> Option<Vec<Row>> {
    if let Stmt::Update { table, sets, where_, .. } = s {
        let (lits, exprs): (Vec<_>, Vec<_>) = sets.iter().cloned().partition(|(_, e)| matches!(e, E::Lit(_)));
        if lits.is_empty() || exprs.is_empty() {
            return None;
        }
        let tk = table.to_lowercase();
        let mut m = before.clone();
        m.txn = None;
        for (_, t) in m.st.tables.iter_mut() {
            t.0.fks.clear();
            t.0.pk.clear();
            t.0.indexes.clear();
            for c in t.0.cols.iter_mut() {
                c.unique = false;
                c.not_null = false;
                c.check = None;
            }
        }
        // tag the matching rows through two passes: first pass = literals, second pass = expressions on the same rows
        let rows = m.st.tables.get(&tk)?.1.clone();
        let mut out = vec![];
        for r in rows {
            let mut one = m.clone();
            one.st.tables.get_mut(&tk)?.1 = vec![r.clone()];
            let hit = one.apply(&Stmt::Update { table: table.clone(), sets: lits.clone(), where_: where_.clone(), returning: false }).ok()?.rows_affected? == 1;
            if hit {
                one.apply(&Stmt::Update { table: table.clone(), sets: exprs.clone(), where_: None, returning: false }).ok()?;
            }
            out.push(one.st.tables[&tk].1[0].clone());
        }
        return Some(out);
    }
    None
}

struct Obs {
    tables: BTreeMap<String, Result<Vec<Row>, String>>,
    counts: BTreeMap<String, Result<i64, String>>,
}

fn observe(db: &mut Db, model: &MDb) -> Obs {
    let mut o = Obs { tables: BTreeMap::new(), counts: BTreeMap::new() };
    for (k, (def, _)) in &model.st.tables {
        o.tables.insert(k.clone(), db.query(&format!("SELECT * FROM {}", def.name)));
        let c = db.query(&format!("SELECT COUNT(*) FROM {}", def.name)).map(|r| r.first().and_then(|r| r.first()).and_then(|v| v.as_f64()).unwrap_or(-1.0) as i64);
        o.counts.insert(k.clone(), c);
    }
    o
}

/// compare the observed state with the model; the first difference gives the primary violation,
/// constraint violations of TurDB's own state are reported in addition (class `constraint`)
fn judge_state(o: &Obs, model: &MDb, before: &MDb, i: usize, s: &Stmt, assertion: &str, class: &'static str, why: Option<&str>, delta: &BTreeMap<String, i64>) -> Vec<Viol> {
    let mut out = vec![];
    let kind = kind0(s);
    let txn = if model.in_txn() { "+in_txn" } else { "" };
    let _ = txn;
    for (k, (def, want)) in &model.st.tables {
        let got = match &o.tables[k] {
            Ok(g) => g,
            Err(e) => {
                let core = if is_panic(e) { format!("scan_panic/{}", panic_tag(e)) } else { format!("scan_error_after_{}:{}", kind, err_class(e)) };
                out.push(viol(if is_panic(e) { "panic" } else { class }, assertion, core, i, json!({"table": k, "error": e, "sql": s.sql()})));
                break;
            }
        };
        let missing = bag_minus(want, got);
        let extra = bag_minus(got, want);
        if !missing.is_empty() || !extra.is_empty() {
            let other = stmt_table(s).map(|t| !t.eq_ignore_ascii_case(&def.name)).unwrap_or(false);
            let gone_before = before.st.gone.get(k).cloned().unwrap_or_default();
            let mut a = assertion.to_string();
            let mut core: String;
            if class == "error_atomicity" {
                // what did the failed statement leave behind?
                let effect = match s {
                    Stmt::Insert { table, cols, rows, returning } if missing.is_empty() => {
                        let mut eff = "rows_persist".to_string();
                        if let Some((kf, _)) = before.first_failing_row(s) {
                            let prefix = Stmt::Insert { table: table.clone(), cols: cols.clone(), rows: rows[..kf].to_vec(), returning: *returning };
                            let mut m = before.clone();
                            if kf > 0 && m.apply(&prefix).is_ok() {
                                let new = bag_minus(&m.st.tables[k].1, &before.st.tables[k].1);
                                if bag_minus(&extra, &new).is_empty() && bag_minus(&new, &extra).is_empty() {
                                    eff = "rows_before_failing_row_persist".into();
                                }
                            } else if kf == 0 {
                                eff = "rows_after_failing_row_persist".into();
                            }
                        }
                        eff
                    }
                    _ => {
                        if missing.is_empty() {
                            "rows_added".to_string()
                        } else if extra.is_empty() {
                            "rows_lost".to_string()
                        } else if missing.len() == extra.len() {
                            "rows_changed".to_string()
                        } else {
                            "rows_changed_and_count_differs".to_string()
                        }
                    }
                };
                core = format!("{}/{}/{}", kind, effect, why.unwrap_or("error").split(':').next().unwrap_or("error"));
            } else if !extra.is_empty() && missing.is_empty() && bag_minus(&extra, &gone_before).is_empty() {
                a = "no_resurrection".into();
                core = format!("{}:deleted_rows_reappear", kind);
            } else if !extra.is_empty() && missing.is_empty() && matches!(s, Stmt::Update { .. }) && !other && bag_minus(&extra, &dead_updated(before, s)).is_empty() {
                a = "no_resurrection".into();
                core = "update:rewrites_deleted_rows".into();
            } else if !other && matches!(s, Stmt::Update { .. }) && set_order_emulation(before, s).map(|alt| bag_minus(&alt, got).is_empty() && bag_minus(got, &alt).is_empty()).unwrap_or(false) {
                core = "update:set_expression_sees_values_assigned_by_the_same_statement".into();
            } else if missing.len() == extra.len() {
                let tags = classify_pairs(def, &missing, &extra);
                core = format!("{}:{}", kind, tags.into_iter().collect::<Vec<_>>().join("+"));
            } else if extra.is_empty() {
                core = format!("{}:rows_missing", kind);
            } else if missing.is_empty() {
                core = format!("{}:rows_extra", kind);
            } else {
                core = format!("{}:rows_missing_and_extra", kind);
            }
            if other {
                core.push_str(":in_other_table");
            }
            out.push(viol(class, &a, core, i, json!({"table": k, "sql": s.sql(), "got_rows": got.len(), "want_rows": want.len(), "missing": rows_short(&missing, 4), "extra": rows_short(&extra, 4), "got": rows_short(got, 8), "want": rows_short(want, 8)})));
            break;
        }
        match &o.counts[k] {
            Ok(n) => {
                // `delta`: COUNT(*) drift already reported at an earlier resynchronisation of this history
                let want_n = want.len() as i64 + delta.get(k).copied().unwrap_or(0);
                if *n != want_n {
                    let dir = if *n > want_n { "over" } else { "under" };
                    let core = if class == "error_atomicity" { format!("{}/count_star_{}/{}", kind, dir, why.unwrap_or("error").split(':').next().unwrap_or("error")) } else { format!("count_star_{}_after_{}", dir, kind) };
                    let own = class == "error_atomicity" || class == "rollback";
                    let core = if class == "rollback" { format!("count_star_{}_after_{}", dir, kind) } else { core };
                    out.push(viol(if own { class } else { "count_star" }, if own { assertion } else { "count_star_equals_visible_rows" }, core, i, json!({"table": k, "sql": s.sql(), "count_star": n, "visible_rows": want.len()})));
                    break;
                }
            }
            Err(e) => {
                out.push(viol(if is_panic(e) { "panic" } else { "count_star" }, "count_star_equals_visible_rows", format!("count_error_after_{}:{}", kind, err_class(e)), i, json!({"error": e})));
                break;
            }
        }
    }
    // declared constraints evaluated on the state TurDB shows
    let dumped: BTreeMap<String, Vec<Row>> = o.tables.iter().filter_map(|(k, r)| r.as_ref().ok().map(|r| (k.clone(), r.clone()))).collect();
    if dumped.len() == o.tables.len() {
        let v = model.state_violations(&dumped);
        if !v.is_empty() {
            let kinds: BTreeSet<String> = v.iter().map(|x| x.split(':').nth(1).unwrap_or("").to_string()).collect();
            out.push(viol("constraint", "state_satisfies_constraints", format!("after_{}:{}", kind, kinds.into_iter().collect::<Vec<_>>().join("+")), i, json!({"sql": s.sql(), "violated": v})));
        }
    }
    out
}

pub struct RunOut {
    /// first violation (the history stops there)
    pub viol: Option<Viol>,
    /// further violations established at the same statement (other sub-assertions)
    pub extra: Vec<Viol>,
    pub executed: usize,
    pub dropped_unsupported: bool,
    pub kinds: BTreeMap<String, u64>,
    /// coverage facts measured on the model while executing
    pub cov: BTreeMap<String, u64>,
    pub failing_stmts: u64,
    pub rollbacks: u64,
}

fn bump(m: &mut BTreeMap<String, u64>, k: &str) {
    *m.entry(k.to_string()).or_insert(0) += 1;
}

/// coverage facts of one statement, evaluated on the model state before it
fn coverage(cov: &mut BTreeMap<String, u64>, before: &MDb, s: &Stmt, m: &Result<crate::sqlm::dml::Effect, MErr>) {
    let tk = stmt_table(s).map(|t| t.to_lowercase()).unwrap_or_default();
    let def = before.st.tables.get(&tk).map(|x| x.0.clone());
    let live = before.st.tables.get(&tk).map(|x| x.1.len()).unwrap_or(0);
    let has_gone = before.st.gone.get(&tk).map(|g| !g.is_empty()).unwrap_or(false);
    if let Some(d) = &def {
        if matches!(s, Stmt::Insert { .. } | Stmt::Update { .. } | Stmt::Delete { .. }) {
            bump(cov, if d.pk.is_empty() { "dml_on_table_without_pk" } else { "dml_on_table_with_pk" });
            if !d.indexes.is_empty() {
                bump(cov, "dml_on_indexed_table");
            }
            if before.in_txn() {
                bump(cov, "dml_inside_transaction");
            }
        }
    }
    let mut large = false;
    let mut see = |e: &E| e.visit(&mut |x| if let E::Lit(v) = x { large |= is_large(v) });
    match s {
        Stmt::Insert { rows, .. } => rows.iter().flatten().for_each(|e| see(e)),
        Stmt::Update { sets, .. } => sets.iter().for_each(|(_, e)| see(e)),
        _ => {}
    }
    if large {
        bump(cov, "statements_with_text_over_900_bytes");
    }
    match s {
        Stmt::Delete { where_, .. } => {
            if !dead_matches(before, s).is_empty() {
                bump(cov, "delete_matching_already_deleted_rows");
            }
            if where_.is_none() && live > 0 {
                bump(cov, "delete_all_rows");
            }
            if let Some(d) = &def {
                let referenced = before.st.tables.values().any(|(c, rows)| c.fks.iter().any(|f| f.ref_table.eq_ignore_ascii_case(&d.name)) && !rows.is_empty());
                if referenced && matches!(m, Ok(e) if e.rows_affected.unwrap_or(0) > 0) {
                    bump(cov, "parent_delete_accepted_by_model");
                }
                if referenced && matches!(m, Err(MErr::Error(w)) if w.contains("restrict")) {
                    bump(cov, "parent_delete_restricted_by_model");
                }
            }
        }
        Stmt::Update { sets, .. } => {
            if !dead_matches(before, s).is_empty() {
                bump(cov, "update_matching_already_deleted_rows");
            }
            if let Some(d) = &def {
                if sets.iter().any(|(c, _)| d.pk.iter().any(|p| p.eq_ignore_ascii_case(c)) || d.col_idx(c).map(|i| d.cols[i].unique).unwrap_or(false)) {
                    bump(cov, "update_of_key_column");
                }
                if sets.iter().any(|(c, _)| d.fks.iter().any(|f| f.col.eq_ignore_ascii_case(c))) {
                    bump(cov, "update_of_fk_column");
                }
            }
            if let (Err(MErr::Error(_)), Ok(n)) = (m, {
                let mut mm = before.clone();
                for (_, t) in mm.st.tables.iter_mut() {
                    t.0.fks.clear();
                    t.0.pk.clear();
                    t.0.indexes.clear();
                    for c in t.0.cols.iter_mut() {
                        c.unique = false;
                        c.not_null = false;
                        c.check = None;
                    }
                }
                mm.apply(s).map(|e| e.rows_affected.unwrap_or(0))
            }) {
                if n > 1 {
                    bump(cov, "multi_row_update_rejected_by_model");
                }
            }
        }
        Stmt::Insert { rows, .. } => {
            if has_gone && live == 0 {
                bump(cov, "insert_into_emptied_table");
            }
            if let Some(d) = &def {
                if d.pk.len() == 1 {
                    let pi = d.col_idx(&d.pk[0]).unwrap();
                    if let Ok(_) = m {
                        let gk: BTreeSet<String> = before.st.gone.get(&tk).map(|g| g.iter().map(|r| r[pi].key(true)).collect()).unwrap_or_default();
                        let mut mm = before.clone();
                        if mm.apply(s).is_ok() {
                            let new = bag_minus(&mm.st.tables[&tk].1, &before.st.tables[&tk].1);
                            if new.iter().any(|r| gk.contains(&r[pi].key(true))) {
                                bump(cov, "reinsert_of_deleted_key");
                            }
                        }
                    }
                }
                for f in &d.fks {
                    let ci = d.col_idx(&f.col).unwrap();
                    let _ = ci;
                }
            }
            if rows.len() > 1 {
                if let Some((k, n)) = before.first_failing_row(s) {
                    bump(cov, &format!("multi_row_insert_failing_at_{}", if k == 0 { "first" } else if k + 1 == n { "last" } else { "middle" }));
                }
            }
        }
        Stmt::Truncate(_) => bump(cov, "truncate"),
        _ => {}
    }
}

/// run a history on a fresh database; stops at the first violation
pub fn run_history(scratch: &Scratch, tag: &str, stmts: &[Stmt]) -> RunOut {
    run_history_opt(scratch, tag, stmts, false)
}

/// `fast`: the full state is observed only after the last statement and after statements both sides reject
/// (used for minimisation candidates; the result is re-checked with a full run)
fn run_history_opt(scratch: &Scratch, tag: &str, stmts: &[Stmt], fast: bool) -> RunOut {
    let mut pending: Vec<Viol> = vec![];
    let mut out = run_history_inner(scratch, tag, stmts, fast, &mut pending);
    if !pending.is_empty() {
        let mut all = pending;
        if let Some(v) = out.viol.take() {
            all.push(v);
        }
        all.extend(out.extra.drain(..));
        out.viol = Some(all.remove(0));
        out.extra = all;
    }
    out
}

/// `pending`: violations after which the history went on. A failed statement that left rows behind
/// (error_atomicity) does not end the history: the model is re-synchronised with the state TurDB shows, so
/// that the rest of the history stays sensitive to other defects (at most 2 such resynchronisations).
fn run_history_inner(scratch: &Scratch, tag: &str, stmts: &[Stmt], fast: bool, pending: &mut Vec<Viol>) -> RunOut {
    let mut out = RunOut { viol: None, extra: vec![], executed: 0, dropped_unsupported: false, kinds: BTreeMap::new(), cov: BTreeMap::new(), failing_stmts: 0, rollbacks: 0 };
    let mut db = match Db::create(&scratch.dir(tag)) {
        Ok(d) => d,
        Err(e) => {
            out.viol = Some(viol("setup", "create_database", "create_failed".into(), 0, json!({"error": e})));
            return out;
        }
    };
    let mut model = MDb::default();
    let mut delta: BTreeMap<String, i64> = BTreeMap::new();
    let finish = |out: &mut RunOut, mut vs: Vec<Viol>| {
        if !vs.is_empty() {
            out.viol = Some(vs.remove(0));
            out.extra = vs;
        }
    };
    for (i, s) in stmts.iter().enumerate() {
        let before = model.clone();
        let m = model.apply(s);
        if let Err(MErr::Unsupported(_)) = &m {
            out.dropped_unsupported = true;
            return out;
        }
        out.executed = i + 1;
        if let Stmt::Truncate(t) = s {
            delta.remove(&t.to_lowercase());
        }
        *out.kinds.entry(s.kind().to_string()).or_insert(0) += 1;
        coverage(&mut out.cov, &before, s, &m);
        let got = db.exec(&s.sql());
        if let Err(e) = &got {
            if is_panic(e) {
                out.viol = Some(viol("panic", "no_panic", format!("{}/{}", kind0(s), panic_tag(e)), i, json!({"sql": s.sql(), "panic": e})));
                return out;
            }
        }
        match (&m, &got) {
            (Ok(eff), Ok(o)) => {
                if let (Some(want), Outcome::Dml(n, ret)) = (eff.rows_affected, o) {
                    if !matches!(s, Stmt::Truncate(_)) && *n != want {
                        let dead = dead_matches(&before, s).len();
                        let core = if *n > want && dead > 0 && *n == want + dead { format!("{}_counts_deleted_rows", kind0(s)) } else { format!("{}_rows_affected_{}", kind0(s), if *n > want { "over" } else { "under" }) };
                        out.viol = Some(viol("dml_result", "rows_affected", core, i, json!({"sql": s.sql(), "got": n, "want": want, "deleted_rows_matching_where": dead})));
                        return out;
                    }
                    if let Some(wr) = &eff.returning {
                        match ret {
                            Some(gr) => {
                                let missing = bag_minus(wr, gr);
                                let extra = bag_minus(gr, wr);
                                if !missing.is_empty() || !extra.is_empty() {
                                    let tk = stmt_table(s).unwrap_or("").to_lowercase();
                                    let def = before.st.tables[&tk].0.clone();
                                    let dead = if matches!(s, Stmt::Update { .. }) { dead_updated(&before, s) } else { dead_matches(&before, s) };
                                    let core = if missing.is_empty() && bag_minus(&extra, &dead).is_empty() {
                                        format!("{}_returns_deleted_rows", kind0(s))
                                    } else if missing.len() == extra.len() {
                                        format!("{}_returning:{}", kind0(s), classify_pairs(&def, &missing, &extra).into_iter().collect::<Vec<_>>().join("+"))
                                    } else {
                                        format!("{}_returning:{}", kind0(s), if extra.is_empty() { "rows_missing" } else if missing.is_empty() { "rows_extra" } else { "rows_missing_and_extra" })
                                    };
                                    out.viol = Some(viol("dml_result", "returning", core, i, json!({"sql": s.sql(), "missing": rows_short(&missing, 4), "extra": rows_short(&extra, 4)})));
                                    return out;
                                }
                            }
                            None => {
                                out.viol = Some(viol("dml_result", "returning", format!("{}_returning_absent", kind0(s)), i, json!({"sql": s.sql()})));
                                return out;
                            }
                        }
                    }
                }
                if matches!(s, Stmt::Rollback | Stmt::RollbackTo(_)) {
                    out.rollbacks += 1;
                    let o = observe(&mut db, &model);
                    let vs = judge_state(&o, &model, &before, i, s, "rollback_restores_state", "rollback", None, &delta);
                    if !vs.is_empty() {
                        finish(&mut out, vs);
                        return out;
                    }
                } else if s.is_mutation() && (!fast || i + 1 == stmts.len()) {
                    let o = observe(&mut db, &model);
                    let vs = judge_state(&o, &model, &before, i, s, "state_matches_model", "state", None, &delta);
                    if !vs.is_empty() {
                        finish(&mut out, vs);
                        return out;
                    }
                }
            }
            (Err(MErr::Error(why)), Err(_e)) => {
                // both reject: the visible state must be exactly what it was (model.apply left the model untouched)
                out.failing_stmts += 1;
                let why = why.replace("constraint:", "").replace(' ', "_");
                let o = observe(&mut db, &model);
                let vs = judge_state(&o, &model, &before, i, s, "unchanged_after_error", "error_atomicity", Some(&why), &delta);
                let resync = !vs.is_empty() && vs[0].class == "error_atomicity" && i + 1 != stmts.len() && pending.iter().filter(|v| v.assertion == "unchanged_after_error").count() < 2 && o.tables.values().all(|t| t.is_ok());
                // the state TurDB shows must itself satisfy the declared constraints, else the model cannot adopt it
                let adoptable = resync && {
                    let dumped: BTreeMap<String, Vec<Row>> = o.tables.iter().filter_map(|(k, r)| r.as_ref().ok().map(|r| (k.clone(), r.clone()))).collect();
                    model.state_violations(&dumped).is_empty()
                };
                if adoptable {
                    pending.extend(vs.into_iter().filter(|v| v.class == "error_atomicity"));
                    for (k, rows) in &o.tables {
                        if let (Some(t), Ok(rows)) = (model.st.tables.get_mut(k), rows) {
                            t.1 = rows.clone();
                            if let Some(Ok(c)) = o.counts.get(k) {
                                delta.insert(k.clone(), *c - rows.len() as i64);
                            }
                            if t.0.cols.iter().any(|c| c.auto_inc) {
                                model.ai_uncertain.insert(k.clone());
                            }
                        }
                    }
                    bump(&mut out.cov, "model_resynchronised_after_non_atomic_failure");
                    continue;
                }
                if !vs.is_empty() {
                    finish(&mut out, vs);
                    return out;
                }
            }
            (Ok(_), Err(e)) => {
                // a rejection that names a constraint belongs to "constraints hold exactly"; any other error on a valid
                // statement is a wrong DML result
                let dml = matches!(s, Stmt::Insert { .. } | Stmt::Update { .. } | Stmt::Delete { .. });
                let el = e.to_lowercase();
                let names_constraint = ["constraint", "violat", "referenced", "unique", "foreign key", "not null", "primary key", "check"].iter().any(|w| el.contains(w));
                let class = if dml && names_constraint { "constraint" } else { "dml_result" };
                // facts that tell apart the usual suspects
                let mut core = format!("{}_rejected:{}", kind0(s), err_class2(e));
                if let Stmt::Update { table, sets, .. } = s {
                    // would a row-at-a-time check see a duplicate that the final state does not have?
                    let tk = table.to_lowercase();
                    let (def, rows) = &before.st.tables[&tk];
                    let keyed: Vec<usize> = sets.iter().filter_map(|(c, _)| def.col_idx(c)).filter(|i| def.cols[*i].unique || is_pk_col(def, &def.cols[*i])).collect();
                    let after = &model.st.tables[&tk].1;
                    let (mut own, mut others) = (false, false);
                    if after.len() == rows.len() {
                        for j in 0..rows.len() {
                            if row_key(&after[j], true) == row_key(&rows[j], true) {
                                continue;
                            }
                            for ci in &keyed {
                                if after[j][*ci].is_null() {
                                    continue;
                                }
                                let k = after[j][*ci].key(true);
                                if rows[j][*ci].key(true) == k {
                                    own = true;
                                } else if rows.iter().enumerate().any(|(x, b)| x != j && b[*ci].key(true) == k) {
                                    others = true;
                                }
                            }
                        }
                    }
                    if others {
                        core.push_str(":new_key_equals_another_rows_old_key");
                    } else if own {
                        core.push_str(":key_assigned_its_own_value");
                    }
                }
                out.viol = Some(viol(class, if class == "constraint" { "valid_statement_accepted" } else { "ok_vs_err" }, core, i, json!({"sql": s.sql(), "error": e})));
                return out;
            }
            (Err(MErr::Error(why)), Ok(o)) => {
                let mut why = why.replace("constraint:", "").replace(' ', "_");
                if why.starts_with("check") {
                    // which CHECK form was violated?
                    let tk = stmt_table(s).unwrap_or("").to_lowercase();
                    if let Some((def, _)) = before.st.tables.get(&tk) {
                        let forms: BTreeSet<String> = def.cols.iter().filter_map(|c| c.check.as_ref()).map(check_form).collect();
                        if forms.len() == 1 {
                            why = format!("check:{}", forms.into_iter().next().unwrap());
                        }
                    }
                }
                let mut vs = vec![viol("constraint", "invalid_statement_rejected", format!("{}_accepted_despite_{}", kind0(s), why), i, json!({"sql": s.sql(), "outcome": format!("{:?}", o).chars().take(200).collect::<String>()}))];
                // what does TurDB's state look like now? (the model kept the old state)
                let ob = observe(&mut db, &model);
                let dumped: BTreeMap<String, Vec<Row>> = ob.tables.iter().filter_map(|(k, r)| r.as_ref().ok().map(|r| (k.clone(), r.clone()))).collect();
                let sv = model.state_violations(&dumped);
                if !sv.is_empty() {
                    let kinds: BTreeSet<String> = sv.iter().map(|x| x.split(':').nth(1).unwrap_or("").to_string()).collect();
                    vs.push(viol("constraint", "state_satisfies_constraints", format!("after_{}:{}", kind0(s), kinds.into_iter().collect::<Vec<_>>().join("+")), i, json!({"sql": s.sql(), "violated": sv})));
                }
                finish(&mut out, vs);
                return out;
            }
            (Err(MErr::Unsupported(_)), _) => unreachable!(),
        }
    }
    out
}

// ---------------------------------------------------------------- minimisation

fn matches_target(o: &RunOut, t: &Viol) -> Option<Viol> {
    o.viol.iter().chain(o.extra.iter()).find(|v| v.class == t.class && v.assertion == t.assertion && v.core == t.core).cloned()
}

fn refs_col(e: &E, name: &str) -> bool {
    let mut f = false;
    e.visit(&mut |x| {
        if let E::Col { name: n, .. } = x {
            f |= n.eq_ignore_ascii_case(name)
        }
    });
    f
}

/// remove a column from a table and from every statement; None if some statement needs the column
fn drop_col(stmts: &[Stmt], table: &str, cname: &str) -> Option<Vec<Stmt>> {
    let mut out = vec![];
    let mut idx_in_table = None;
    for s in stmts {
        let on_t = stmt_table(s).map(|t| t.eq_ignore_ascii_case(table)).unwrap_or(false);
        match s {
            Stmt::CreateTable(d) if on_t => {
                let mut d = d.clone();
                let ci = d.col_idx(cname)?;
                if d.cols.len() <= 1 {
                    return None;
                }
                idx_in_table = Some(ci);
                d.cols.remove(ci);
                d.pk.retain(|p| !p.eq_ignore_ascii_case(cname));
                d.fks.retain(|f| !f.col.eq_ignore_ascii_case(cname));
                if d.cols.iter().any(|c| c.check.as_ref().map(|e| refs_col(e, cname)).unwrap_or(false)) {
                    return None;
                }
                out.push(Stmt::CreateTable(d));
            }
            Stmt::CreateTable(d) => {
                if d.fks.iter().any(|f| f.ref_table.eq_ignore_ascii_case(table) && f.ref_col.eq_ignore_ascii_case(cname)) {
                    return None;
                }
                out.push(s.clone());
            }
            Stmt::CreateIndex { cols, .. } if on_t => {
                if !cols.iter().any(|c| c.eq_ignore_ascii_case(cname)) {
                    out.push(s.clone());
                }
            }
            Stmt::Insert { table: t, cols, rows, returning } if on_t => {
                let pos = match cols {
                    Some(c) => c.iter().position(|x| x.eq_ignore_ascii_case(cname)),
                    None => idx_in_table,
                };
                let mut cols = cols.clone();
                let mut rows = rows.clone();
                if let Some(p) = pos {
                    if let Some(c) = cols.as_mut() {
                        c.remove(p);
                        if c.is_empty() {
                            return None;
                        }
                    }
                    for r in rows.iter_mut() {
                        if p < r.len() {
                            r.remove(p);
                        }
                        if r.is_empty() {
                            return None;
                        }
                    }
                }
                out.push(Stmt::Insert { table: t.clone(), cols, rows, returning: *returning });
            }
            Stmt::Update { table: t, sets, where_, returning } if on_t => {
                if where_.as_ref().map(|w| refs_col(w, cname)).unwrap_or(false) {
                    return None;
                }
                let sets: Vec<(String, E)> = sets.iter().filter(|(c, _)| !c.eq_ignore_ascii_case(cname)).cloned().collect();
                if sets.iter().any(|(_, e)| refs_col(e, cname)) {
                    return None;
                }
                if !sets.is_empty() {
                    out.push(Stmt::Update { table: t.clone(), sets, where_: where_.clone(), returning: *returning });
                }
            }
            Stmt::Delete { where_, .. } if on_t => {
                if where_.as_ref().map(|w| refs_col(w, cname)).unwrap_or(false) {
                    return None;
                }
                out.push(s.clone());
            }
            _ => out.push(s.clone()),
        }
    }
    Some(out)
}

/// single-step simplifications of statement `j` (not touching other statements)
fn stmt_variants(stmts: &[Stmt], j: usize) -> Vec<Stmt> {
    let mut v = vec![];
    match &stmts[j] {
        Stmt::Insert { table, cols, rows, returning } => {
            if rows.len() > 1 {
                for r in 0..rows.len() {
                    let mut rr = rows.clone();
                    rr.remove(r);
                    v.push(Stmt::Insert { table: table.clone(), cols: cols.clone(), rows: rr, returning: *returning });
                }
            }
            if *returning {
                v.push(Stmt::Insert { table: table.clone(), cols: cols.clone(), rows: rows.clone(), returning: false });
            }
            if let Some(c) = cols {
                // same statement without a column list: omitted columns get their DEFAULT (or NULL) spelled out
                if let Some(Stmt::CreateTable(d)) = stmts.iter().find(|s| matches!(s, Stmt::CreateTable(d) if d.name.eq_ignore_ascii_case(table))) {
                    let full: Vec<Vec<E>> = rows
                        .iter()
                        .map(|r| d.cols.iter().map(|dc| match c.iter().position(|x| x.eq_ignore_ascii_case(&dc.name)) {
                            Some(p) if p < r.len() => r[p].clone(),
                            _ => E::Lit(dc.default.clone().unwrap_or(V::Null)),
                        }).collect())
                        .collect();
                    v.push(Stmt::Insert { table: table.clone(), cols: None, rows: full, returning: *returning });
                }
            }
        }
        Stmt::Update { table, sets, where_, returning } => {
            if sets.len() > 1 {
                for r in 0..sets.len() {
                    let mut ss = sets.clone();
                    ss.remove(r);
                    v.push(Stmt::Update { table: table.clone(), sets: ss, where_: where_.clone(), returning: *returning });
                }
            }
            if where_.is_some() {
                v.push(Stmt::Update { table: table.clone(), sets: sets.clone(), where_: None, returning: *returning });
            }
            // an expression that yields the same value for every row it is applied to -> that literal
            if sets.iter().any(|(_, e)| !matches!(e, E::Lit(_))) {
                let mut m = MDb::default();
                for s0 in &stmts[..j] {
                    let _ = m.apply(s0);
                }
                m.txn = None;
                let tk = table.to_lowercase();
                for (_, t) in m.st.tables.iter_mut() {
                    t.0.fks.clear();
                    t.0.pk.clear();
                    t.0.indexes.clear();
                    for c in t.0.cols.iter_mut() {
                        c.unique = false;
                        c.not_null = false;
                        c.check = None;
                    }
                }
                let def = m.st.tables.get(&tk).map(|x| x.0.clone());
                if let (Some(def), Ok(eff)) = (def, m.apply(&Stmt::Update { table: table.clone(), sets: sets.clone(), where_: where_.clone(), returning: true })) {
                    let changed = eff.returning.unwrap_or_default();
                    for (si, (c, e)) in sets.iter().enumerate() {
                        if matches!(e, E::Lit(_)) {
                            continue;
                        }
                        if let Some(ci) = def.col_idx(c) {
                            let vals: BTreeSet<String> = changed.iter().map(|r| r[ci].key(false)).collect();
                            if vals.len() == 1 {
                                let mut ss = sets.clone();
                                ss[si].1 = E::Lit(changed[0][ci].clone());
                                v.push(Stmt::Update { table: table.clone(), sets: ss, where_: where_.clone(), returning: *returning });
                            }
                        }
                    }
                }
            }
            if *returning {
                v.push(Stmt::Update { table: table.clone(), sets: sets.clone(), where_: where_.clone(), returning: false });
            }
        }
        Stmt::Delete { table, where_, returning } => {
            if where_.is_some() {
                v.push(Stmt::Delete { table: table.clone(), where_: None, returning: *returning });
            }
            if *returning {
                v.push(Stmt::Delete { table: table.clone(), where_: where_.clone(), returning: false });
            }
        }
        Stmt::CreateTable(d) => {
            let mut push = |f: &dyn Fn(&mut TableDef) -> bool| {
                let mut n = d.clone();
                if f(&mut n) {
                    v.push(Stmt::CreateTable(n));
                }
            };
            push(&|n| {
                let had = !n.pk.is_empty() && !n.cols.iter().any(|c| c.auto_inc);
                n.pk.clear();
                had
            });
            push(&|n| {
                let had = !n.fks.is_empty();
                n.fks.clear();
                had
            });
            push(&|n| {
                let had = n.fks.iter().any(|f| f.on_update_restrict);
                for f in n.fks.iter_mut() {
                    f.on_update_restrict = false;
                }
                had
            });
            push(&|n| {
                let had = n.fks.iter().any(|f| f.on_delete == FkAction::Cascade);
                for f in n.fks.iter_mut() {
                    f.on_delete = FkAction::Restrict;
                }
                had
            });
            for ci in 0..d.cols.len() {
                push(&|n| std::mem::take(&mut n.cols[ci].auto_inc));
                push(&|n| n.cols[ci].default.take().is_some());
                push(&|n| std::mem::take(&mut n.cols[ci].not_null));
                push(&|n| std::mem::take(&mut n.cols[ci].unique));
                push(&|n| n.cols[ci].check.take().is_some());
            }
        }
        _ => {}
    }
    v
}

fn with_where(s: &Stmt, w: Option<E>) -> Stmt {
    match s {
        Stmt::Update { table, sets, returning, .. } => Stmt::Update { table: table.clone(), sets: sets.clone(), where_: w, returning: *returning },
        Stmt::Delete { table, returning, .. } => Stmt::Delete { table: table.clone(), where_: w, returning: *returning },
        other => other.clone(),
    }
}

/// minimise a failing history (already cut at the failing statement): statement list, then inside
/// statements, then the schema; every candidate is re-run on a fresh database and must show the same
/// (class, assertion, core). Returns the minimal history, the violation as observed on it, and the runs used.
pub fn minimize(scratch: &Scratch, tag: &str, stmts: &[Stmt], target: &Viol, budget: usize) -> (Vec<Stmt>, Viol, usize) {
    minimize_until(scratch, tag, stmts, target, budget, None)
}

/// like `minimize`, giving up (returning what was reached) at `stop`
pub fn minimize_until(scratch: &Scratch, tag: &str, stmts: &[Stmt], target: &Viol, budget: usize, stop: Option<std::time::Instant>) -> (Vec<Stmt>, Viol, usize) {
    // fast candidates first; the result must be confirmed by a full run, else minimise again with full runs
    let (small, v, n) = minimize_opt(scratch, tag, stmts, target, budget, true, stop);
    let o = run_history_opt(scratch, tag, &small, false);
    if let Some(cv) = matches_target(&o, target).filter(|v| v.stmt_index + 1 == small.len()) {
        return (small, cv, n + 1);
    }
    let _ = v;
    let (small, v, n2) = minimize_opt(scratch, tag, stmts, target, budget, false, stop);
    (small, v, n + 1 + n2)
}

fn minimize_opt(scratch: &Scratch, tag: &str, stmts: &[Stmt], target: &Viol, budget: usize, fast: bool, stop: Option<std::time::Instant>) -> (Vec<Stmt>, Viol, usize) {
    let mut cur = stmts.to_vec();
    let mut cur_v = target.clone();
    let mut n = 0usize;
    let try_ = |cand: &[Stmt], n: &mut usize| -> Option<Viol> {
        if *n >= budget || cand.is_empty() || stop.map(|t| std::time::Instant::now() > t).unwrap_or(false) {
            *n = budget.max(*n);
            return None;
        }
        *n += 1;
        let o = run_history_opt(scratch, tag, cand, fast);
        matches_target(&o, target).filter(|v| v.stmt_index + 1 == cand.len())
    };
    for _round in 0..2 {
        let before_len = (cur.len(), cur.iter().map(|s| s.sql().len()).sum::<usize>());
        // A. statement list: schema + failing statement only, then ddmin
        let last = cur.len() - 1;
        let keep_fixed = |s: &Stmt| matches!(s, Stmt::CreateTable(_));
        let cand: Vec<Stmt> = cur.iter().enumerate().filter(|(i, s)| *i == last || keep_fixed(s)).map(|(_, s)| s.clone()).collect();
        if cand.len() < cur.len() {
            if let Some(v) = try_(&cand, &mut n) {
                cur = cand;
                cur_v = v;
            }
        }
        let mut chunk = (cur.len() / 2).max(1);
        loop {
            let mut i = 0;
            while i + 1 < cur.len() && n < budget {
                let end = (i + chunk).min(cur.len() - 1);
                let cand: Vec<Stmt> = cur.iter().enumerate().filter(|(j, s)| *j < i || *j >= end || keep_fixed(s)).map(|(_, s)| s.clone()).collect();
                if cand.len() == cur.len() {
                    i += chunk;
                    continue;
                }
                if let Some(v) = try_(&cand, &mut n) {
                    cur = cand;
                    cur_v = v;
                } else {
                    i += chunk;
                }
            }
            if chunk == 1 || n >= budget {
                break;
            }
            chunk /= 2;
        }
        // B. tables nobody uses any more
        let names: Vec<String> = cur.iter().filter_map(|s| if let Stmt::CreateTable(d) = s { Some(d.name.clone()) } else { None }).collect();
        for t in names {
            let used = cur.iter().any(|s| match s {
                Stmt::CreateTable(d) => !d.name.eq_ignore_ascii_case(&t) && d.fks.iter().any(|f| f.ref_table.eq_ignore_ascii_case(&t)),
                other => stmt_table(other).map(|x| x.eq_ignore_ascii_case(&t)).unwrap_or(false),
            });
            if !used {
                let cand: Vec<Stmt> = cur.iter().filter(|s| !matches!(s, Stmt::CreateTable(d) if d.name.eq_ignore_ascii_case(&t))).cloned().collect();
                if let Some(v) = try_(&cand, &mut n) {
                    cur = cand;
                    cur_v = v;
                }
            }
        }
        // C. inside statements (failing statement first), D. schema attributes
        let mut j = cur.len();
        while j > 0 && n < budget {
            j -= 1;
            let mut progress = true;
            while progress && n < budget {
                progress = false;
                for var in stmt_variants(&cur, j) {
                    let mut cand = cur.clone();
                    cand[j] = var;
                    if let Some(v) = try_(&cand, &mut n) {
                        cur = cand;
                        cur_v = v;
                        progress = true;
                        break;
                    }
                }
            }
            // WHERE expression
            let w = match &cur[j] {
                Stmt::Update { where_: Some(w), .. } | Stmt::Delete { where_: Some(w), .. } => Some(w.clone()),
                _ => None,
            };
            if let Some(w) = w {
                let base = cur.clone();
                let mut best_v = None;
                let small = shrink_expr(
                    &w,
                    &mut |e: &E| {
                        let mut cand = base.clone();
                        cand[j] = with_where(&base[j], Some(e.clone()));
                        match try_(&cand, &mut n) {
                            Some(v) => {
                                best_v = Some(v);
                                true
                            }
                            None => false,
                        }
                    },
                    12,
                );
                if let Some(v) = best_v {
                    cur[j] = with_where(&base[j], Some(small));
                    cur_v = v;
                }
            }
        }
        // columns
        let tables: Vec<TableDef> = cur.iter().filter_map(|s| if let Stmt::CreateTable(d) = s { Some(d.clone()) } else { None }).collect();
        for d in tables {
            for c in d.cols.iter().rev() {
                if n >= budget {
                    break;
                }
                if let Some(cand) = drop_col(&cur, &d.name, &c.name) {
                    if let Some(v) = try_(&cand, &mut n) {
                        cur = cand;
                        cur_v = v;
                    }
                }
            }
        }
        let after_len = (cur.len(), cur.iter().map(|s| s.sql().len()).sum::<usize>());
        if after_len == before_len || n >= budget {
            break;
        }
    }
    cur_v.stmt_index = cur_v.stmt_index.min(cur.len().saturating_sub(1));
    (cur, cur_v, n)
}

/// legacy entry point: ddmin over the statement list only; same class + cause must still fire
pub fn shrink(scratch: &Scratch, stmts: &[Stmt], class: &str, cause: &str) -> Vec<Stmt> {
    let o = run_history(scratch, "shrink0", stmts);
    let t = match o.viol.iter().chain(o.extra.iter()).find(|v| v.class == class && v.cause == cause) {
        Some(t) => t.clone(),
        None => return stmts.to_vec(),
    };
    minimize(scratch, "shrink1", &stmts[..(t.stmt_index + 1).min(stmts.len())], &t, 120).0
}

/// features that survived minimisation (see module doc)
pub fn traits_of(stmts: &[Stmt], v: &Viol) -> Vec<String> {
    let mut t: BTreeSet<String> = BTreeSet::new();
    if stmts.is_empty() {
        return vec![];
    }
    let fi = v.stmt_index.min(stmts.len() - 1);
    let fail = &stmts[fi];
    let mut model = MDb::default();
    for s in &stmts[..fi] {
        if let Err(MErr::Error(_)) = model.apply(s) {
            t.insert(format!("after_failed_{}", kind0(s)));
            continue;
        }
        match s {
            Stmt::Delete { .. } => {
                t.insert("after_delete".into());
            }
            Stmt::Update { .. } => {
                t.insert("after_update".into());
            }
            Stmt::Truncate(_) => {
                t.insert("after_truncate".into());
            }
            Stmt::Rollback => {
                t.insert("after_rollback".into());
            }
            Stmt::RollbackTo(_) => {
                t.insert("after_rollback_to".into());
            }
            Stmt::Commit => {
                t.insert("after_commit".into());
            }
            _ => {}
        }
    }
    if model.in_txn() {
        t.insert("in_txn".into());
    }
    let mut large = false;
    for s in stmts {
        let mut see = |e: &E| e.visit(&mut |x| if let E::Lit(v) = x { large |= matches!(v, V::Text(s) if s.len() > 1000) });
        match s {
            Stmt::Insert { rows, .. } => rows.iter().flatten().for_each(|e| see(e)),
            Stmt::Update { sets, .. } => sets.iter().for_each(|(_, e)| see(e)),
            _ => {}
        }
    }
    if large {
        t.insert("toast".into());
    }
    let tk = stmt_table(fail).map(|x| x.to_lowercase()).unwrap_or_default();
    if let Some((def, _)) = model.st.tables.get(&tk) {
        if !def.pk.is_empty() {
            t.insert("pk".into());
        }
        for c in &def.cols {
            if c.auto_inc {
                t.insert("autoinc".into());
            }
            if let Some(d) = &c.default {
                t.insert(if neg_num(d) { "neg_default".into() } else { "default".into() });
            }
            if c.not_null {
                t.insert("not_null".into());
            }
            if c.unique {
                t.insert("unique".into());
            }
            if let Some(ch) = &c.check {
                t.insert(format!("check:{}", check_form(ch)));
            }
        }
        for f in &def.fks {
            t.insert(format!("fk_child:{}{}", if f.on_delete == FkAction::Cascade { "cascade" } else { "restrict" }, if f.on_update_restrict { "+on_update_restrict" } else { "" }));
        }
        for (_, (cd, _)) in &model.st.tables {
            for f in &cd.fks {
                if f.ref_table.eq_ignore_ascii_case(&def.name) && !cd.name.eq_ignore_ascii_case(&def.name) {
                    t.insert(format!("fk_parent:{}{}", if f.on_delete == FkAction::Cascade { "cascade" } else { "restrict" }, if f.on_update_restrict { "+on_update_restrict" } else { "" }));
                }
            }
        }
        for (_, cols, unique) in &def.indexes {
            t.insert(if *unique { "unique_index".into() } else if cols.len() > 1 { "composite_index".into() } else { "index".into() });
        }
    }
    let where_trait = |w: &Option<E>, t: &mut BTreeSet<String>| {
        if let Some(w) = w {
            let pk_point = matches!(w, E::Bin(BinOp::Eq, a, b) if matches!(**a, E::Col { ref name, .. } if name == "id") && matches!(**b, E::Lit(_)));
            if pk_point {
                t.insert("where:pk_point".into());
            } else {
                let mut f = BTreeSet::new();
                w.features(&mut f);
                t.insert(format!("where:{}", f.into_iter().collect::<Vec<_>>().join(",")));
            }
        }
    };
    match fail {
        Stmt::Insert { cols, rows, returning, .. } => {
            if rows.len() > 1 {
                if let Some((k, n)) = model.first_failing_row(fail) {
                    t.insert(format!("k={}", if k == 0 { "first" } else if k + 1 == n { "last" } else { "middle" }));
                } else {
                    t.insert("multi_row".into());
                }
            }
            if cols.is_some() {
                t.insert("col_list".into());
            }
            if *returning {
                t.insert("returning".into());
            }
        }
        Stmt::Update { sets, where_, returning, .. } => {
            where_trait(where_, &mut t);
            if sets.len() > 1 {
                t.insert("multi_set".into());
            }
            if sets.iter().any(|(c, _)| c == "id") {
                t.insert("set_pk".into());
            }
            if sets.iter().any(|(_, e)| !matches!(e, E::Lit(_))) {
                t.insert("set_expr".into());
            }
            if *returning {
                t.insert("returning".into());
            }
        }
        Stmt::Delete { where_, returning, .. } => {
            where_trait(where_, &mut t);
            if *returning {
                t.insert("returning".into());
            }
        }
        _ => {}
    }
    // consequences of an earlier non-atomic failure come first, so that a `...after_failed_insert*` prefix can name them
    let (a, b): (Vec<String>, Vec<String>) = t.into_iter().partition(|x| x.starts_with("after_failed_"));
    a.into_iter().chain(b).collect()
}

// ---------------------------------------------------------------- driver

pub fn classes_of(prop: &str) -> &'static [&'static str] {
    match prop {
        "C05" => &["dml_result", "state", "count_star", "panic", "setup"],
        "C06" => &["error_atomicity"],
        "C07" => &["rollback"],
        "C09" => &["constraint"],
        _ => &[],
    }
}

/// C05 and C06 also look at constraint-heavy schemas (FK cascades change other tables' rows and COUNT(*);
/// failing parent updates/deletes): every sixth / fifth history is generated with the C09 focus
fn focus_of(prop: &str, focus: Focus, i: usize) -> Focus {
    match prop {
        "C05" if i % 6 == 5 => Focus::Constraints,
        "C06" if i % 5 == 4 => Focus::Constraints,
        _ => focus,
    }
}

struct Case {
    i: usize,
    stmts: Vec<Stmt>,
    out: RunOut,
}

/// one violation of this property's classes, before / after minimisation
struct Item {
    case: usize,
    v: Viol,
    cut: Vec<Stmt>,
    /// grouping key for the minimisation order: core + statement-level traits of the unminimised failing statement
    group: String,
    /// (minimal history, violation on it, runs)
    min: Option<(Vec<Stmt>, Viol, usize)>,
    /// index of the first violation of the same case (further sub-assertions failing at the same statement are
    /// minimised starting from the primary's minimal history)
    primary: Option<usize>,
}

/// statement-level traits only (cheap, no minimisation needed): used to group violations
fn stmt_traits(cut: &[Stmt], v: &Viol) -> String {
    traits_of(cut, v).into_iter().filter(|t| t.starts_with("where:") || t.starts_with("k=") || matches!(t.as_str(), "returning" | "multi_set" | "set_expr" | "set_pk" | "col_list" | "multi_row" | "in_txn" | "toast")).collect::<Vec<_>>().join("+")
}

pub fn run_prop(a: &Args, prop: &'static str, focus: Focus, rule: &str) -> i32 {
    let mut ctx = Ctx::new(prop, &a.tier, a.seed, "exploration", rule);
    let quick = ctx.quick();
    let miri = cfg!(miri);
    let nhist = if miri {
        4
    } else if quick {
        400
    } else {
        6000
    };
    let max_stmts = if miri { 8 } else { 40 };
    let budget = if quick { 90 } else { 130 };
    // wall budgets (s): histories stop being started after `run_deadline`; minimisation stops at `min_deadline`
    let (run_deadline, min_deadline) = if quick { (20.0, 40.0) } else { (240.0, 500.0) };
    let threads = if miri { 1 } else { 8usize };
    let scratch = Scratch::new(&format!("{}-dml", prop.to_lowercase()));
    let results = std::sync::Mutex::new(vec![]);
    let next = std::sync::atomic::AtomicUsize::new(0);
    let seed = a.seed;
    let mine = classes_of(prop);
    let start = std::time::Instant::now();
    // phase 1: run the histories
    std::thread::scope(|s| {
        for t in 0..threads {
            let (results, next, scratch) = (&results, &next, &scratch);
            s.spawn(move || loop {
                let i = next.fetch_add(1, std::sync::atomic::Ordering::SeqCst);
                if i >= nhist || start.elapsed().as_secs_f64() > run_deadline {
                    break;
                }
                let hseed = Rng::derive(seed, 50_000 + i as u64 + (prop.as_bytes()[2] as u64) * 1_000_000).next();
                let stmts = gen_history(hseed, focus_of(prop, focus, i), max_stmts);
                let out = run_history(scratch, &format!("w{}", t), &stmts);
                results.lock().unwrap().push(Case { i, stmts, out });
            });
        }
    });
    let mut results = results.into_inner().unwrap();
    results.sort_by_key(|r| r.i);
    if results.len() < nhist {
        ctx.count("histories_not_started_wall_budget", (nhist - results.len()) as u64);
    }
    ctx.count("wall_ms_phase_run", (start.elapsed().as_secs_f64() * 1000.0) as u64);
    // phase 2: minimise this property's violations; one per group first (round robin), then the rest while time remains
    let mut items: Vec<Item> = vec![];
    for (ci, case) in results.iter().enumerate() {
        let mut first: Option<usize> = None;
        for v in case.out.viol.iter().chain(case.out.extra.iter()).filter(|v| mine.contains(&v.class)) {
            let cut = case.stmts[..(v.stmt_index + 1).min(case.stmts.len())].to_vec();
            let group = format!("{}/{}/{}", v.assertion, v.core, stmt_traits(&cut, v));
            items.push(Item { case: ci, v: v.clone(), cut, group, min: None, primary: first });
            if first.is_none() {
                first = Some(items.len() - 1);
            }
        }
    }
    let mut rank: BTreeMap<String, usize> = BTreeMap::new();
    let mut order: Vec<(usize, usize)> = items.iter().enumerate().filter(|(_, it)| it.primary.is_none()).map(|(k, it)| {
        let r = rank.entry(it.group.clone()).or_insert(0);
        *r += 1;
        (*r, k)
    }).collect();
    order.sort();
    // waves: (1) the first 3 of every group; (2) members 4..=8 of groups whose minimised members disagree;
    // (3) the rest of the groups that still disagree. Members of agreeing groups inherit the group's signature.
    let sig_of = |it: &Item, small: &[Stmt], sv: &Viol| -> String {
        let mut traits = traits_of(small, sv);
        // the root-cause tag comes first, so that one prefix entry covers every witness shape of the TOAST family
        if let Some(pos) = traits.iter().position(|t| t == "toast") {
            let t = traits.remove(pos);
            traits.insert(0, t);
        }
        if traits.is_empty() { format!("{}/{}/{}", prop, it.v.assertion, it.v.core) } else { format!("{}/{}/{}/{}", prop, it.v.assertion, it.v.core, traits.join("+")) }
    };
    for wave in 0..3 {
        let mut group_sigs: BTreeMap<String, BTreeSet<String>> = BTreeMap::new();
        for it in &items {
            if let Some((small, sv, _)) = &it.min {
                group_sigs.entry(it.group.clone()).or_default().insert(sig_of(it, small, sv));
            }
        }
        let (lo, hi) = match wave {
            0 => (1, 3),
            1 => (4, 8),
            _ => (9, usize::MAX),
        };
        let todo: Vec<usize> = order.iter().filter(|(r, k)| *r >= lo && *r <= hi && items[*k].min.is_none() && items[*k].v.class != "setup" && (wave == 0 || group_sigs.get(&items[*k].group).map(|g| g.len() != 1).unwrap_or(true))).map(|(_, k)| *k).collect();
        if todo.is_empty() {
            continue;
        }
        let queue = std::sync::atomic::AtomicUsize::new(0);
        let done: std::sync::Mutex<Vec<(usize, (Vec<Stmt>, Viol, usize))>> = std::sync::Mutex::new(vec![]);
        std::thread::scope(|s| {
            for t in 0..threads {
                let (queue, todo, items, done, scratch) = (&queue, &todo, &items, &done, &scratch);
                s.spawn(move || loop {
                    let q = queue.fetch_add(1, std::sync::atomic::Ordering::SeqCst);
                    if q >= todo.len() || start.elapsed().as_secs_f64() > min_deadline {
                        break;
                    }
                    let k = todo[q];
                    let it = &items[k];
                    let stop = Some(start + std::time::Duration::from_secs_f64(min_deadline + 3.0));
                    let r = minimize_until(scratch, &format!("m{}", t), &it.cut, &it.v, budget, stop);
                    // a minimisation cut short by the wall budget does not count as minimised
                    if start.elapsed().as_secs_f64() > min_deadline + 3.0 {
                        break;
                    }
                    // the other sub-assertions of the same case start from the primary's minimal history if they fire there
                    for (e, other) in items.iter().enumerate().filter(|(_, o)| o.primary == Some(k)) {
                        let o = run_history(scratch, &format!("m{}", t), &r.0);
                        let from: &[Stmt] = if matches_target(&o, &other.v).is_some() { &r.0 } else { &other.cut };
                        let re = minimize_until(scratch, &format!("m{}", t), from, &other.v, budget, stop);
                        if start.elapsed().as_secs_f64() <= min_deadline + 3.0 {
                            done.lock().unwrap().push((e, re));
                        }
                    }
                    done.lock().unwrap().push((k, r));
                });
            }
        });
        for (k, r) in done.into_inner().unwrap() {
            items[k].min = Some(r);
        }
    }
    // signatures: minimised cases sign themselves; the others inherit the signature of their group if every
    // minimised member of the group agrees, else they are signed `<core>/unminimised`
    ctx.count("wall_ms_phase_run_and_minimise", (start.elapsed().as_secs_f64() * 1000.0) as u64);
    let mut group_sigs: BTreeMap<String, BTreeSet<String>> = BTreeMap::new();
    for it in &items {
        if let Some((small, sv, _)) = &it.min {
            group_sigs.entry(it.group.clone()).or_default().insert(sig_of(it, small, sv));
        }
    }
    let mut by_case: BTreeMap<usize, Vec<usize>> = BTreeMap::new();
    for (k, it) in items.iter().enumerate() {
        by_case.entry(it.case).or_default().push(k);
    }
    let mut examples: serde_json::Map<String, J> = serde_json::Map::new();
    let short_sql = |s: &Stmt| {
        let q = s.sql();
        if q.len() > 600 {
            format!("{}..[{} bytes]", &q[..300], q.len())
        } else {
            q
        }
    };
    for (ci, case) in results.iter().enumerate() {
        let (i, stmts, out) = (case.i, &case.stmts, &case.out);
        ctx.eval();
        ctx.count("statements_executed", out.executed as u64);
        ctx.count("failing_statements_both_reject", out.failing_stmts);
        ctx.count("rollbacks_observed", out.rollbacks);
        if out.dropped_unsupported {
            ctx.count("histories_cut_at_unsupported_statement", 1);
        }
        for (k, n) in &out.kinds {
            ctx.count(&format!("stmt_{}", k), *n);
        }
        for (k, n) in &out.cov {
            ctx.count(&format!("cov_{}", k), *n);
        }
        // non-trivial: the history exercised the property's mechanism
        let nontrivial = match focus_of(prop, focus, i) {
            Focus::Failing => out.failing_stmts > 0,
            Focus::Txn => out.rollbacks > 0,
            _ => out.executed > 8,
        };
        if nontrivial {
            ctx.nontrivial(fnv(stmts.iter().map(|s| s.sql()).collect::<Vec<_>>().join(";").as_bytes()));
        }
        if i < 2 {
            ctx.sample(json!({"history": i, "statements": stmts.iter().take(14).map(|s| s.sql().chars().take(300).collect::<String>()).collect::<Vec<_>>()}));
        }
        for v in out.viol.iter().chain(out.extra.iter()) {
            if !mine.contains(&v.class) {
                ctx.count(&format!("other_property_class_{}", v.class), 1);
            }
        }
        if out.viol.is_none() {
            ctx.count("histories_completed_without_violation", 1);
        }
        for k in by_case.get(&ci).cloned().unwrap_or_default() {
            let it = &items[k];
            let (sig, small, sv, runs) = match &it.min {
                Some((small, sv, runs)) => {
                    ctx.count("minimisation_runs", *runs as u64);
                    ctx.count("violations_minimised", 1);
                    (sig_of(it, small, sv), small.clone(), sv.clone(), *runs)
                }
                None => {
                    let inherited = group_sigs.get(&it.group).filter(|g| g.len() == 1).and_then(|g| g.iter().next().cloned());
                    match inherited {
                        Some(sg) => {
                            ctx.count("violations_signed_like_their_minimised_group", 1);
                            (sg, it.cut.clone(), it.v.clone(), 0)
                        }
                        None => {
                            ctx.count("violations_signed_unminimised", 1);
                            (format!("{}/{}/{}/unminimised", prop, it.v.assertion, it.v.core), it.cut.clone(), it.v.clone(), 0)
                        }
                    }
                }
            };
            if examples.len() < 80 && !examples.contains_key(&sig) {
                examples.insert(sig.clone(), json!({"history": i, "minimal_history": small.iter().map(short_sql).collect::<Vec<_>>(), "detail": sv.detail}));
            }
            ctx.violation(&it.v.assertion, &sig, json!({"history": i, "stmt_index": it.v.stmt_index, "detail": sv.detail, "first_seen_detail": it.v.detail, "minimal_history": small.iter().map(short_sql).collect::<Vec<_>>(), "minimisation_runs": runs}));
        }
    }
    ctx.extra.insert("signature_examples".into(), J::Object(examples));
    ctx.assumptions.push("model pins: rows_affected of UPDATE/DELETE = rows matched by WHERE; TRUNCATE count not asserted; UNIQUE admits several NULLs; CHECK passes unless FALSE; TurDB dialect: an explicit NULL written by INSERT into a column with a DEFAULT stores the default (pinned by TurDB's own suite), so NOT NULL DEFAULT columns accept NULL and CHECK/FK see the default; SET expressions read the row as it was before the statement; constraints are judged on the state after the whole statement; AUTO_INCREMENT values after a rollback or failed INSERT are not judged (history cut)".into());
    ctx.finish()
}

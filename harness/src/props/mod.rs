use crate::Args;

pub mod c27;

pub fn dispatch(a: &Args) -> i32 {
    match a.prop.as_str() {
        "C27" => c27::run(a),
        other => {
            eprintln!("unknown property/subcommand {}", other);
            2
        }
    }
}

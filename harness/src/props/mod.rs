use crate::Args;

pub mod c01;
pub mod c02;
pub mod c03;
pub mod c04;
pub mod c05;
pub mod c06;
pub mod c07;
pub mod c08;
pub mod c09;
pub mod c10;
pub mod c11;
pub mod c12;
pub mod c13;
pub mod c14;
pub mod c15;
pub mod c16;
pub mod c17;
pub mod c18;
pub mod c19;
pub mod c20;
pub mod c21;
pub mod c22;
pub mod c23;
pub mod c24;
pub mod c25;
pub mod c26;
pub mod c27;
pub mod c28;
pub mod c29;
pub mod c30;
pub mod c31;
pub mod c32;
pub mod c33;
pub mod c34;
pub mod c35;
pub mod c36;
pub mod c37;
pub mod c38;
pub mod c39;
pub mod c40;
pub mod c41;
pub mod c42;
pub mod c43;

pub mod sqlprobe;
pub mod crash;
pub mod dmlengine;

pub fn dispatch(a: &Args) -> i32 {
    match a.prop.as_str() {
        "C01" => c01::run(a),
        "C02" => c02::run(a),
        "C03" => c03::run(a),
        "C04" => c04::run(a),
        "C05" => c05::run(a),
        "C06" => c06::run(a),
        "C07" => c07::run(a),
        "C08" => c08::run(a),
        "C09" => c09::run(a),
        "C10" => c10::run(a),
        "C11" => c11::run(a),
        "C12" => c12::run(a),
        "C13" => c13::run(a),
        "C14" => c14::run(a),
        "C15" => c15::run(a),
        "C16" => c16::run(a),
        "C17" => c17::run(a),
        "C18" => c18::run(a),
        "C19" => c19::run(a),
        "C20" => c20::run(a),
        "C21" => c21::run(a),
        "C22" => c22::run(a),
        "C23" => c23::run(a),
        "C24" => c24::run(a),
        "C25" => c25::run(a),
        "C26" => c26::run(a),
        "C27" => c27::run(a),
        "C28" => c28::run(a),
        "C29" => c29::run(a),
        "C30" => c30::run(a),
        "C31" => c31::run(a),
        "C32" => c32::run(a),
        "C33" => c33::run(a),
        "C34" => c34::run(a),
        "C35" => c35::run(a),
        "C36" => c36::run(a),
        "C37" => c37::run(a),
        "C38" => c38::run(a),
        "C39" => c39::run(a),
        "C40" => c40::run(a),
        "C41" => c41::run(a),
        "C42" => c42::run(a),
        "C43" => c43::run(a),
        "sql" => sqlprobe::run(a),
        "crashchild" => crash::child_main(&a.rest),
        "crashopen" => crash::open_main(&a.rest),
        other => {
            eprintln!("unknown property/subcommand {}", other);
            2
        }
    }
}

//! `tv sql "<stmt>" ...` : run statements on a fresh scratch database and print results (probing aid).
use crate::sqlm::db::{Db, Scratch};
use crate::Args;

pub fn run(a: &Args) -> i32 {
    let scratch = Scratch::new("probe");
    let mut db = Db::create(&scratch.dir("db")).expect("create");
    for s in &a.rest {
        println!("> {}", s);
        if s == "--reopen" {
            let path = db.path.clone();
            let _ = db.db.close();
            drop(db);
            db = Db::open(&path).expect("reopen");
            continue;
        }
        match db.exec(s) {
            Ok(o) => println!("  {:?}", o),
            Err(e) => println!("  ERR {}", e),
        }
    }
    0
}

//! Run context: counts what the monitors observed, matches violations against the committed
//! known-findings file, writes evidence/<id>.json and replay files, decides the exit code.

use serde_json::{json, Map, Value};
use std::collections::{BTreeMap, HashSet};
use std::time::Instant;

pub const VERIF_DIR: &str = "/verif";

#[derive(Clone, Debug)]
pub struct Finding {
    pub id: String,
    pub property: String,
    pub sig: String,
    pub summary: String,
    pub status: String,
}

pub struct Ctx {
    pub prop: String,
    pub tier: String,
    pub seed: u64,
    pub level: &'static str,
    pub rule: String,
    pub start: Instant,
    pub evaluations: u64,
    nontrivial: HashSet<u64>,
    pub samples: Vec<Value>,
    pub max_samples: usize,
    pub violations: Vec<Value>,
    pub known_hits: BTreeMap<String, u64>,
    pub counters: BTreeMap<String, u64>,
    pub extra: Map<String, Value>,
    pub assumptions: Vec<String>,
    pub exhaustive: Option<bool>,
    pub inconclusive: Vec<String>,
    findings: Vec<Finding>,
    max_violation_files: usize,
    seen_viol_sigs: HashSet<String>,
    pub sig_tally: BTreeMap<String, u64>,
    pub known_sig_tally: BTreeMap<String, u64>,
}

fn load_findings() -> Vec<Finding> {
    let p = format!("{}/known_findings.json", VERIF_DIR);
    let txt = match std::fs::read_to_string(&p) {
        Ok(t) => t,
        Err(_) => return vec![],
    };
    let v: Value = serde_json::from_str(&txt).expect("known_findings.json must be valid JSON");
    let mut out = vec![];
    if let Some(arr) = v.get("findings").and_then(|a| a.as_array()) {
        for f in arr {
            out.push(Finding {
                id: f["id"].as_str().unwrap_or("").to_string(),
                property: f["property"].as_str().unwrap_or("").to_string(),
                sig: f["sig"].as_str().unwrap_or("").to_string(),
                summary: f["summary"].as_str().unwrap_or("").to_string(),
                status: f["status"].as_str().unwrap_or("open").to_string(),
            });
        }
    }
    out
}

impl Ctx {
    pub fn new(prop: &str, tier: &str, seed: u64, level: &'static str, rule: &str) -> Ctx {
        Ctx {
            prop: prop.to_string(),
            tier: tier.to_string(),
            seed,
            level,
            rule: rule.to_string(),
            start: Instant::now(),
            evaluations: 0,
            nontrivial: HashSet::new(),
            samples: vec![],
            max_samples: 6,
            violations: vec![],
            known_hits: BTreeMap::new(),
            counters: BTreeMap::new(),
            extra: Map::new(),
            assumptions: vec![],
            exhaustive: None,
            inconclusive: vec![],
            findings: load_findings(),
            max_violation_files: 8,
            seen_viol_sigs: HashSet::new(),
            sig_tally: BTreeMap::new(),
            known_sig_tally: BTreeMap::new(),
        }
    }
    pub fn quick(&self) -> bool {
        self.tier == "quick"
    }
    pub fn elapsed(&self) -> f64 {
        self.start.elapsed().as_secs_f64()
    }
    /// count one executed case
    pub fn eval(&mut self) {
        self.evaluations += 1;
    }
    pub fn evals(&mut self, n: u64) {
        self.evaluations += n;
    }
    /// record that a case with this structural hash exercised the property's mechanism
    pub fn nontrivial(&mut self, h: u64) {
        self.nontrivial.insert(h);
    }
    pub fn nontrivial_count(&self) -> usize {
        self.nontrivial.len()
    }
    pub fn count(&mut self, k: &str, n: u64) {
        *self.counters.entry(k.to_string()).or_insert(0) += n;
    }
    pub fn sample(&mut self, v: Value) {
        if self.samples.len() < self.max_samples {
            self.samples.push(v);
        }
    }
    pub fn is_known(&self, sig: &str) -> Option<&Finding> {
        self.findings.iter().find(|f| {
            f.status == "open"
                && f.property == self.prop
                && (f.sig == sig || (f.sig.ends_with('*') && sig.starts_with(&f.sig[..f.sig.len() - 1])))
        })
    }
    /// Report a failed sub-assertion. `sig` is the exact signature used for known-finding
    /// matching (assertion name + the concrete cause the oracle established).
    /// Returns true if it is an unexplained violation.
    pub fn violation(&mut self, assertion: &str, sig: &str, detail: Value) -> bool {
        if let Some(f) = self.is_known(sig) {
            let id = f.id.clone();
            *self.known_hits.entry(id).or_insert(0) += 1;
            // which concrete signatures the listed findings matched (bounded), so that a prefix entry shows what it hid
            if self.known_sig_tally.len() < 400 || self.known_sig_tally.contains_key(sig) {
                *self.known_sig_tally.entry(sig.to_string()).or_insert(0) += 1;
            }
            return false;
        }
        self.count("violations_total", 1);
        *self.sig_tally.entry(sig.to_string()).or_insert(0) += 1;
        let first_of_sig = self.seen_viol_sigs.insert(sig.to_string());
        if self.violations.len() < self.max_violation_files && (first_of_sig || self.violations.len() < 3) {
            let dir = format!("{}/replay/{}", VERIF_DIR, self.prop);
            let _ = std::fs::create_dir_all(&dir);
            let path = format!("{}/{}-seed{}-{}.json", dir, self.tier, self.seed, self.violations.len());
            let body = json!({"property": self.prop, "assertion": assertion, "sig": sig, "seed": self.seed, "tier": self.tier, "detail": detail});
            let _ = std::fs::write(&path, serde_json::to_string_pretty(&body).unwrap());
            println!("VIOLATION property={} replay={}", self.prop, path);
            println!("  assertion={} sig={}", assertion, sig);
            self.violations.push(json!({"assertion": assertion, "sig": sig, "replay": path}));
        }
        true
    }
    pub fn inconclusive(&mut self, reason: &str) {
        self.inconclusive.push(reason.to_string());
    }
    /// write the evidence file, print KNOWN-FINDING lines, return the process exit code
    pub fn finish(mut self) -> i32 {
        let wall = self.elapsed();
        let nviol = *self.counters.get("violations_total").unwrap_or(&0);
        for f in self.findings.iter().filter(|f| f.status == "open" && f.property == self.prop) {
            let hits = self.known_hits.get(&f.id).copied().unwrap_or(0);
            println!("KNOWN-FINDING: property={} {} [{}; observed {} times in this run]", self.prop, f.summary, f.id, hits);
        }
        if self.evaluations == 0 {
            self.inconclusive.push("no case was executed".into());
        }
        // the Miri stage re-runs a drastically reduced workload next to the native run of the same check,
        // which enforces the diversity rule; under the interpreter only "something ran" is required
        if self.nontrivial.len() < 2 && !cfg!(miri) {
            self.inconclusive.push(format!("only {} distinct non-trivial cases observed", self.nontrivial.len()));
        }
        let mut cov = Map::new();
        cov.insert("evaluations".into(), json!(self.evaluations));
        cov.insert("distinct_nontrivial".into(), json!(self.nontrivial.len()));
        cov.insert("rule".into(), json!(self.rule));
        if self.samples.is_empty() {
            self.samples.push(json!("(no sample recorded)"));
        }
        cov.insert("samples".into(), Value::Array(self.samples.clone()));
        if let Some(e) = self.exhaustive {
            cov.insert("exhaustive".into(), json!(e));
        }
        cov.insert("counters".into(), json!(self.counters));
        cov.insert("known_finding_hits".into(), json!(self.known_hits));
        cov.insert("known_finding_signatures_observed".into(), json!(self.known_sig_tally));
        for (k, v) in self.extra.iter() {
            cov.insert(k.clone(), v.clone());
        }
        let verdict = if nviol > 0 {
            "violated"
        } else if !self.inconclusive.is_empty() {
            "inconclusive"
        } else {
            "held_on_observed"
        };
        let ev = json!({
            "property_id": self.prop,
            "tier": self.tier,
            "seed": self.seed,
            "level": self.level,
            "coverage": Value::Object(cov),
            "assumptions": self.assumptions,
            "wall_s": (wall * 1000.0).round() / 1000.0,
            "violations": nviol,
            "violation_files": self.violations,
            "violation_signatures": self.sig_tally,
            "verdict": verdict,
            "inconclusive_reasons": self.inconclusive,
        });
        let dir = format!("{}/evidence", VERIF_DIR);
        let _ = std::fs::create_dir_all(&dir);
        let path = match std::env::var("TV_STAGE") {
            Ok(st) if !st.is_empty() => {
                let _ = std::fs::create_dir_all(format!("{}/stages", dir));
                format!("{}/stages/{}.{}.json", dir, self.prop, st)
            }
            _ => format!("{}/{}.json", dir, self.prop),
        };
        std::fs::write(&path, serde_json::to_string_pretty(&ev).unwrap()).expect("write evidence");
        for (sg, n) in self.sig_tally.iter() {
            println!("  unexplained signature x{}: {}", n, sg);
        }
        println!(
            "[{}] tier={} seed={} evaluations={} distinct_nontrivial={} violations={} known_hits={:?} wall={:.1}s verdict={}",
            self.prop,
            self.tier,
            self.seed,
            self.evaluations,
            self.nontrivial.len(),
            nviol,
            self.known_hits,
            wall,
            verdict
        );
        if nviol > 0 {
            1
        } else if !self.inconclusive.is_empty() {
            for r in &self.inconclusive {
                println!("INCONCLUSIVE property={} reason={}", self.prop, r);
            }
            2
        } else {
            0
        }
    }
}

/// Run `f`, catching panics; returns Err(panic message with location) on panic.
pub fn catch<T>(f: impl FnOnce() -> T) -> Result<T, String> {
    install_panic_hook();
    LAST_PANIC.with(|p| p.borrow_mut().take());
    match std::panic::catch_unwind(std::panic::AssertUnwindSafe(f)) {
        Ok(v) => Ok(v),
        Err(e) => {
            let loc = LAST_PANIC.with(|p| p.borrow_mut().take()).unwrap_or_default();
            let msg = if let Some(s) = e.downcast_ref::<&str>() {
                s.to_string()
            } else if let Some(s) = e.downcast_ref::<String>() {
                s.clone()
            } else {
                "panic".to_string()
            };
            Err(format!("{} @ {}", msg, loc))
        }
    }
}

thread_local! {
    static LAST_PANIC: std::cell::RefCell<Option<String>> = std::cell::RefCell::new(None);
}

pub fn install_panic_hook() {
    use std::sync::Once;
    static ONCE: Once = Once::new();
    ONCE.call_once(|| {
        std::panic::set_hook(Box::new(|info| {
            let loc = info.location().map(|l| format!("{}:{}", l.file(), l.line())).unwrap_or_default();
            LAST_PANIC.with(|p| *p.borrow_mut() = Some(loc));
        }));
    });
}

/// "file:line" of a caught panic string produced by `catch` (for signatures)
pub fn panic_site(msg: &str) -> String {
    msg.rsplit(" @ ").next().unwrap_or("").to_string()
}

/// Line-number independent form of a panic site: "src/x/y.rs:123" -> "src/x/y.rs:enclosing_fn".
/// The enclosing function is found by scanning the repository source upwards from the line for the
/// nearest `fn name`; sites that cannot be resolved (std locations, missing files) are returned as
/// they are.  Used for known-finding signatures so that unrelated edits that shift line numbers do
/// not turn a recorded finding into a new one.
pub fn stable_site(site: &str) -> String {
    use std::collections::HashMap;
    use std::sync::Mutex;
    static CACHE: Mutex<Option<HashMap<String, Option<Vec<String>>>>> = Mutex::new(None);
    let Some((path, line)) = site.rsplit_once(':') else { return site.to_string() };
    let Ok(line) = line.parse::<usize>() else { return site.to_string() };
    if path.starts_with("std:") || path.starts_with("harness:") {
        return site.to_string();
    }
    let mut guard = CACHE.lock().unwrap_or_else(|e| e.into_inner());
    let cache = guard.get_or_insert_with(HashMap::new);
    let lines = cache.entry(path.to_string()).or_insert_with(|| {
        for cand in [format!("/repo/{}", path), format!("/repo/src/{}", path)] {
            if let Ok(text) = std::fs::read_to_string(&cand) {
                return Some(text.lines().map(|l| l.to_string()).collect());
            }
        }
        None
    });
    let Some(lines) = lines else { return site.to_string() };
    let mut i = line.min(lines.len());
    while i > 0 {
        let l = lines[i - 1].trim_start();
        // `fn name`, possibly after pub/pub(crate)/const/unsafe/async/extern qualifiers
        if let Some(pos) = l.find("fn ") {
            let before = &l[..pos];
            let quals_only = before.split_whitespace().all(|w| {
                w.starts_with("pub") || w == "const" || w == "unsafe" || w == "async" || w == "extern" || w.starts_with('"') || w == "default"
            });
            if quals_only && !l.starts_with("//") {
                let name: String = l[pos + 3..].chars().take_while(|c| c.is_alphanumeric() || *c == '_').collect();
                if !name.is_empty() {
                    return format!("{}:{}", path, name);
                }
            }
        }
        i -= 1;
    }
    site.to_string()
}

//! xoshiro256** PRNG (own code, no external crates) + helpers.

#[derive(Clone, Debug)]
pub struct Rng {
    s: [u64; 4],
}

fn splitmix(x: &mut u64) -> u64 {
    *x = x.wrapping_add(0x9E3779B97F4A7C15);
    let mut z = *x;
    z = (z ^ (z >> 30)).wrapping_mul(0xBF58476D1CE4E5B9);
    z = (z ^ (z >> 27)).wrapping_mul(0x94D049BB133111EB);
    z ^ (z >> 31)
}

impl Rng {
    pub fn new(seed: u64) -> Self {
        let mut x = seed ^ 0xD1B54A32D192ED03;
        let s = [splitmix(&mut x), splitmix(&mut x), splitmix(&mut x), splitmix(&mut x)];
        Rng { s }
    }
    /// derive an independent stream for (seed, stream-id)
    pub fn derive(seed: u64, stream: u64) -> Self {
        Rng::new(seed.wrapping_mul(0x9E3779B97F4A7C15) ^ stream.wrapping_mul(0xC2B2AE3D27D4EB4F) ^ 0x5851F42D4C957F2D)
    }
    pub fn next(&mut self) -> u64 {
        let r = self.s[1].wrapping_mul(5).rotate_left(7).wrapping_mul(9);
        let t = self.s[1] << 17;
        self.s[2] ^= self.s[0];
        self.s[3] ^= self.s[1];
        self.s[1] ^= self.s[2];
        self.s[0] ^= self.s[3];
        self.s[2] ^= t;
        self.s[3] = self.s[3].rotate_left(45);
        r
    }
    /// uniform in [0, n)
    pub fn below(&mut self, n: u64) -> u64 {
        if n == 0 {
            return 0;
        }
        self.next() % n
    }
    pub fn range(&mut self, lo: i64, hi: i64) -> i64 {
        // inclusive
        let span = (hi as i128 - lo as i128 + 1) as u128;
        let r = ((self.next() as u128) % span) as i128;
        (lo as i128 + r) as i64
    }
    pub fn usize(&mut self, lo: usize, hi: usize) -> usize {
        self.range(lo as i64, hi as i64) as usize
    }
    pub fn chance(&mut self, num: u64, den: u64) -> bool {
        self.below(den) < num
    }
    pub fn pick<'a, T>(&mut self, xs: &'a [T]) -> &'a T {
        &xs[self.below(xs.len() as u64) as usize]
    }
    pub fn f64(&mut self) -> f64 {
        (self.next() >> 11) as f64 / (1u64 << 53) as f64
    }
    pub fn bytes(&mut self, n: usize) -> Vec<u8> {
        let mut v = Vec::with_capacity(n);
        while v.len() < n {
            let x = self.next().to_le_bytes();
            let take = (n - v.len()).min(8);
            v.extend_from_slice(&x[..take]);
        }
        v
    }
    pub fn shuffle<T>(&mut self, xs: &mut [T]) {
        for i in (1..xs.len()).rev() {
            let j = self.below(i as u64 + 1) as usize;
            xs.swap(i, j);
        }
    }
}

pub fn fnv(data: &[u8]) -> u64 {
    let mut h: u64 = 0xcbf29ce484222325;
    for b in data {
        h ^= *b as u64;
        h = h.wrapping_mul(0x100000001b3);
    }
    h
}

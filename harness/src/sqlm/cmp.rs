//! Result comparators: named sub-assertions over (TurDB rows, model result).
use super::query::QResult;
use super::val::{row_key, rows_json, Row};
use serde_json::{json, Value as J};
use std::collections::HashMap;

pub struct Fail {
    pub assertion: &'static str,
    pub detail: J,
}

fn bag(rows: &[Row]) -> HashMap<String, i64> {
    let mut m = HashMap::new();
    for r in rows {
        *m.entry(row_key(r, true)).or_insert(0) += 1;
    }
    m
}

/// bag equality; returns (missing examples, extra examples)
pub fn bag_diff(got: &[Row], want: &[Row]) -> Option<J> {
    let g = bag(got);
    let w = bag(want);
    if g == w {
        return None;
    }
    let mut missing = vec![];
    let mut extra = vec![];
    for (k, c) in &w {
        let gc = g.get(k).copied().unwrap_or(0);
        if gc < *c && missing.len() < 4 {
            missing.push(json!({"row": k.replace('\u{1}', " | "), "want": c, "got": gc}));
        }
    }
    for (k, c) in &g {
        let wc = w.get(k).copied().unwrap_or(0);
        if wc < *c && extra.len() < 4 {
            extra.push(json!({"row": k.replace('\u{1}', " | "), "want": wc, "got": c}));
        }
    }
    Some(json!({"got_rows": got.len(), "want_rows": want.len(), "missing": missing, "extra": extra}))
}

/// every row of `got` is drawn from `pool` with multiplicity
fn drawn_from(got: &[Row], pool: &[Row]) -> Option<J> {
    let mut p = bag(pool);
    for r in got {
        let k = row_key(r, true);
        match p.get_mut(&k) {
            Some(c) if *c > 0 => *c -= 1,
            _ => return Some(json!({"row_not_in_input_bag": k.replace('\u{1}', " | ")})),
        }
    }
    None
}

fn sorted_violation(got: &[Row], keys: &[(usize, bool)]) -> Option<J> {
    for i in 1..got.len() {
        let (a, b) = (&got[i - 1], &got[i]);
        for (c, desc) in keys {
            if *c >= a.len() || *c >= b.len() {
                return Some(json!({"row_too_short": i}));
            }
            let o = a[*c].order_cmp(&b[*c]);
            let o = if *desc { o.reverse() } else { o };
            match o {
                std::cmp::Ordering::Less => break,
                std::cmp::Ordering::Equal => continue,
                std::cmp::Ordering::Greater => {
                    return Some(json!({"index": i, "key_col": c, "desc": desc, "prev": a[*c].to_json(), "next": b[*c].to_json()}));
                }
            }
        }
    }
    None
}

/// compare TurDB's rows with the model's result; returns all failing sub-assertions
pub fn compare(got: &[Row], m: &QResult) -> Vec<Fail> {
    let mut fails = vec![];
    // width
    if let Some(r) = got.first() {
        if r.len() != m.cols.len() {
            fails.push(Fail { assertion: "width", detail: json!({"got": r.len(), "want": m.cols.len()}) });
            return fails;
        }
    }
    let windowed = m.pre_window.is_some();
    if got.len() != m.rows.len() {
        fails.push(Fail { assertion: "cardinality", detail: json!({"got": got.len(), "want": m.rows.len(), "got_rows": rows_json(got, 6), "want_rows": rows_json(&m.rows, 6)}) });
    }
    if !windowed {
        if let Some(d) = bag_diff(got, &m.rows) {
            fails.push(Fail { assertion: "bag", detail: d });
        }
    } else {
        let pool = m.pre_window.as_ref().unwrap();
        if let Some(d) = drawn_from(got, pool) {
            fails.push(Fail { assertion: "window_rows_from_input", detail: d });
        }
        if let Some(keys) = &m.sort_cols {
            // key multiset of the window is determined (ties only permute rows with equal keys)
            let proj = |rows: &[Row]| -> Vec<Row> { rows.iter().map(|r| keys.iter().filter_map(|(c, _)| r.get(*c).cloned()).collect()).collect() };
            if let Some(d) = bag_diff(&proj(got), &proj(&m.rows)) {
                fails.push(Fail { assertion: "window_keys", detail: d });
            }
        }
    }
    if m.ordered {
        if let Some(keys) = &m.sort_cols {
            if let Some(d) = sorted_violation(got, keys) {
                fails.push(Fail { assertion: "sorted", detail: d });
            }
        }
    }
    fails
}

//! Thin wrappers around turdb::Database: scratch directories, panic-catching exec/query.
use super::val::{Row, V};
use crate::report::catch;
use std::path::{Path, PathBuf};
use turdb::{Database, ExecuteResult};

pub struct Scratch {
    pub root: PathBuf,
}

impl Scratch {
    /// /verif/scratch/<tag>-<pid>/
    pub fn new(tag: &str) -> Scratch {
        let root = PathBuf::from(format!("{}/scratch/{}-{}", crate::report::VERIF_DIR, tag, std::process::id()));
        let _ = std::fs::remove_dir_all(&root);
        std::fs::create_dir_all(&root).expect("create scratch dir");
        Scratch { root }
    }
    pub fn dir(&self, name: &str) -> PathBuf {
        let p = self.root.join(name);
        let _ = std::fs::remove_dir_all(&p);
        p
    }
}

impl Drop for Scratch {
    fn drop(&mut self) {
        let _ = std::fs::remove_dir_all(&self.root);
    }
}

pub struct Db {
    pub db: Database,
    pub path: PathBuf,
    /// statements executed so far (for replay files)
    pub log: Vec<String>,
}

#[derive(Debug, Clone)]
pub enum Outcome {
    /// rows_affected, returned rows
    Dml(usize, Option<Vec<Row>>),
    Rows(Vec<Row>),
    Other(String),
}

pub fn conv_rows(rows: &[turdb::Row]) -> Vec<Row> {
    rows.iter().map(|r| r.values.iter().map(V::from_owned).collect()).collect()
}

impl Db {
    pub fn create(path: &Path) -> Result<Db, String> {
        match catch(|| Database::create(path)) {
            Ok(Ok(db)) => Ok(Db { db, path: path.to_path_buf(), log: vec![] }),
            Ok(Err(e)) => Err(format!("{:#}", e)),
            Err(p) => Err(format!("PANIC: {}", p)),
        }
    }
    pub fn open(path: &Path) -> Result<Db, String> {
        match catch(|| Database::open(path)) {
            Ok(Ok(db)) => Ok(Db { db, path: path.to_path_buf(), log: vec![] }),
            Ok(Err(e)) => Err(format!("{:#}", e)),
            Err(p) => Err(format!("PANIC: {}", p)),
        }
    }
    /// execute a statement; Err(msg) on SQL error, Err("PANIC: ...") on panic
    pub fn exec(&mut self, sql: &str) -> Result<Outcome, String> {
        self.log.push(sql.to_string());
        match catch(|| self.db.execute(sql)) {
            Ok(Ok(r)) => Ok(match r {
                ExecuteResult::Insert { rows_affected, returned } | ExecuteResult::Update { rows_affected, returned } | ExecuteResult::Delete { rows_affected, returned } => Outcome::Dml(rows_affected, returned.map(|r| conv_rows(&r))),
                ExecuteResult::Truncate { rows_affected } => Outcome::Dml(rows_affected, None),
                ExecuteResult::Select { rows, .. } => Outcome::Rows(conv_rows(&rows)),
                other => Outcome::Other(format!("{:?}", other).chars().take(200).collect()),
            }),
            Ok(Err(e)) => Err(format!("{:#}", e)),
            Err(p) => Err(format!("PANIC: {}", p)),
        }
    }
    pub fn query(&mut self, sql: &str) -> Result<Vec<Row>, String> {
        self.log.push(sql.to_string());
        match catch(|| self.db.query(sql)) {
            Ok(Ok(rows)) => Ok(conv_rows(&rows)),
            Ok(Err(e)) => Err(format!("{:#}", e)),
            Err(p) => Err(format!("PANIC: {}", p)),
        }
    }
    pub fn explain(&mut self, sql: &str) -> Option<String> {
        match catch(|| self.db.execute(&format!("EXPLAIN {}", sql))) {
            Ok(Ok(ExecuteResult::Explain { plan })) => Some(plan),
            _ => None,
        }
    }
}

pub fn is_panic(e: &str) -> bool {
    e.starts_with("PANIC: ")
}

/// short stable tag for a panic: "file.rs:line"
pub fn panic_tag(e: &str) -> String {
    let site = crate::report::panic_site(e);
    site.rsplit('/').next().unwrap_or("").to_string()
}

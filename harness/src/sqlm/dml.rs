//! Relational reference model for DDL/DML/transactions (catalog with constraints, multiset tables,
//! statement-atomic INSERT/UPDATE/DELETE/TRUNCATE, BEGIN/COMMIT/ROLLBACK/SAVEPOINT by snapshots).
use super::expr::{Binding, Env, MErr, E};
use super::gen::Ty;
use super::query::{Item, MTable};
use super::val::{row_key, Row, V};
use std::collections::{BTreeMap, BTreeSet};

#[derive(Clone, Debug)]
pub struct ColDef {
    pub name: String,
    pub ty: Ty,
    pub not_null: bool,
    pub unique: bool,
    pub default: Option<V>,
    pub auto_inc: bool,
    /// column-level CHECK (expr over this table's columns)
    pub check: Option<E>,
}

#[derive(Clone, Copy, Debug, PartialEq, Eq)]
pub enum FkAction {
    Restrict,
    Cascade,
}

#[derive(Clone, Debug)]
pub struct FkDef {
    pub col: String,
    pub ref_table: String,
    pub ref_col: String,
    pub on_delete: FkAction,
    /// declared `ON UPDATE RESTRICT` (otherwise no ON UPDATE clause = NO ACTION)
    pub on_update_restrict: bool,
}

#[derive(Clone, Debug, Default)]
pub struct TableDef {
    pub name: String,
    pub cols: Vec<ColDef>,
    /// primary key columns (empty = no PK)
    pub pk: Vec<String>,
    pub fks: Vec<FkDef>,
    /// secondary indexes: (name, columns, unique)
    pub indexes: Vec<(String, Vec<String>, bool)>,
}

impl TableDef {
    pub fn col_idx(&self, name: &str) -> Option<usize> {
        self.cols.iter().position(|c| c.name.eq_ignore_ascii_case(name))
    }
    pub fn col_names(&self) -> Vec<String> {
        self.cols.iter().map(|c| c.name.clone()).collect()
    }
    pub fn create_sql(&self) -> String {
        let mut parts = vec![];
        for c in &self.cols {
            let mut s = format!("{} {}", c.name, c.ty.sql());
            if self.pk.len() == 1 && self.pk[0].eq_ignore_ascii_case(&c.name) {
                s.push_str(" PRIMARY KEY");
            }
            if c.auto_inc {
                s.push_str(" AUTO_INCREMENT");
            }
            if c.not_null {
                s.push_str(" NOT NULL");
            }
            if c.unique {
                s.push_str(" UNIQUE");
            }
            if let Some(d) = &c.default {
                s.push_str(&format!(" DEFAULT {}", default_sql(d)));
            }
            if let Some(ch) = &c.check {
                s.push_str(&format!(" CHECK ({})", strip_outer_parens(&ch.sql())));
            }
            if let Some(fk) = self.fks.iter().find(|f| f.col.eq_ignore_ascii_case(&c.name)) {
                s.push_str(&format!(" REFERENCES {}({})", fk.ref_table, fk.ref_col));
                if fk.on_delete == FkAction::Cascade {
                    s.push_str(" ON DELETE CASCADE");
                }
                if fk.on_update_restrict {
                    s.push_str(" ON UPDATE RESTRICT");
                }
            }
            parts.push(s);
        }
        if self.pk.len() > 1 {
            parts.push(format!("PRIMARY KEY ({})", self.pk.join(", ")));
        }
        format!("CREATE TABLE {} ({})", self.name, parts.join(", "))
    }
}

/// DEFAULT takes a (signed) literal: `DEFAULT -2`, not the parenthesised form used inside expressions
pub fn default_sql(v: &V) -> String {
    match v {
        V::Int(i) => format!("{}", i),
        V::Float(f) => {
            if f.fract() == 0.0 && f.abs() < 1e15 {
                format!("{:.1}", f)
            } else {
                format!("{}", f)
            }
        }
        other => other.sql(),
    }
}

pub fn strip_outer_parens(s: &str) -> String {
    let t = s.trim();
    if t.starts_with('(') && t.ends_with(')') {
        // only strip if the parens match each other
        let mut depth = 0;
        for (i, c) in t.char_indices() {
            match c {
                '(' => depth += 1,
                ')' => {
                    depth -= 1;
                    if depth == 0 && i != t.len() - 1 {
                        return t.to_string();
                    }
                }
                _ => {}
            }
        }
        return t[1..t.len() - 1].to_string();
    }
    t.to_string()
}

#[derive(Clone, Debug)]
pub enum Stmt {
    CreateTable(TableDef),
    DropTable(String),
    CreateIndex { name: String, table: String, cols: Vec<String>, unique: bool },
    DropIndex(String),
    /// explicit column list (None = all columns in order); each row a list of expressions (literals mostly)
    Insert { table: String, cols: Option<Vec<String>>, rows: Vec<Vec<E>>, returning: bool },
    Update { table: String, sets: Vec<(String, E)>, where_: Option<E>, returning: bool },
    Delete { table: String, where_: Option<E>, returning: bool },
    Truncate(String),
    Begin,
    Commit,
    Rollback,
    Savepoint(String),
    RollbackTo(String),
    Release(String),
}

impl Stmt {
    pub fn sql(&self) -> String {
        match self {
            Stmt::CreateTable(t) => t.create_sql(),
            Stmt::DropTable(t) => format!("DROP TABLE {}", t),
            Stmt::CreateIndex { name, table, cols, unique } => format!("CREATE {}INDEX {} ON {} ({})", if *unique { "UNIQUE " } else { "" }, name, table, cols.join(", ")),
            Stmt::DropIndex(n) => format!("DROP INDEX {}", n),
            Stmt::Insert { table, cols, rows, returning } => {
                let c = cols.as_ref().map(|c| format!(" ({})", c.join(", "))).unwrap_or_default();
                let r: Vec<String> = rows.iter().map(|r| format!("({})", r.iter().map(|e| e.sql()).collect::<Vec<_>>().join(", "))).collect();
                format!("INSERT INTO {}{} VALUES {}{}", table, c, r.join(", "), if *returning { " RETURNING *" } else { "" })
            }
            Stmt::Update { table, sets, where_, returning } => {
                let s: Vec<String> = sets.iter().map(|(c, e)| format!("{} = {}", c, e.sql())).collect();
                format!("UPDATE {} SET {}{}{}", table, s.join(", "), where_.as_ref().map(|w| format!(" WHERE {}", w.sql())).unwrap_or_default(), if *returning { " RETURNING *" } else { "" })
            }
            Stmt::Delete { table, where_, returning } => format!("DELETE FROM {}{}{}", table, where_.as_ref().map(|w| format!(" WHERE {}", w.sql())).unwrap_or_default(), if *returning { " RETURNING *" } else { "" }),
            Stmt::Truncate(t) => format!("TRUNCATE TABLE {}", t),
            Stmt::Begin => "BEGIN".into(),
            Stmt::Commit => "COMMIT".into(),
            Stmt::Rollback => "ROLLBACK".into(),
            Stmt::Savepoint(n) => format!("SAVEPOINT {}", n),
            Stmt::RollbackTo(n) => format!("ROLLBACK TO {}", n),
            Stmt::Release(n) => format!("RELEASE {}", n),
        }
    }
    pub fn kind(&self) -> &'static str {
        match self {
            Stmt::CreateTable(_) => "create_table",
            Stmt::DropTable(_) => "drop_table",
            Stmt::CreateIndex { .. } => "create_index",
            Stmt::DropIndex(_) => "drop_index",
            Stmt::Insert { rows, .. } => {
                if rows.len() > 1 {
                    "insert_multi"
                } else {
                    "insert"
                }
            }
            Stmt::Update { .. } => "update",
            Stmt::Delete { .. } => "delete",
            Stmt::Truncate(_) => "truncate",
            Stmt::Begin => "begin",
            Stmt::Commit => "commit",
            Stmt::Rollback => "rollback",
            Stmt::Savepoint(_) => "savepoint",
            Stmt::RollbackTo(_) => "rollback_to",
            Stmt::Release(_) => "release",
        }
    }
    pub fn is_mutation(&self) -> bool {
        !matches!(self, Stmt::Begin | Stmt::Commit | Stmt::Savepoint(_) | Stmt::Release(_))
    }
}

#[derive(Clone, Debug, Default)]
pub struct Effect {
    pub rows_affected: Option<usize>,
    pub returning: Option<Vec<Row>>,
}

#[derive(Clone, Debug, Default)]
pub struct State {
    pub tables: BTreeMap<String, (TableDef, Vec<Row>)>,
    /// next AUTO_INCREMENT value per table
    pub autoinc: BTreeMap<String, i64>,
    /// rows removed by DELETE (or cascades) since the table was created / truncated. Pure bookkeeping for
    /// diagnosis ("the extra row TurDB shows is a row that was deleted earlier"); never consulted by `apply`.
    pub gone: BTreeMap<String, Vec<Row>>,
}

#[derive(Clone, Debug, Default)]
pub struct MDb {
    pub st: State,
    /// Some(snapshot at BEGIN) while a transaction is open
    pub txn: Option<State>,
    pub savepoints: Vec<(String, State)>,
    /// every value an AUTO_INCREMENT column ever held (C12 monitor): table -> set
    pub ever_held: BTreeMap<String, BTreeSet<i64>>,
    /// tables whose AUTO_INCREMENT counter is not determined any more (SQL/README do not say whether a
    /// rolled-back or failed statement consumes values): generating a value there is `Unsupported`
    pub ai_uncertain: BTreeSet<String>,
}

/// which constraint made the model reject a statement (for signatures)
fn cerr(kind: &str) -> MErr {
    MErr::Error(format!("constraint:{}", kind))
}

impl MDb {
    pub fn mtables(&self) -> BTreeMap<String, MTable> {
        self.st.tables.iter().map(|(k, (d, rows))| (k.clone(), MTable { name: d.name.clone(), cols: d.col_names(), rows: rows.clone() })).collect()
    }
    pub fn in_txn(&self) -> bool {
        self.txn.is_some()
    }

    fn eval_row_expr(&self, e: &E, def: &TableDef, row: &Row) -> Result<V, MErr> {
        let tables = self.mtables();
        let mut env = Env::new(&tables);
        env.frames.push(vec![Binding { alias: def.name.clone(), cols: def.col_names(), row: row.clone() }]);
        e.eval(&mut env)
    }

    /// type check / coerce a value for a column; Unsupported when the model does not pin the coercion
    fn coerce(v: V, ty: Ty) -> Result<V, MErr> {
        match (&v, ty) {
            (V::Null, _) => Ok(v),
            (V::Int(_), Ty::Int) | (V::Float(_), Ty::Float) | (V::Text(_), Ty::Text) | (V::Bool(_), Ty::Bool) => Ok(v),
            (V::Int(i), Ty::Float) => Ok(V::Float(*i as f64)),
            _ => Err(MErr::Unsupported(format!("coercion of {:?} to {:?}", v, ty))),
        }
    }

    /// all constraints of `table` hold for `rows` (+ FKs pointing into / out of it)
    fn check_table(&self, st: &State, name: &str) -> Result<(), MErr> {
        let (def, rows) = &st.tables[name];
        for r in rows {
            for (i, c) in def.cols.iter().enumerate() {
                if r[i].is_null() && (c.not_null || def.pk.iter().any(|p| p.eq_ignore_ascii_case(&c.name))) {
                    return Err(cerr("not_null"));
                }
                if let Some(ch) = &c.check {
                    // CHECK passes unless FALSE
                    if self.eval_row_expr(ch, def, r)?.truth() == Some(false) {
                        return Err(cerr("check"));
                    }
                }
            }
        }
        // PK / UNIQUE / unique indexes
        let mut keys: Vec<(Vec<usize>, &str)> = vec![];
        if !def.pk.is_empty() {
            keys.push((def.pk.iter().map(|p| def.col_idx(p).unwrap()).collect(), "primary_key"));
        }
        for (i, c) in def.cols.iter().enumerate() {
            if c.unique {
                keys.push((vec![i], "unique"));
            }
        }
        for (_, cols, unique) in &def.indexes {
            if *unique {
                keys.push((cols.iter().map(|c| def.col_idx(c).unwrap()).collect(), "unique_index"));
            }
        }
        for (idx, kind) in keys {
            let mut seen = BTreeSet::new();
            for r in rows {
                let k: Row = idx.iter().map(|i| r[*i].clone()).collect();
                if k.iter().any(|v| v.is_null()) {
                    continue;
                }
                if !seen.insert(row_key(&k, true)) {
                    return Err(cerr(kind));
                }
            }
        }
        Ok(())
    }

    /// for a uniqueness failure of an INSERT: is the duplicate among the new rows themselves (`within_statement`)
    /// or with a row that existed before (`with_existing`)?
    fn tag_dup_scope(&self, e: MErr, snap: &State, k: &str, n_old: usize) -> MErr {
        match e {
            MErr::Error(m) if m.contains("primary_key") || m.contains("unique") => {
                let mut only_new = snap.clone();
                let t = only_new.tables.get_mut(k).unwrap();
                t.1 = t.1[n_old..].to_vec();
                let within = self.check_table(&only_new, k).is_err();
                MErr::Error(format!("{}:{}", m, if within { "within_statement" } else { "with_existing" }))
            }
            other => other,
        }
    }

    fn check_fks(&self, st: &State) -> Result<(), MErr> {
        for (_, (def, rows)) in &st.tables {
            for fk in &def.fks {
                let ci = def.col_idx(&fk.col).unwrap();
                let (pdef, prows) = match st.tables.get(&fk.ref_table.to_lowercase()) {
                    Some(x) => x,
                    None => return Err(cerr("foreign_key_parent_missing")),
                };
                let pi = pdef.col_idx(&fk.ref_col).unwrap();
                for r in rows {
                    if r[ci].is_null() {
                        continue;
                    }
                    if !prows.iter().any(|p| p[pi].sql_cmp(&r[ci]) == Some(std::cmp::Ordering::Equal)) {
                        return Err(cerr("foreign_key"));
                    }
                }
            }
        }
        Ok(())
    }

    /// apply a statement; Err(Error) = SQL must reject it (state unchanged); Err(Unsupported) = not judged
    pub fn apply(&mut self, s: &Stmt) -> Result<Effect, MErr> {
        let mut st = self.st.clone();
        match self.apply_to(&mut st, s) {
            Ok(eff) => {
                self.st = st;
                Ok(eff)
            }
            Err(e) => {
                // a failed INSERT that had already drawn AUTO_INCREMENT values: whether they are consumed is open
                if let (MErr::Error(_), Stmt::Insert { table, .. }) = (&e, s) {
                    let k = table.to_lowercase();
                    if st.autoinc.get(&k) != self.st.autoinc.get(&k) {
                        self.ai_uncertain.insert(k);
                    }
                }
                Err(e)
            }
        }
    }

    /// for a multi-row INSERT the model rejects: (index of the first row whose prefix makes the statement
    /// fail, number of rows). None if the statement is not a rejected INSERT.
    pub fn first_failing_row(&self, s: &Stmt) -> Option<(usize, usize)> {
        if let Stmt::Insert { table, cols, rows, returning } = s {
            for k in 0..rows.len() {
                let prefix = Stmt::Insert { table: table.clone(), cols: cols.clone(), rows: rows[..=k].to_vec(), returning: *returning };
                let mut m = self.clone();
                if let Err(MErr::Error(_)) = m.apply(&prefix) {
                    return Some((k, rows.len()));
                }
            }
        }
        None
    }

    /// constraint kinds violated by an arbitrary state (used on the state dumped from TurDB): every declared
    /// PK/UNIQUE/NOT NULL/CHECK/FK is evaluated; returns e.g. ["t1:foreign_key", "t0:unique"]
    pub fn state_violations(&self, rows: &BTreeMap<String, Vec<Row>>) -> Vec<String> {
        let mut st = self.st.clone();
        for (k, r) in rows {
            if let Some(t) = st.tables.get_mut(k) {
                t.1 = r.clone();
            }
        }
        let mut out = vec![];
        let names: Vec<String> = st.tables.keys().cloned().collect();
        for k in &names {
            if let Err(MErr::Error(e)) = self.check_table(&st, k) {
                out.push(format!("{}:{}", k, e.replace("constraint:", "")));
            }
        }
        // per child table FK check
        for k in &names {
            let mut one = State::default();
            one.tables = st.tables.clone();
            for (kk, t) in one.tables.iter_mut() {
                if kk != k {
                    t.0.fks.clear();
                }
            }
            if let Err(MErr::Error(e)) = self.check_fks(&one) {
                out.push(format!("{}:{}", k, e.replace("constraint:", "")));
            }
        }
        out
    }

    fn apply_to(&mut self, st: &mut State, s: &Stmt) -> Result<Effect, MErr> {
        match s {
            Stmt::CreateTable(def) => {
                let k = def.name.to_lowercase();
                if st.tables.contains_key(&k) {
                    return Err(MErr::Error("table exists".into()));
                }
                for fk in &def.fks {
                    if !st.tables.contains_key(&fk.ref_table.to_lowercase()) {
                        return Err(MErr::Unsupported("fk to missing table".into()));
                    }
                }
                st.tables.insert(k.clone(), (def.clone(), vec![]));
                st.autoinc.insert(k, 1);
                Ok(Effect::default())
            }
            Stmt::DropTable(t) => {
                let k = t.to_lowercase();
                if !st.tables.contains_key(&k) {
                    return Err(MErr::Error("no such table".into()));
                }
                if st.tables.values().any(|(d, _)| d.fks.iter().any(|f| f.ref_table.eq_ignore_ascii_case(t)) && !d.name.eq_ignore_ascii_case(t)) {
                    return Err(MErr::Unsupported("drop of referenced table".into()));
                }
                st.tables.remove(&k);
                st.autoinc.remove(&k);
                st.gone.remove(&k);
                Ok(Effect::default())
            }
            Stmt::CreateIndex { name, table, cols, unique } => {
                let k = table.to_lowercase();
                if st.tables.values().any(|(d, _)| d.indexes.iter().any(|(n, _, _)| n.eq_ignore_ascii_case(name))) {
                    return Err(MErr::Error("index exists".into()));
                }
                let (def, _) = st.tables.get_mut(&k).ok_or_else(|| MErr::Error("no such table".into()))?;
                for c in cols {
                    if def.col_idx(c).is_none() {
                        return Err(MErr::Error("no such column".into()));
                    }
                }
                def.indexes.push((name.clone(), cols.clone(), *unique));
                if *unique {
                    let snapshot = st.clone();
                    if self.check_table(&snapshot, &k).is_err() {
                        return Err(cerr("unique_index_on_duplicates"));
                    }
                }
                Ok(Effect::default())
            }
            Stmt::DropIndex(n) => {
                for (_, (d, _)) in st.tables.iter_mut() {
                    if let Some(p) = d.indexes.iter().position(|(x, _, _)| x.eq_ignore_ascii_case(n)) {
                        d.indexes.remove(p);
                        return Ok(Effect::default());
                    }
                }
                Err(MErr::Error("no such index".into()))
            }
            Stmt::Insert { table, cols, rows, returning } => {
                let k = table.to_lowercase();
                let def = st.tables.get(&k).ok_or_else(|| MErr::Error("no such table".into()))?.0.clone();
                let names: Vec<String> = cols.clone().unwrap_or_else(|| def.col_names());
                let mut new_rows = vec![];
                let (mut saw_explicit_ai, mut saw_generated_ai) = (false, false);
                for r in rows {
                    if r.len() != names.len() {
                        return Err(MErr::Error("column count mismatch".into()));
                    }
                    let mut row: Row = def.cols.iter().map(|c| c.default.clone().unwrap_or(V::Null)).collect();
                    let mut given = vec![false; def.cols.len()];
                    for (n, e) in names.iter().zip(r) {
                        let i = def.col_idx(n).ok_or_else(|| MErr::Error("no such column".into()))?;
                        let v = self.eval_row_expr(e, &def, &vec![V::Null; def.cols.len()])?;
                        row[i] = Self::coerce(v, def.cols[i].ty)?;
                        given[i] = true;
                    }
                    // TurDB dialect (pinned by its own test suite, tests/prepared_statement_constraints.rs
                    // `prepared_insert_applies_default_for_explicit_null`): an explicit NULL written into a column that
                    // has a DEFAULT stores the default, exactly like an omitted column. Consequently a NOT NULL DEFAULT
                    // column accepts NULL, and CHECK / FK are evaluated on the default.
                    for (i, c) in def.cols.iter().enumerate() {
                        if given[i] && row[i].is_null() && !c.auto_inc {
                            if let Some(d) = &c.default {
                                row[i] = d.clone();
                            }
                        }
                    }
                    // AUTO_INCREMENT: NULL / omitted -> next value; explicit value above the counter advances it
                    for (i, c) in def.cols.iter().enumerate() {
                        if c.auto_inc {
                            let ctr = st.autoinc.entry(k.clone()).or_insert(1);
                            match &row[i] {
                                V::Null => {
                                    if self.ai_uncertain.contains(&k) {
                                        return Err(MErr::Unsupported("AUTO_INCREMENT value after a rolled-back / failed statement".into()));
                                    }
                                    if saw_explicit_ai {
                                        return Err(MErr::Unsupported("explicit and generated AUTO_INCREMENT values in one statement".into()));
                                    }
                                    saw_generated_ai = true;
                                    row[i] = V::Int(*ctr);
                                    *ctr += 1;
                                }
                                V::Int(x) => {
                                    if *x <= 0 {
                                        return Err(MErr::Unsupported("non-positive explicit AUTO_INCREMENT value".into()));
                                    }
                                    if saw_generated_ai {
                                        return Err(MErr::Unsupported("explicit and generated AUTO_INCREMENT values in one statement".into()));
                                    }
                                    saw_explicit_ai = true;
                                    if *x >= *ctr {
                                        *ctr = *x + 1;
                                    }
                                }
                                _ => {}
                            }
                            if let V::Int(x) = &row[i] {
                                self.ever_held.entry(k.clone()).or_default().insert(*x);
                            }
                        }
                    }
                    new_rows.push(row);
                }
                let n_old = st.tables[&k].1.len();
                st.tables.get_mut(&k).unwrap().1.extend(new_rows.iter().cloned());
                let snap = st.clone();
                if let Err(e) = self.check_table(&snap, &k) {
                    return Err(self.tag_dup_scope(e, &snap, &k, n_old));
                }
                self.check_fks(&snap)?;
                Ok(Effect { rows_affected: Some(new_rows.len()), returning: if *returning { Some(new_rows) } else { None } })
            }
            Stmt::Update { table, sets, where_, returning } => {
                let k = table.to_lowercase();
                let (def, rows) = st.tables.get(&k).ok_or_else(|| MErr::Error("no such table".into()))?.clone();
                let mut out = vec![];
                let mut changed = vec![];
                let mut n = 0;
                for r in &rows {
                    let hit = match where_ {
                        None => true,
                        Some(w) => self.eval_row_expr(w, &def, r)?.truth() == Some(true),
                    };
                    if hit {
                        n += 1;
                        let mut nr = r.clone();
                        for (c, e) in sets {
                            let i = def.col_idx(c).ok_or_else(|| MErr::Error("no such column".into()))?;
                            let v = self.eval_row_expr(e, &def, r)?;
                            nr[i] = Self::coerce(v, def.cols[i].ty)?;
                        }
                        changed.push(nr.clone());
                        out.push(nr);
                    } else {
                        out.push(r.clone());
                    }
                }
                // an UPDATE of a referenced parent key is judged like any other write: no ON UPDATE action is ever
                // declared by the generator (default NO ACTION), so it is valid iff no child is orphaned afterwards
                st.tables.get_mut(&k).unwrap().1 = out;
                let snap = st.clone();
                if let Err(e) = self.check_table(&snap, &k) {
                    // duplicate only among the rows this statement wrote?
                    let mut only_new = snap.clone();
                    only_new.tables.get_mut(&k).unwrap().1 = changed.clone();
                    let within = self.check_table(&only_new, &k).is_err();
                    return Err(match e {
                        MErr::Error(m) if m.contains("primary_key") || m.contains("unique") => MErr::Error(format!("{}:{}", m, if within { "within_statement" } else { "with_existing" })),
                        other => other,
                    });
                }
                self.check_fks(&snap)?;
                // ON UPDATE RESTRICT: a referenced key may not change at all. The statement got here, so every child
                // still finds a parent (another row supplies the key); RESTRICT and NO ACTION differ: not judged.
                for (_, (cd, crows)) in &snap.tables {
                    for f in cd.fks.iter().filter(|f| f.on_update_restrict && f.ref_table.eq_ignore_ascii_case(table)) {
                        let (pi, ci) = (def.col_idx(&f.ref_col).unwrap(), cd.col_idx(&f.col).unwrap());
                        for (j, r) in rows.iter().enumerate() {
                            let newr = &snap.tables[&k].1[j];
                            if r[pi].key(true) != newr[pi].key(true) && crows.iter().any(|c| c[ci].sql_cmp(&r[pi]) == Some(std::cmp::Ordering::Equal)) {
                                return Err(MErr::Unsupported("ON UPDATE RESTRICT where NO ACTION would pass".into()));
                            }
                        }
                    }
                }
                Ok(Effect { rows_affected: Some(n), returning: if *returning { Some(changed) } else { None } })
            }
            Stmt::Delete { table, where_, returning } => {
                let k = table.to_lowercase();
                let (def, rows) = st.tables.get(&k).ok_or_else(|| MErr::Error("no such table".into()))?.clone();
                let mut keep = vec![];
                let mut gone = vec![];
                for r in &rows {
                    let hit = match where_ {
                        None => true,
                        Some(w) => self.eval_row_expr(w, &def, r)?.truth() == Some(true),
                    };
                    if hit {
                        gone.push(r.clone());
                    } else {
                        keep.push(r.clone());
                    }
                }
                st.tables.get_mut(&k).unwrap().1 = keep;
                st.gone.entry(k.clone()).or_default().extend(gone.iter().cloned());
                // FK actions on children
                self.cascade_delete(st, &def, &gone)?;
                let snap = st.clone();
                self.check_fks(&snap)?;
                Ok(Effect { rows_affected: Some(gone.len()), returning: if *returning { Some(gone) } else { None } })
            }
            Stmt::Truncate(t) => {
                let k = t.to_lowercase();
                if !st.tables.contains_key(&k) {
                    return Err(MErr::Error("no such table".into()));
                }
                if st.tables.values().any(|(d, rows)| !rows.is_empty() && d.fks.iter().any(|f| f.ref_table.eq_ignore_ascii_case(t))) {
                    return Err(MErr::Unsupported("truncate of a referenced table".into()));
                }
                st.tables.get_mut(&k).unwrap().1.clear();
                st.gone.remove(&k);
                Ok(Effect::default())
            }
            Stmt::Begin => {
                if self.txn.is_some() {
                    return Err(MErr::Error("nested BEGIN".into()));
                }
                self.txn = Some(st.clone());
                self.savepoints.clear();
                Ok(Effect::default())
            }
            Stmt::Commit => {
                if self.txn.is_none() {
                    return Err(MErr::Error("COMMIT without BEGIN".into()));
                }
                self.txn = None;
                self.savepoints.clear();
                Ok(Effect::default())
            }
            Stmt::Rollback => match self.txn.take() {
                None => Err(MErr::Error("ROLLBACK without BEGIN".into())),
                Some(snap) => {
                    // AUTO_INCREMENT counters are not required to roll back (values must never be reused)
                    let ctr = st.autoinc.clone();
                    *st = snap;
                    for (k, v) in ctr {
                        if let Some(c) = st.autoinc.get_mut(&k) {
                            if *c != v {
                                self.ai_uncertain.insert(k.clone());
                            }
                            *c = (*c).max(v);
                        }
                    }
                    self.savepoints.clear();
                    Ok(Effect::default())
                }
            },
            Stmt::Savepoint(n) => {
                if self.txn.is_none() {
                    return Err(MErr::Error("SAVEPOINT outside transaction".into()));
                }
                self.savepoints.push((n.clone(), st.clone()));
                Ok(Effect::default())
            }
            Stmt::RollbackTo(n) => {
                if self.txn.is_none() {
                    return Err(MErr::Error("ROLLBACK TO outside transaction".into()));
                }
                match self.savepoints.iter().rposition(|(x, _)| x.eq_ignore_ascii_case(n)) {
                    None => Err(MErr::Error("no such savepoint".into())),
                    Some(p) => {
                        let ctr = st.autoinc.clone();
                        *st = self.savepoints[p].1.clone();
                        for (k, v) in ctr {
                            if let Some(c) = st.autoinc.get_mut(&k) {
                                if *c != v {
                                    self.ai_uncertain.insert(k.clone());
                                }
                                *c = (*c).max(v);
                            }
                        }
                        self.savepoints.truncate(p + 1);
                        Ok(Effect::default())
                    }
                }
            }
            Stmt::Release(n) => {
                if self.txn.is_none() {
                    return Err(MErr::Error("RELEASE outside transaction".into()));
                }
                match self.savepoints.iter().rposition(|(x, _)| x.eq_ignore_ascii_case(n)) {
                    None => Err(MErr::Error("no such savepoint".into())),
                    Some(p) => {
                        self.savepoints.truncate(p);
                        Ok(Effect::default())
                    }
                }
            }
        }
    }

    fn cascade_delete(&self, st: &mut State, parent: &TableDef, gone: &[Row]) -> Result<(), MErr> {
        if gone.is_empty() {
            return Ok(());
        }
        let children: Vec<(String, FkDef)> = st.tables.iter().flat_map(|(k, (d, _))| d.fks.iter().filter(|f| f.ref_table.eq_ignore_ascii_case(&parent.name)).map(|f| (k.clone(), f.clone())).collect::<Vec<_>>()).collect();
        for (ck, fk) in children {
            let pi = parent.col_idx(&fk.ref_col).unwrap();
            let (cdef, crows) = st.tables.get(&ck).unwrap().clone();
            let ci = cdef.col_idx(&fk.col).unwrap();
            let refs = |r: &Row| gone.iter().any(|g| !r[ci].is_null() && g[pi].sql_cmp(&r[ci]) == Some(std::cmp::Ordering::Equal));
            // a parent key that still exists in a surviving parent row keeps the child valid
            match fk.on_delete {
                FkAction::Restrict => {
                    let surviving = &st.tables[&parent.name.to_lowercase()].1;
                    if crows.iter().any(|r| refs(r) && !surviving.iter().any(|p| p[pi].sql_cmp(&r[ci]) == Some(std::cmp::Ordering::Equal))) {
                        return Err(cerr("foreign_key_restrict"));
                    }
                }
                FkAction::Cascade => {
                    let (keep, removed): (Vec<Row>, Vec<Row>) = crows.into_iter().partition(|r| !refs(r));
                    st.tables.get_mut(&ck).unwrap().1 = keep;
                    st.gone.entry(ck.clone()).or_default().extend(removed.iter().cloned());
                    self.cascade_delete(st, &cdef, &removed)?;
                }
            }
        }
        Ok(())
    }
}

/// truth value of a column-level CHECK for one candidate value of its column (None = NULL/undecided)
pub fn check_truth(ch: &E, col_name: &str, v: &V) -> Option<bool> {
    let tables = BTreeMap::new();
    let mut env = Env::new(&tables);
    env.frames.push(vec![Binding { alias: "t".into(), cols: vec![col_name.to_string()], row: vec![v.clone()] }]);
    match ch.eval(&mut env) {
        Ok(x) => x.truth(),
        Err(_) => None,
    }
}

/// coarse syntactic form of a CHECK expression (signature feature: CHECK evaluation in TurDB is string based)
pub fn check_form(e: &E) -> String {
    use super::expr::BinOp;
    match e {
        E::Bin(BinOp::And, _, _) => "and".into(),
        E::Bin(BinOp::Or, _, _) => "or".into(),
        E::Bin(op, a, _) if op.is_cmp() => {
            let rev = !matches!(**a, E::Col { .. });
            let o = match op {
                BinOp::Eq => "eq",
                BinOp::Ne => "ne",
                BinOp::Lt | BinOp::Le | BinOp::Gt | BinOp::Ge => "ineq",
                _ => "cmp",
            };
            if rev {
                format!("{}_reversed", o)
            } else {
                o.into()
            }
        }
        E::Between(_, _, _, n) => if *n { "not_between".into() } else { "between".into() },
        E::InList(_, _, n) => if *n { "not_in".into() } else { "in".into() },
        E::Not(_) => "not".into(),
        E::IsNull(..) => "is_null".into(),
        _ => "other".into(),
    }
}

/// `SELECT * FROM t` item list helper
pub fn star() -> Vec<Item> {
    vec![Item::Star]
}

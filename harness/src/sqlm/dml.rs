//! (placeholder) DML reference model lives here.

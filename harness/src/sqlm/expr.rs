//! Expression AST, SQL rendering and reference evaluation (SQL three-valued logic).
use super::query::{eval_query, Query};
use super::val::{Row, V};
use std::cmp::Ordering;
use std::collections::BTreeMap;

#[derive(Clone, Copy, Debug, PartialEq, Eq, Hash)]
pub enum BinOp {
    Add,
    Sub,
    Mul,
    Div,
    Mod,
    Eq,
    Ne,
    Lt,
    Le,
    Gt,
    Ge,
    And,
    Or,
}

impl BinOp {
    pub fn sql(&self) -> &'static str {
        match self {
            BinOp::Add => "+",
            BinOp::Sub => "-",
            BinOp::Mul => "*",
            BinOp::Div => "/",
            BinOp::Mod => "%",
            BinOp::Eq => "=",
            BinOp::Ne => "<>",
            BinOp::Lt => "<",
            BinOp::Le => "<=",
            BinOp::Gt => ">",
            BinOp::Ge => ">=",
            BinOp::And => "AND",
            BinOp::Or => "OR",
        }
    }
    pub fn is_cmp(&self) -> bool {
        matches!(self, BinOp::Eq | BinOp::Ne | BinOp::Lt | BinOp::Le | BinOp::Gt | BinOp::Ge)
    }
    pub fn is_arith(&self) -> bool {
        matches!(self, BinOp::Add | BinOp::Sub | BinOp::Mul | BinOp::Div | BinOp::Mod)
    }
}

#[derive(Clone, Copy, Debug, PartialEq, Eq, Hash)]
pub enum AggFn {
    CountStar,
    Count,
    Sum,
    Avg,
    Min,
    Max,
}

impl AggFn {
    pub fn name(&self) -> &'static str {
        match self {
            AggFn::CountStar | AggFn::Count => "COUNT",
            AggFn::Sum => "SUM",
            AggFn::Avg => "AVG",
            AggFn::Min => "MIN",
            AggFn::Max => "MAX",
        }
    }
}

#[derive(Clone, Debug)]
pub enum E {
    Col { tbl: Option<String>, name: String },
    Lit(V),
    Neg(Box<E>),
    /// NOT (operand always rendered parenthesised)
    Not(Box<E>),
    Bin(BinOp, Box<E>, Box<E>),
    IsNull(Box<E>, bool),
    InList(Box<E>, Vec<E>, bool),
    Between(Box<E>, Box<E>, Box<E>, bool),
    Like(Box<E>, Box<E>, bool),
    Case { whens: Vec<(E, E)>, els: Option<Box<E>> },
    Func(String, Vec<E>),
    InSub(Box<E>, Box<Query>, bool),
    Exists(Box<Query>, bool),
    Scalar(Box<Query>),
    Agg(AggFn, Option<Box<E>>),
}

/// coarse operand class for signatures. Column classes rely on the generator's naming
/// convention (first letter i/f/t/b = type; `id` = integer primary key).
pub fn operand_class(e: &E) -> String {
    match e {
        E::Col { name, .. } => {
            if name.eq_ignore_ascii_case("id") {
                "pkcol".into()
            } else {
                match name.chars().next() {
                    Some('i') => "intcol".into(),
                    Some('f') => "floatcol".into(),
                    Some('t') => "textcol".into(),
                    Some('b') => "boolcol".into(),
                    _ => "col".into(),
                }
            }
        }
        E::Lit(V::Null) => "null".into(),
        E::Lit(V::Int(_)) => "intlit".into(),
        E::Lit(V::Float(_)) => "floatlit".into(),
        E::Lit(V::Text(_)) => "textlit".into(),
        E::Lit(V::Bool(_)) => "boollit".into(),
        E::Lit(_) => "lit".into(),
        _ => "expr".into(),
    }
}

pub fn col(name: &str) -> E {
    E::Col { tbl: None, name: name.to_string() }
}
pub fn qcol(t: &str, name: &str) -> E {
    E::Col { tbl: Some(t.to_string()), name: name.to_string() }
}
pub fn lit(v: V) -> E {
    E::Lit(v)
}
pub fn bin(op: BinOp, a: E, b: E) -> E {
    E::Bin(op, Box::new(a), Box::new(b))
}

#[derive(Clone, Debug, PartialEq)]
pub enum MErr {
    /// the model predicts that SQL raises an error (any error from TurDB is accepted)
    Error(String),
    /// the model cannot decide: the case is dropped, never judged
    Unsupported(String),
}

/// one frame of bindings: (alias, column names, row)
#[derive(Clone, Debug)]
pub struct Binding {
    pub alias: String,
    pub cols: Vec<String>,
    pub row: Row,
}

/// environment: innermost frame last; `tables` = base tables for subqueries
pub struct Env<'a> {
    pub frames: Vec<Vec<Binding>>,
    pub tables: &'a BTreeMap<String, super::query::MTable>,
    /// when evaluating in a grouped context: the rows of the current group (each a frame)
    pub group: Option<Vec<Vec<Binding>>>,
}

impl<'a> Env<'a> {
    pub fn new(tables: &'a BTreeMap<String, super::query::MTable>) -> Env<'a> {
        Env { frames: vec![], tables, group: None }
    }
    pub fn lookup(&self, tbl: &Option<String>, name: &str) -> Result<V, MErr> {
        for frame in self.frames.iter().rev() {
            let mut found: Option<V> = None;
            let mut n = 0;
            for b in frame {
                if let Some(t) = tbl {
                    if !b.alias.eq_ignore_ascii_case(t) {
                        continue;
                    }
                }
                if let Some(i) = b.cols.iter().position(|c| c.eq_ignore_ascii_case(name)) {
                    n += 1;
                    found = Some(b.row[i].clone());
                }
            }
            if n == 1 {
                return Ok(found.unwrap());
            }
            if n > 1 {
                return Err(MErr::Unsupported(format!("ambiguous column {}", name)));
            }
        }
        Err(MErr::Error(format!("unknown column {:?}.{}", tbl, name)))
    }
}

impl E {
    pub fn sql(&self) -> String {
        match self {
            E::Col { tbl: Some(t), name } => format!("{}.{}", t, name),
            E::Col { tbl: None, name } => name.clone(),
            E::Lit(v) => v.sql(),
            E::Neg(e) => format!("(-{})", e.sql()),
            E::Not(e) => format!("(NOT ({}))", e.sql()),
            E::Bin(op, a, b) => format!("({} {} {})", a.sql(), op.sql(), b.sql()),
            E::IsNull(e, neg) => format!("({} IS {}NULL)", e.sql(), if *neg { "NOT " } else { "" }),
            E::InList(e, l, neg) => format!("({} {}IN ({}))", e.sql(), if *neg { "NOT " } else { "" }, l.iter().map(|x| x.sql()).collect::<Vec<_>>().join(", ")),
            E::Between(e, lo, hi, neg) => format!("({} {}BETWEEN {} AND {})", e.sql(), if *neg { "NOT " } else { "" }, lo.sql(), hi.sql()),
            E::Like(e, p, neg) => format!("({} {}LIKE {})", e.sql(), if *neg { "NOT " } else { "" }, p.sql()),
            E::Case { whens, els } => {
                let mut s = String::from("(CASE");
                for (w, t) in whens {
                    s.push_str(&format!(" WHEN {} THEN {}", w.sql(), t.sql()));
                }
                if let Some(e) = els {
                    s.push_str(&format!(" ELSE {}", e.sql()));
                }
                s.push_str(" END)");
                s
            }
            E::Func(n, args) => format!("{}({})", n, args.iter().map(|x| x.sql()).collect::<Vec<_>>().join(", ")),
            E::InSub(e, q, neg) => format!("({} {}IN ({}))", e.sql(), if *neg { "NOT " } else { "" }, q.sql()),
            E::Exists(q, neg) => format!("({}EXISTS ({}))", if *neg { "NOT " } else { "" }, q.sql()),
            E::Scalar(q) => format!("({})", q.sql()),
            E::Agg(AggFn::CountStar, _) => "COUNT(*)".to_string(),
            E::Agg(f, Some(e)) => format!("{}({})", f.name(), e.sql()),
            E::Agg(f, None) => format!("{}(*)", f.name()),
        }
    }

    pub fn has_agg(&self) -> bool {
        let mut found = false;
        self.visit(&mut |e| {
            if matches!(e, E::Agg(..)) {
                found = true
            }
        });
        found
    }

    /// visit this node and sub-expressions (not descending into subqueries)
    pub fn visit(&self, f: &mut dyn FnMut(&E)) {
        f(self);
        match self {
            E::Neg(e) | E::Not(e) | E::IsNull(e, _) => e.visit(f),
            E::Bin(_, a, b) => {
                a.visit(f);
                b.visit(f)
            }
            E::InList(e, l, _) => {
                e.visit(f);
                for x in l {
                    x.visit(f)
                }
            }
            E::Between(e, lo, hi, _) => {
                e.visit(f);
                lo.visit(f);
                hi.visit(f)
            }
            E::Like(e, p, _) => {
                e.visit(f);
                p.visit(f)
            }
            E::Case { whens, els } => {
                for (w, t) in whens {
                    w.visit(f);
                    t.visit(f)
                }
                if let Some(e) = els {
                    e.visit(f)
                }
            }
            E::Func(_, args) => {
                for x in args {
                    x.visit(f)
                }
            }
            E::InSub(e, _, _) => e.visit(f),
            E::Agg(_, Some(e)) => e.visit(f),
            _ => {}
        }
    }

    /// feature tags of this expression tree (used for signatures / stratification)
    pub fn features(&self, out: &mut std::collections::BTreeSet<String>) {
        self.visit(&mut |e| {
            let t = match e {
                E::Not(_) => Some("not".to_string()),
                E::Neg(_) => Some("neg".to_string()),
                E::Bin(op, _, _) if op.is_arith() => Some(format!("arith{}", op.sql())),
                E::Bin(BinOp::And, _, _) => Some("and".into()),
                E::Bin(BinOp::Or, _, _) => Some("or".into()),
                E::Bin(_, a, b) => Some(format!("cmp({},{})", operand_class(a), operand_class(b))),
                E::IsNull(_, n) => Some(if *n { "is_not_null".into() } else { "is_null".into() }),
                E::InList(_, _, n) => Some(if *n { "not_in_list".into() } else { "in_list".into() }),
                E::Between(_, _, _, n) => Some(if *n { "not_between".into() } else { "between".into() }),
                E::Like(_, _, n) => Some(if *n { "not_like".into() } else { "like".into() }),
                E::Case { .. } => Some("case".into()),
                E::Func(n, _) => Some(format!("fn:{}", n.to_lowercase())),
                E::InSub(_, _, n) => Some(if *n { "not_in_subquery".into() } else { "in_subquery".into() }),
                E::Exists(_, n) => Some(if *n { "not_exists".into() } else { "exists".into() }),
                E::Scalar(_) => Some("scalar_subquery".into()),
                E::Agg(f, _) => Some(format!("agg:{:?}", f).to_lowercase()),
                _ => None,
            };
            if let Some(t) = t {
                out.insert(t);
            }
        });
    }

    /// immediate sub-expressions that have the same "kind" and can replace this node when shrinking
    pub fn shrink_candidates(&self) -> Vec<E> {
        match self {
            E::Not(e) => vec![(**e).clone()],
            E::Bin(BinOp::And, a, b) | E::Bin(BinOp::Or, a, b) => vec![(**a).clone(), (**b).clone()],
            E::Bin(op, a, b) if op.is_arith() => vec![(**a).clone(), (**b).clone()],
            E::Neg(e) => vec![(**e).clone()],
            E::Case { whens, els } => {
                let mut v: Vec<E> = whens.iter().map(|(_, t)| t.clone()).collect();
                if let Some(e) = els {
                    v.push((**e).clone());
                }
                v
            }
            _ => vec![],
        }
    }

    pub fn eval(&self, env: &mut Env) -> Result<V, MErr> {
        match self {
            E::Col { tbl, name } => env.lookup(tbl, name),
            E::Lit(v) => Ok(v.clone()),
            E::Neg(e) => match e.eval(env)? {
                V::Null => Ok(V::Null),
                V::Int(i) => i.checked_neg().map(V::Int).ok_or_else(|| MErr::Error("integer overflow".into())),
                V::Float(f) => Ok(V::Float(-f)),
                other => Err(MErr::Unsupported(format!("neg of {:?}", other))),
            },
            E::Not(e) => Ok(match e.eval(env)?.truth() {
                None => V::Null,
                Some(b) => V::Bool(!b),
            }),
            E::Bin(BinOp::And, a, b) => {
                let x = a.eval(env)?.truth();
                let y = b.eval(env)?.truth();
                Ok(match (x, y) {
                    (Some(false), _) | (_, Some(false)) => V::Bool(false),
                    (Some(true), Some(true)) => V::Bool(true),
                    _ => V::Null,
                })
            }
            E::Bin(BinOp::Or, a, b) => {
                let x = a.eval(env)?.truth();
                let y = b.eval(env)?.truth();
                Ok(match (x, y) {
                    (Some(true), _) | (_, Some(true)) => V::Bool(true),
                    (Some(false), Some(false)) => V::Bool(false),
                    _ => V::Null,
                })
            }
            E::Bin(op, a, b) if op.is_cmp() => {
                let x = a.eval(env)?;
                let y = b.eval(env)?;
                cmp_op(*op, &x, &y)
            }
            E::Bin(op, a, b) => {
                let x = a.eval(env)?;
                let y = b.eval(env)?;
                arith(*op, &x, &y)
            }
            E::IsNull(e, neg) => {
                let v = e.eval(env)?;
                Ok(V::Bool(v.is_null() != *neg))
            }
            E::InList(e, l, neg) => {
                let v = e.eval(env)?;
                let mut vals = vec![];
                for x in l {
                    vals.push(x.eval(env)?);
                }
                in_values(&v, &vals, *neg)
            }
            E::Between(e, lo, hi, neg) => {
                let v = e.eval(env)?;
                let l = lo.eval(env)?;
                let h = hi.eval(env)?;
                let a = cmp_op(BinOp::Ge, &v, &l)?.truth();
                let b = cmp_op(BinOp::Le, &v, &h)?.truth();
                let r = match (a, b) {
                    (Some(false), _) | (_, Some(false)) => Some(false),
                    (Some(true), Some(true)) => Some(true),
                    _ => None,
                };
                Ok(match r {
                    None => V::Null,
                    Some(x) => V::Bool(x != *neg),
                })
            }
            E::Like(e, p, neg) => {
                let v = e.eval(env)?;
                let pv = p.eval(env)?;
                match (v, pv) {
                    (V::Null, _) | (_, V::Null) => Ok(V::Null),
                    (V::Text(s), V::Text(pat)) => Ok(V::Bool(like_match(s.as_bytes(), pat.as_bytes()) != *neg)),
                    (a, b) => Err(MErr::Unsupported(format!("LIKE on {:?} {:?}", a, b))),
                }
            }
            E::Case { whens, els } => {
                for (w, t) in whens {
                    if w.eval(env)?.truth() == Some(true) {
                        return t.eval(env);
                    }
                }
                match els {
                    Some(e) => e.eval(env),
                    None => Ok(V::Null),
                }
            }
            E::Func(n, args) => {
                let mut vals = vec![];
                for a in args {
                    vals.push(a.eval(env)?);
                }
                eval_func(n, &vals)
            }
            E::InSub(e, q, neg) => {
                let v = e.eval(env)?;
                let r = eval_query(q, env)?;
                if r.cols.len() != 1 {
                    return Err(MErr::Error("subquery must return one column".into()));
                }
                let vals: Vec<V> = r.rows.into_iter().map(|mut r| r.remove(0)).collect();
                in_values(&v, &vals, *neg)
            }
            E::Exists(q, neg) => {
                let r = eval_query(q, env)?;
                Ok(V::Bool(r.rows.is_empty() == *neg))
            }
            E::Scalar(q) => {
                let r = eval_query(q, env)?;
                if r.cols.len() != 1 {
                    return Err(MErr::Error("scalar subquery must return one column".into()));
                }
                match r.rows.len() {
                    0 => Ok(V::Null),
                    1 => Ok(r.rows[0][0].clone()),
                    _ => Err(MErr::Error("scalar subquery returned more than one row".into())),
                }
            }
            E::Agg(f, arg) => {
                let group = match env.group.take() {
                    Some(g) => g,
                    None => return Err(MErr::Error("aggregate outside of grouped context".into())),
                };
                let mut vals: Vec<V> = vec![];
                let mut err = None;
                for frame in &group {
                    match arg {
                        None => vals.push(V::Int(1)),
                        Some(a) => {
                            env.frames.push(frame.clone());
                            let r = a.eval(env);
                            env.frames.pop();
                            match r {
                                Ok(v) => vals.push(v),
                                Err(e) => {
                                    err = Some(e);
                                    break;
                                }
                            }
                        }
                    }
                }
                env.group = Some(group);
                if let Some(e) = err {
                    return Err(e);
                }
                aggregate(*f, &vals)
            }
        }
    }
}

pub fn aggregate(f: AggFn, vals: &[V]) -> Result<V, MErr> {
    let nn: Vec<&V> = vals.iter().filter(|v| !v.is_null()).collect();
    match f {
        AggFn::CountStar => Ok(V::Int(vals.len() as i64)),
        AggFn::Count => Ok(V::Int(nn.len() as i64)),
        AggFn::Sum => {
            if nn.is_empty() {
                return Ok(V::Null);
            }
            if nn.iter().all(|v| matches!(v, V::Int(_))) {
                let mut s: i64 = 0;
                for v in &nn {
                    if let V::Int(i) = v {
                        s = s.checked_add(*i).ok_or_else(|| MErr::Unsupported("sum overflow".into()))?;
                    }
                }
                Ok(V::Int(s))
            } else {
                let mut s = 0.0;
                for v in &nn {
                    s += v.as_f64().ok_or_else(|| MErr::Unsupported("sum of non-numeric".into()))?;
                }
                Ok(V::Float(s))
            }
        }
        AggFn::Avg => {
            if nn.is_empty() {
                return Ok(V::Null);
            }
            let mut s = 0.0;
            for v in &nn {
                s += v.as_f64().ok_or_else(|| MErr::Unsupported("avg of non-numeric".into()))?;
            }
            Ok(V::Float(s / nn.len() as f64))
        }
        AggFn::Min | AggFn::Max => {
            if nn.is_empty() {
                return Ok(V::Null);
            }
            let mut best = nn[0].clone();
            for v in &nn[1..] {
                let c = v.sql_cmp(&best).ok_or_else(|| MErr::Unsupported("min/max of incomparable".into()))?;
                if (f == AggFn::Min && c == Ordering::Less) || (f == AggFn::Max && c == Ordering::Greater) {
                    best = (*v).clone();
                }
            }
            Ok(best)
        }
    }
}

pub fn in_values(v: &V, vals: &[V], neg: bool) -> Result<V, MErr> {
    if v.is_null() {
        // NULL IN (empty) is FALSE; NULL IN (non-empty) is NULL
        return Ok(if vals.is_empty() { V::Bool(neg) } else { V::Null });
    }
    let mut saw_null = false;
    for x in vals {
        if x.is_null() {
            saw_null = true;
            continue;
        }
        match v.sql_cmp(x) {
            Some(Ordering::Equal) => return Ok(V::Bool(!neg)),
            Some(_) => {}
            None => return Err(MErr::Unsupported(format!("IN compares {:?} with {:?}", v, x))),
        }
    }
    if saw_null {
        Ok(V::Null)
    } else {
        Ok(V::Bool(neg))
    }
}

pub fn cmp_op(op: BinOp, x: &V, y: &V) -> Result<V, MErr> {
    if x.is_null() || y.is_null() {
        return Ok(V::Null);
    }
    // NaN: not generated; treat as unsupported
    let c = match x.sql_cmp(y) {
        Some(c) => c,
        None => return Err(MErr::Unsupported(format!("compare {:?} with {:?}", x, y))),
    };
    let b = match op {
        BinOp::Eq => c == Ordering::Equal,
        BinOp::Ne => c != Ordering::Equal,
        BinOp::Lt => c == Ordering::Less,
        BinOp::Le => c != Ordering::Greater,
        BinOp::Gt => c == Ordering::Greater,
        BinOp::Ge => c != Ordering::Less,
        _ => unreachable!(),
    };
    Ok(V::Bool(b))
}

pub fn arith(op: BinOp, x: &V, y: &V) -> Result<V, MErr> {
    if x.is_null() || y.is_null() {
        return Ok(V::Null);
    }
    match (x, y) {
        (V::Int(a), V::Int(b)) => {
            let r = match op {
                BinOp::Add => a.checked_add(*b),
                BinOp::Sub => a.checked_sub(*b),
                BinOp::Mul => a.checked_mul(*b),
                BinOp::Div => {
                    if *b == 0 {
                        return Err(MErr::Unsupported("division by zero (NULL or error)".into()));
                    }
                    a.checked_div(*b)
                }
                BinOp::Mod => {
                    if *b == 0 {
                        return Err(MErr::Unsupported("modulo by zero (NULL or error)".into()));
                    }
                    a.checked_rem(*b)
                }
                _ => unreachable!(),
            };
            r.map(V::Int).ok_or_else(|| MErr::Error("integer overflow".into()))
        }
        (a, b) if a.is_numeric() && b.is_numeric() => {
            let (a, b) = (a.as_f64().unwrap(), b.as_f64().unwrap());
            let r = match op {
                BinOp::Add => a + b,
                BinOp::Sub => a - b,
                BinOp::Mul => a * b,
                BinOp::Div => {
                    if b == 0.0 {
                        return Err(MErr::Unsupported("division by zero".into()));
                    }
                    a / b
                }
                BinOp::Mod => return Err(MErr::Unsupported("float modulo".into())),
                _ => unreachable!(),
            };
            Ok(V::Float(r))
        }
        (a, b) => Err(MErr::Unsupported(format!("arith on {:?} {:?}", a, b))),
    }
}

/// SQL LIKE with % and _ (bytewise, case-sensitive; the generator uses ASCII only)
pub fn like_match(s: &[u8], p: &[u8]) -> bool {
    if p.is_empty() {
        return s.is_empty();
    }
    match p[0] {
        b'%' => {
            for i in 0..=s.len() {
                if like_match(&s[i..], &p[1..]) {
                    return true;
                }
            }
            false
        }
        b'_' => !s.is_empty() && like_match(&s[1..], &p[1..]),
        c => !s.is_empty() && s[0] == c && like_match(&s[1..], &p[1..]),
    }
}

pub fn eval_func(name: &str, args: &[V]) -> Result<V, MErr> {
    let n = name.to_ascii_uppercase();
    match (n.as_str(), args) {
        ("COALESCE", a) => Ok(a.iter().find(|v| !v.is_null()).cloned().unwrap_or(V::Null)),
        ("IFNULL", [a, b]) => Ok(if a.is_null() { b.clone() } else { a.clone() }),
        ("NULLIF", [a, b]) => match cmp_op(BinOp::Eq, a, b)? {
            V::Bool(true) => Ok(V::Null),
            _ => Ok(a.clone()),
        },
        ("ABS", [V::Null]) => Ok(V::Null),
        ("ABS", [V::Int(i)]) => i.checked_abs().map(V::Int).ok_or_else(|| MErr::Error("overflow".into())),
        ("ABS", [V::Float(f)]) => Ok(V::Float(f.abs())),
        ("UPPER", [V::Null]) | ("LOWER", [V::Null]) | ("LENGTH", [V::Null]) => Ok(V::Null),
        ("UPPER", [V::Text(s)]) if s.is_ascii() => Ok(V::Text(s.to_ascii_uppercase())),
        ("LOWER", [V::Text(s)]) if s.is_ascii() => Ok(V::Text(s.to_ascii_lowercase())),
        ("LENGTH", [V::Text(s)]) if s.is_ascii() => Ok(V::Int(s.len() as i64)),
        _ => Err(MErr::Unsupported(format!("function {}", name))),
    }
}

impl E {
    /// all single-step, type-preserving simplifications of this tree (at any depth); used for shrinking
    pub fn rewrites(&self) -> Vec<E> {
        let mut out = self.shrink_candidates();
        let b = |e: &E| Box::new(e.clone());
        match self {
            E::Neg(e) => out.extend(e.rewrites().into_iter().map(|x| E::Neg(Box::new(x)))),
            E::Not(e) => out.extend(e.rewrites().into_iter().map(|x| E::Not(Box::new(x)))),
            E::IsNull(e, n) => out.extend(e.rewrites().into_iter().map(|x| E::IsNull(Box::new(x), *n))),
            E::Bin(op, l, r) => {
                out.extend(l.rewrites().into_iter().map(|x| E::Bin(*op, Box::new(x), b(r))));
                out.extend(r.rewrites().into_iter().map(|x| E::Bin(*op, b(l), Box::new(x))));
            }
            E::InList(e, l, n) => {
                if l.len() > 1 {
                    for i in 0..l.len() {
                        let mut l2 = l.clone();
                        l2.remove(i);
                        out.push(E::InList(b(e), l2, *n));
                    }
                }
                out.extend(e.rewrites().into_iter().map(|x| E::InList(Box::new(x), l.clone(), *n)));
            }
            E::Between(e, lo, hi, n) => out.extend(e.rewrites().into_iter().map(|x| E::Between(Box::new(x), b(lo), b(hi), *n))),
            E::Like(e, p, n) => out.extend(e.rewrites().into_iter().map(|x| E::Like(Box::new(x), b(p), *n))),
            E::Func(name, args) => {
                for i in 0..args.len() {
                    for x in args[i].rewrites() {
                        let mut a2 = args.clone();
                        a2[i] = x;
                        out.push(E::Func(name.clone(), a2));
                    }
                }
            }
            _ => {}
        }
        out
    }
    pub fn size(&self) -> usize {
        let mut n = 0;
        self.visit(&mut |_| n += 1);
        n
    }
}

/// greedy shrink: repeatedly take the first rewrite for which `fails` still holds
pub fn shrink_expr(e: &E, fails: &mut dyn FnMut(&E) -> bool, budget: usize) -> E {
    let mut cur = e.clone();
    let mut left = budget;
    'outer: loop {
        for cand in cur.rewrites() {
            if left == 0 {
                break 'outer;
            }
            left -= 1;
            if cand.size() < cur.size() && fails(&cand) {
                cur = cand;
                continue 'outer;
            }
        }
        break;
    }
    cur
}

//! Generators: typed tables with NULL strata, typed expression trees.
use super::expr::{bin, BinOp, E};
use super::query::MTable;
use super::val::{Row, V};
use crate::rng::Rng;

#[derive(Clone, Copy, Debug, PartialEq, Eq, Hash)]
pub enum Ty {
    Int,
    Float,
    Text,
    Bool,
}

impl Ty {
    pub fn sql(&self) -> &'static str {
        match self {
            Ty::Int => "BIGINT",
            Ty::Float => "DOUBLE",
            Ty::Text => "TEXT",
            Ty::Bool => "BOOLEAN",
        }
    }
}

#[derive(Clone, Debug)]
pub struct ColSpec {
    pub name: String,
    pub ty: Ty,
    /// probability (permille) of NULL
    pub null_pm: u64,
}

#[derive(Clone, Debug)]
pub struct TableSpec {
    pub name: String,
    pub cols: Vec<ColSpec>,
    /// first column is "id BIGINT PRIMARY KEY" (unique, non-null)
    pub with_pk: bool,
}

pub const WORDS: &[&str] = &["", "a", "b", "ab", "abc", "abcd", "abcde", "b%", "a_c", "ba", "zz", "abab", "c", "ca", "abcx"];

pub fn gen_value(rng: &mut Rng, ty: Ty, null_pm: u64) -> V {
    if rng.below(1000) < null_pm {
        return V::Null;
    }
    match ty {
        Ty::Int => {
            let r = rng.below(10);
            if r < 6 {
                V::Int(rng.range(-5, 12))
            } else if r < 9 {
                V::Int(rng.range(-1000, 1000))
            } else {
                V::Int(*rng.pick(&[0i64, 1, -1, 100000, -100000, 2147483647, -2147483648]))
            }
        }
        // exactly representable quarters so that sums are order independent
        Ty::Float => V::Float(rng.range(-40, 60) as f64 / 4.0),
        Ty::Text => V::Text(rng.pick(WORDS).to_string()),
        Ty::Bool => V::Bool(rng.chance(1, 2)),
    }
}

pub fn gen_spec(rng: &mut Rng, name: &str, ncols: usize, with_pk: bool) -> TableSpec {
    let mut cols = vec![];
    for i in 0..ncols {
        let ty = *rng.pick(&[Ty::Int, Ty::Int, Ty::Float, Ty::Text, Ty::Text, Ty::Bool]);
        let null_pm = *rng.pick(&[0u64, 150, 150, 500]);
        let letter = match ty {
            Ty::Int => 'i',
            Ty::Float => 'f',
            Ty::Text => 't',
            Ty::Bool => 'b',
        };
        cols.push(ColSpec { name: format!("{}{}{}", letter, i, &name[name.len().saturating_sub(1)..]), ty, null_pm });
    }
    TableSpec { name: name.to_string(), cols, with_pk }
}

impl TableSpec {
    pub fn col_names(&self) -> Vec<String> {
        let mut v = vec![];
        if self.with_pk {
            v.push("id".to_string());
        }
        v.extend(self.cols.iter().map(|c| c.name.clone()));
        v
    }
    pub fn col_types(&self) -> Vec<Ty> {
        let mut v = vec![];
        if self.with_pk {
            v.push(Ty::Int);
        }
        v.extend(self.cols.iter().map(|c| c.ty));
        v
    }
    pub fn create_sql(&self) -> String {
        let mut parts = vec![];
        if self.with_pk {
            parts.push("id BIGINT PRIMARY KEY".to_string());
        }
        for c in &self.cols {
            parts.push(format!("{} {}", c.name, c.ty.sql()));
        }
        format!("CREATE TABLE {} ({})", self.name, parts.join(", "))
    }
    pub fn gen_rows(&self, rng: &mut Rng, n: usize) -> Vec<Row> {
        let mut rows = vec![];
        for i in 0..n {
            let mut r = vec![];
            if self.with_pk {
                r.push(V::Int(i as i64 + 1));
            }
            for c in &self.cols {
                r.push(gen_value(rng, c.ty, c.null_pm));
            }
            rows.push(r);
        }
        rows
    }
    pub fn insert_sql(&self, rows: &[Row]) -> Vec<String> {
        // a few rows per statement
        rows.chunks(5).map(|ch| format!("INSERT INTO {} VALUES {}", self.name, ch.iter().map(|r| format!("({})", r.iter().map(|v| v.sql()).collect::<Vec<_>>().join(", "))).collect::<Vec<_>>().join(", "))).collect()
    }
    pub fn to_mtable(&self, rows: Vec<Row>) -> MTable {
        MTable { name: self.name.clone(), cols: self.col_names(), rows }
    }
}

/// a column visible to the expression generator
#[derive(Clone, Debug)]
pub struct ScopeCol {
    pub tbl: Option<String>,
    pub name: String,
    pub ty: Ty,
}

pub fn scope_of(spec: &TableSpec, alias: Option<&str>) -> Vec<ScopeCol> {
    spec.col_names().into_iter().zip(spec.col_types()).map(|(name, ty)| ScopeCol { tbl: alias.map(|a| a.to_string()), name, ty }).collect()
}

fn col_e(c: &ScopeCol) -> E {
    E::Col { tbl: c.tbl.clone(), name: c.name.clone() }
}

/// which expression features the generator may use
#[derive(Clone, Debug)]
pub struct ExprOpts {
    pub not: bool,
    pub in_list: bool,
    pub between: bool,
    pub like: bool,
    pub is_null: bool,
    pub arith: bool,
    pub case: bool,
    pub null_literals: bool,
    pub int_float_mix: bool,
    pub funcs: bool,
}

impl ExprOpts {
    pub fn all() -> ExprOpts {
        ExprOpts { not: true, in_list: true, between: true, like: true, is_null: true, arith: true, case: false, null_literals: true, int_float_mix: true, funcs: false }
    }
    pub fn basic() -> ExprOpts {
        ExprOpts { not: false, in_list: false, between: false, like: false, is_null: true, arith: false, case: false, null_literals: false, int_float_mix: false, funcs: false }
    }
}

pub fn gen_num(rng: &mut Rng, scope: &[ScopeCol], depth: u32, o: &ExprOpts, want_float: bool) -> E {
    let nums: Vec<&ScopeCol> = scope.iter().filter(|c| (c.ty == Ty::Int && (!want_float || o.int_float_mix)) || (c.ty == Ty::Float && (want_float || o.int_float_mix))).collect();
    let r = rng.below(10);
    if depth == 0 || r < 5 || !o.arith {
        if !nums.is_empty() && rng.chance(2, 3) {
            return col_e(*rng.pick(&nums));
        }
        if o.null_literals && rng.chance(1, 25) {
            return E::Lit(V::Null);
        }
        return if want_float { E::Lit(V::Float(rng.range(-8, 20) as f64 / 4.0)) } else { E::Lit(V::Int(rng.range(-5, 12))) };
    }
    let op = *rng.pick(&[BinOp::Add, BinOp::Sub, BinOp::Mul, BinOp::Add, BinOp::Sub]);
    if rng.chance(1, 12) {
        return E::Neg(Box::new(gen_num(rng, scope, depth - 1, o, want_float)));
    }
    // multiplication only by small literals (keeps magnitudes far from overflow)
    if op == BinOp::Mul {
        return bin(op, gen_num(rng, scope, depth - 1, o, want_float), E::Lit(if want_float { V::Float(rng.range(-2, 3) as f64) } else { V::Int(rng.range(-3, 3)) }));
    }
    bin(op, gen_num(rng, scope, depth - 1, o, want_float), gen_num(rng, scope, depth - 1, o, want_float))
}

pub fn gen_text(rng: &mut Rng, scope: &[ScopeCol], o: &ExprOpts) -> E {
    let texts: Vec<&ScopeCol> = scope.iter().filter(|c| c.ty == Ty::Text).collect();
    if !texts.is_empty() && rng.chance(2, 3) {
        return col_e(*rng.pick(&texts));
    }
    if o.null_literals && rng.chance(1, 25) {
        return E::Lit(V::Null);
    }
    E::Lit(V::Text(rng.pick(WORDS).to_string()))
}

/// boolean expression tree
pub fn gen_pred(rng: &mut Rng, scope: &[ScopeCol], depth: u32, o: &ExprOpts) -> E {
    let r = rng.below(100);
    if depth > 0 && r < 35 {
        let op = if rng.chance(1, 2) { BinOp::And } else { BinOp::Or };
        return bin(op, gen_pred(rng, scope, depth - 1, o), gen_pred(rng, scope, depth - 1, o));
    }
    if depth > 0 && o.not && r < 50 {
        return E::Not(Box::new(gen_pred(rng, scope, depth - 1, o)));
    }
    // atoms
    let has_text = scope.iter().any(|c| c.ty == Ty::Text);
    let has_bool = scope.iter().any(|c| c.ty == Ty::Bool);
    let kind = rng.below(100);
    let cmp = *rng.pick(&[BinOp::Eq, BinOp::Ne, BinOp::Lt, BinOp::Le, BinOp::Gt, BinOp::Ge]);
    if kind < 40 {
        let f = rng.chance(1, 3);
        let a = gen_num(rng, scope, depth.min(2), o, f);
        let g = if o.int_float_mix && rng.chance(1, 4) { !f } else { f };
        let b = gen_num(rng, scope, depth.min(1), o, g);
        return bin(cmp, a, b);
    }
    if kind < 55 && has_text {
        return bin(cmp, gen_text(rng, scope, o), gen_text(rng, scope, o));
    }
    if kind < 65 && o.is_null {
        let c = rng.pick(scope);
        return E::IsNull(Box::new(col_e(c)), rng.chance(1, 2));
    }
    if kind < 75 && o.in_list {
        let neg = rng.chance(1, 2);
        if has_text && rng.chance(1, 3) {
            let n = rng.usize(1, 4);
            let mut l: Vec<E> = (0..n).map(|_| E::Lit(V::Text(rng.pick(WORDS).to_string()))).collect();
            if o.null_literals && rng.chance(1, 4) {
                l.push(E::Lit(V::Null));
            }
            return E::InList(Box::new(gen_text(rng, scope, o)), l, neg);
        }
        let n = rng.usize(1, 5);
        let mut l: Vec<E> = (0..n).map(|_| E::Lit(V::Int(rng.range(-5, 12)))).collect();
        if o.null_literals && rng.chance(1, 4) {
            l.push(E::Lit(V::Null));
        }
        return E::InList(Box::new(gen_num(rng, scope, 1, o, false)), l, neg);
    }
    if kind < 85 && o.between {
        let neg = rng.chance(1, 2);
        let lo = rng.range(-5, 8);
        let hi = lo + rng.range(-2, 8);
        // bounds are mostly literals; sometimes a (nullable) column or a NULL literal, so that the
        // three-valued cases "one comparison UNKNOWN, the other FALSE / TRUE" are reached
        let mut bound = |rng: &mut Rng, lit: i64| -> E {
            if rng.chance(1, 5) {
                gen_num(rng, scope, 0, o, false)
            } else if o.null_literals && rng.chance(1, 10) {
                E::Lit(V::Null)
            } else {
                E::Lit(V::Int(lit))
            }
        };
        let lo_e = bound(rng, lo);
        let hi_e = bound(rng, hi);
        return E::Between(Box::new(gen_num(rng, scope, 1, o, false)), Box::new(lo_e), Box::new(hi_e), neg);
    }
    if kind < 93 && o.like && has_text {
        let pats = ["a%", "%b", "%b%", "a_c", "_", "%", "ab%", "a%c", "", "__", "%a_"];
        let texts: Vec<&ScopeCol> = scope.iter().filter(|c| c.ty == Ty::Text).collect();
        return E::Like(Box::new(col_e(*rng.pick(&texts))), Box::new(E::Lit(V::Text(rng.pick(&pats).to_string()))), rng.chance(1, 3));
    }
    if has_bool && rng.chance(1, 2) {
        let bools: Vec<&ScopeCol> = scope.iter().filter(|c| c.ty == Ty::Bool).collect();
        let c = col_e(*rng.pick(&bools));
        return bin(BinOp::Eq, c, E::Lit(V::Bool(rng.chance(1, 2))));
    }
    bin(cmp, gen_num(rng, scope, 1, o, false), E::Lit(V::Int(rng.range(-5, 12))))
}

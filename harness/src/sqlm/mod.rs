//! Shared SQL machinery: values, expression/query AST with SQL rendering and a reference
//! evaluator (three-valued logic), result comparators, and thin wrappers around `turdb::Database`.
pub mod cmp;
pub mod db;
pub mod dml;
pub mod expr;
pub mod gen;
pub mod query;
pub mod val;

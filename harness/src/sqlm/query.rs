//! Query AST (SELECT / joins / GROUP BY / set operations), SQL rendering and the reference evaluator.
use super::expr::{Binding, Env, MErr, E};
use super::val::{row_key, Row, V};
use std::collections::{BTreeMap, BTreeSet, HashMap};

/// a model table: column names + rows (multiset)
#[derive(Clone, Debug, Default)]
pub struct MTable {
    pub name: String,
    pub cols: Vec<String>,
    pub rows: Vec<Row>,
}

#[derive(Clone, Copy, Debug, PartialEq, Eq, Hash)]
pub enum JoinKind {
    Inner,
    Left,
    Right,
    Full,
    Cross,
}

impl JoinKind {
    pub fn sql(&self) -> &'static str {
        match self {
            JoinKind::Inner => "INNER JOIN",
            JoinKind::Left => "LEFT JOIN",
            JoinKind::Right => "RIGHT JOIN",
            JoinKind::Full => "FULL OUTER JOIN",
            JoinKind::Cross => "CROSS JOIN",
        }
    }
}

#[derive(Clone, Debug)]
pub enum FromItem {
    Table { name: String, alias: Option<String> },
    Sub { query: Box<Query>, alias: String },
}

impl FromItem {
    pub fn alias(&self) -> String {
        match self {
            FromItem::Table { name, alias } => alias.clone().unwrap_or_else(|| name.clone()),
            FromItem::Sub { alias, .. } => alias.clone(),
        }
    }
    pub fn sql(&self) -> String {
        match self {
            FromItem::Table { name, alias: Some(a) } => format!("{} {}", name, a),
            FromItem::Table { name, alias: None } => name.clone(),
            FromItem::Sub { query, alias } => format!("({}) AS {}", query.sql(), alias),
        }
    }
}

#[derive(Clone, Debug)]
pub struct Join {
    pub kind: JoinKind,
    pub item: FromItem,
    pub on: Option<E>,
}

#[derive(Clone, Debug)]
pub enum Item {
    Star,
    Expr { e: E, alias: Option<String> },
}

#[derive(Clone, Debug)]
pub enum OrderKey {
    /// 1-based ordinal into the select list
    Ordinal(usize, bool),
    Expr(E, bool),
}

#[derive(Clone, Debug, Default)]
pub struct Select {
    pub distinct: bool,
    pub items: Vec<Item>,
    pub from: Vec<FromItem>,
    pub joins: Vec<Join>,
    pub where_: Option<E>,
    pub group_by: Vec<E>,
    pub having: Option<E>,
    pub order_by: Vec<OrderKey>,
    pub limit: Option<u64>,
    pub offset: Option<u64>,
}

#[derive(Clone, Copy, Debug, PartialEq, Eq, Hash)]
pub enum SetKind {
    Union,
    Intersect,
    Except,
}

#[derive(Clone, Debug)]
pub enum Query {
    Select(Select),
    SetOp { kind: SetKind, all: bool, left: Box<Query>, right: Box<Query>, order_by: Vec<OrderKey>, limit: Option<u64>, offset: Option<u64> },
}

fn order_sql(order_by: &[OrderKey]) -> String {
    if order_by.is_empty() {
        return String::new();
    }
    let ks: Vec<String> = order_by
        .iter()
        .map(|k| match k {
            OrderKey::Ordinal(i, d) => format!("{}{}", i, if *d { " DESC" } else { "" }),
            OrderKey::Expr(e, d) => format!("{}{}", e.sql(), if *d { " DESC" } else { " ASC" }),
        })
        .collect();
    format!(" ORDER BY {}", ks.join(", "))
}

fn limit_sql(limit: &Option<u64>, offset: &Option<u64>) -> String {
    let mut s = String::new();
    if let Some(l) = limit {
        s.push_str(&format!(" LIMIT {}", l));
    }
    if let Some(o) = offset {
        s.push_str(&format!(" OFFSET {}", o));
    }
    s
}

impl Select {
    pub fn sql(&self) -> String {
        let mut s = String::from("SELECT ");
        if self.distinct {
            s.push_str("DISTINCT ");
        }
        let items: Vec<String> = self
            .items
            .iter()
            .map(|i| match i {
                Item::Star => "*".to_string(),
                Item::Expr { e, alias: Some(a) } => format!("{} AS {}", e.sql(), a),
                Item::Expr { e, alias: None } => e.sql(),
            })
            .collect();
        s.push_str(&items.join(", "));
        if !self.from.is_empty() {
            s.push_str(" FROM ");
            s.push_str(&self.from.iter().map(|f| f.sql()).collect::<Vec<_>>().join(", "));
        }
        for j in &self.joins {
            s.push_str(&format!(" {} {}", j.kind.sql(), j.item.sql()));
            if let Some(on) = &j.on {
                s.push_str(&format!(" ON {}", on.sql()));
            }
        }
        if let Some(w) = &self.where_ {
            s.push_str(&format!(" WHERE {}", w.sql()));
        }
        if !self.group_by.is_empty() {
            s.push_str(&format!(" GROUP BY {}", self.group_by.iter().map(|e| e.sql()).collect::<Vec<_>>().join(", ")));
        }
        if let Some(h) = &self.having {
            s.push_str(&format!(" HAVING {}", h.sql()));
        }
        s.push_str(&order_sql(&self.order_by));
        s.push_str(&limit_sql(&self.limit, &self.offset));
        s
    }
}

impl Query {
    pub fn sql(&self) -> String {
        match self {
            Query::Select(s) => s.sql(),
            Query::SetOp { kind, all, left, right, order_by, limit, offset } => {
                let k = match kind {
                    SetKind::Union => "UNION",
                    SetKind::Intersect => "INTERSECT",
                    SetKind::Except => "EXCEPT",
                };
                format!("{} {}{} {}{}{}", left.sql(), k, if *all { " ALL" } else { "" }, right.sql(), order_sql(order_by), limit_sql(limit, offset))
            }
        }
    }
    pub fn features(&self, out: &mut BTreeSet<String>) {
        match self {
            Query::Select(s) => {
                if s.distinct {
                    out.insert("distinct".into());
                }
                if s.where_.is_some() {
                    out.insert("where".into());
                }
                if !s.group_by.is_empty() {
                    out.insert("group_by".into());
                }
                if s.having.is_some() {
                    out.insert("having".into());
                }
                if !s.order_by.is_empty() {
                    out.insert("order_by".into());
                }
                if s.limit.is_some() {
                    out.insert("limit".into());
                }
                if s.offset.is_some() {
                    out.insert("offset".into());
                }
                if s.from.len() > 1 {
                    out.insert("comma_join".into());
                }
                for j in &s.joins {
                    out.insert(format!("join:{:?}", j.kind).to_lowercase());
                }
                for f in s.from.iter().chain(s.joins.iter().map(|j| &j.item)) {
                    if let FromItem::Sub { query, .. } = f {
                        out.insert("derived_table".into());
                        query.features(out);
                    }
                }
                for i in &s.items {
                    if let Item::Expr { e, .. } = i {
                        e.features(out);
                    }
                }
                for e in s.where_.iter().chain(s.having.iter()).chain(s.group_by.iter()) {
                    e.features(out);
                }
                for j in &s.joins {
                    if let Some(on) = &j.on {
                        on.features(out);
                    }
                }
            }
            Query::SetOp { kind, all, left, right, .. } => {
                out.insert(format!("setop:{:?}{}", kind, if *all { "_all" } else { "" }).to_lowercase());
                left.features(out);
                right.features(out);
            }
        }
    }
}

/// result of the reference evaluator
#[derive(Clone, Debug)]
pub struct QResult {
    pub cols: Vec<String>,
    /// rows in model order (sorted if ORDER BY was given; tie order is the model's own and not binding)
    pub rows: Vec<Row>,
    /// when every ORDER BY key is an output column: (column index, desc) per key
    pub sort_cols: Option<Vec<(usize, bool)>>,
    /// rows BEFORE limit/offset was applied (the candidate bag for the window check); None if no limit/offset
    pub pre_window: Option<Vec<Row>>,
    pub limit: Option<u64>,
    pub offset: Option<u64>,
    pub ordered: bool,
}

fn frame_of(item: &FromItem, env: &mut Env) -> Result<(String, Vec<String>, Vec<Row>), MErr> {
    match item {
        FromItem::Table { name, .. } => {
            let t = env.tables.get(&name.to_lowercase()).ok_or_else(|| MErr::Error(format!("no table {}", name)))?;
            Ok((item.alias(), t.cols.clone(), t.rows.clone()))
        }
        FromItem::Sub { query, alias } => {
            let r = eval_query(query, env)?;
            Ok((alias.clone(), r.cols, r.rows))
        }
    }
}

fn null_binding(alias: &str, cols: &[String]) -> Binding {
    Binding { alias: alias.to_string(), cols: cols.to_vec(), row: vec![V::Null; cols.len()] }
}

pub fn eval_query(q: &Query, env: &mut Env) -> Result<QResult, MErr> {
    match q {
        Query::Select(s) => eval_select(s, env),
        Query::SetOp { kind, all, left, right, order_by, limit, offset } => {
            let l = eval_query(left, env)?;
            let r = eval_query(right, env)?;
            if l.cols.len() != r.cols.len() {
                return Err(MErr::Error("set operation column count mismatch".into()));
            }
            let mut out: Vec<Row> = vec![];
            let mut rcount: HashMap<String, usize> = HashMap::new();
            for row in &r.rows {
                *rcount.entry(row_key(row, true)).or_insert(0) += 1;
            }
            match (kind, all) {
                (SetKind::Union, true) => {
                    out.extend(l.rows.iter().cloned());
                    out.extend(r.rows.iter().cloned());
                }
                (SetKind::Union, false) => {
                    let mut seen = BTreeSet::new();
                    for row in l.rows.iter().chain(r.rows.iter()) {
                        if seen.insert(row_key(row, true)) {
                            out.push(row.clone());
                        }
                    }
                }
                (SetKind::Intersect, false) => {
                    let mut seen = BTreeSet::new();
                    for row in &l.rows {
                        let k = row_key(row, true);
                        if rcount.contains_key(&k) && seen.insert(k) {
                            out.push(row.clone());
                        }
                    }
                }
                (SetKind::Intersect, true) => {
                    for row in &l.rows {
                        let k = row_key(row, true);
                        if let Some(c) = rcount.get_mut(&k) {
                            if *c > 0 {
                                *c -= 1;
                                out.push(row.clone());
                            }
                        }
                    }
                }
                (SetKind::Except, false) => {
                    let mut seen = BTreeSet::new();
                    for row in &l.rows {
                        let k = row_key(row, true);
                        if !rcount.contains_key(&k) && seen.insert(k) {
                            out.push(row.clone());
                        }
                    }
                }
                (SetKind::Except, true) => {
                    for row in &l.rows {
                        let k = row_key(row, true);
                        match rcount.get_mut(&k) {
                            Some(c) if *c > 0 => *c -= 1,
                            _ => out.push(row.clone()),
                        }
                    }
                }
            }
            let mut res = QResult { cols: l.cols.clone(), rows: out, sort_cols: None, pre_window: None, limit: *limit, offset: *offset, ordered: false };
            // ORDER BY on set operations: ordinals or output column names only
            if !order_by.is_empty() {
                let mut keys = vec![];
                for k in order_by {
                    match k {
                        OrderKey::Ordinal(i, d) => keys.push((*i - 1, *d)),
                        OrderKey::Expr(E::Col { tbl: None, name }, d) => {
                            let i = res.cols.iter().position(|c| c.eq_ignore_ascii_case(name)).ok_or_else(|| MErr::Error("unknown order column".into()))?;
                            keys.push((i, *d));
                        }
                        _ => return Err(MErr::Unsupported("order by expression on set operation".into())),
                    }
                }
                sort_rows_by_cols(&mut res.rows, &keys);
                res.sort_cols = Some(keys);
                res.ordered = true;
            }
            apply_window(&mut res);
            Ok(res)
        }
    }
}

pub fn sort_rows_by_cols(rows: &mut Vec<Row>, keys: &[(usize, bool)]) {
    rows.sort_by(|a, b| {
        for (i, desc) in keys {
            let c = a[*i].order_cmp(&b[*i]);
            let c = if *desc { c.reverse() } else { c };
            if c != std::cmp::Ordering::Equal {
                return c;
            }
        }
        std::cmp::Ordering::Equal
    });
}

fn apply_window(res: &mut QResult) {
    if res.limit.is_some() || res.offset.is_some() {
        res.pre_window = Some(res.rows.clone());
        let off = res.offset.unwrap_or(0) as usize;
        let lim = res.limit.map(|l| l as usize).unwrap_or(usize::MAX);
        let rows: Vec<Row> = res.rows.iter().skip(off).take(lim).cloned().collect();
        res.rows = rows;
    }
}

fn eval_select(s: &Select, env: &mut Env) -> Result<QResult, MErr> {
    // 1. FROM: cross product of comma items, then joins left to right
    let mut frames: Vec<Vec<Binding>> = vec![vec![]];
    let mut shape: Vec<(String, Vec<String>)> = vec![];
    for item in &s.from {
        let (alias, cols, rows) = frame_of(item, env)?;
        let mut next = vec![];
        for f in &frames {
            for r in &rows {
                let mut nf = f.clone();
                nf.push(Binding { alias: alias.clone(), cols: cols.clone(), row: r.clone() });
                next.push(nf);
            }
        }
        frames = next;
        shape.push((alias, cols));
    }
    if s.from.is_empty() {
        // SELECT without FROM: one empty frame
    }
    for j in &s.joins {
        let (alias, cols, rows) = frame_of(&j.item, env)?;
        let mut next: Vec<Vec<Binding>> = vec![];
        let mut right_matched = vec![false; rows.len()];
        for f in &frames {
            let mut matched = false;
            for (ri, r) in rows.iter().enumerate() {
                let mut nf = f.clone();
                nf.push(Binding { alias: alias.clone(), cols: cols.clone(), row: r.clone() });
                let ok = match (&j.on, j.kind) {
                    (_, JoinKind::Cross) | (None, _) => true,
                    (Some(on), _) => {
                        env.frames.push(nf.clone());
                        let v = on.eval(env);
                        env.frames.pop();
                        v?.truth() == Some(true)
                    }
                };
                if ok {
                    matched = true;
                    right_matched[ri] = true;
                    next.push(nf);
                }
            }
            if !matched && matches!(j.kind, JoinKind::Left | JoinKind::Full) {
                let mut nf = f.clone();
                nf.push(null_binding(&alias, &cols));
                next.push(nf);
            }
        }
        if matches!(j.kind, JoinKind::Right | JoinKind::Full) {
            for (ri, r) in rows.iter().enumerate() {
                if !right_matched[ri] {
                    let mut nf: Vec<Binding> = shape.iter().map(|(a, c)| null_binding(a, c)).collect();
                    nf.push(Binding { alias: alias.clone(), cols: cols.clone(), row: r.clone() });
                    next.push(nf);
                }
            }
        }
        frames = next;
        shape.push((alias, cols));
    }
    // 2. WHERE
    if let Some(w) = &s.where_ {
        let mut kept = vec![];
        for f in frames {
            env.frames.push(f.clone());
            let v = w.eval(env);
            env.frames.pop();
            if v?.truth() == Some(true) {
                kept.push(f);
            }
        }
        frames = kept;
    }
    // output column names
    let mut cols: Vec<String> = vec![];
    for it in &s.items {
        match it {
            Item::Star => {
                for (_, c) in &shape {
                    cols.extend(c.iter().cloned());
                }
            }
            Item::Expr { e, alias } => cols.push(alias.clone().unwrap_or_else(|| match e {
                E::Col { name, .. } => name.clone(),
                other => other.sql(),
            })),
        }
    }
    let grouped = !s.group_by.is_empty() || s.having.is_some() || s.items.iter().any(|i| matches!(i, Item::Expr{e, ..} if e.has_agg()));
    // each output row together with the frame (or group) it came from, for ORDER BY expressions
    let mut out: Vec<(Row, Vec<V>)> = vec![];
    let order_exprs: Vec<&E> = s.order_by.iter().filter_map(|k| if let OrderKey::Expr(e, _) = k { Some(e) } else { None }).collect();
    // an ORDER BY expression that is a select item (same text) or names a select alias is read from the output row
    // (step 4) and must not be evaluated against the input frame, where an alias is not a column
    let has_star_item = s.items.iter().any(|it| matches!(it, Item::Star));
    let order_is_item: Vec<bool> = order_exprs
        .iter()
        .map(|e| !has_star_item && s.items.iter().any(|it| matches!(it, Item::Expr { e: ie, alias } if ie.sql() == e.sql() || alias.as_deref().map(|a| matches!(e, E::Col{tbl: None, name} if name.eq_ignore_ascii_case(a))).unwrap_or(false))))
        .collect();
    if grouped {
        // groups keyed by group-by values (NULLs form one group); no GROUP BY => a single group (even if empty)
        let mut groups: Vec<(Vec<V>, Vec<Vec<Binding>>)> = vec![];
        let mut index: HashMap<String, usize> = HashMap::new();
        if s.group_by.is_empty() {
            groups.push((vec![], frames.clone()));
        } else {
            for f in &frames {
                env.frames.push(f.clone());
                let mut key = vec![];
                let mut err = None;
                for g in &s.group_by {
                    match g.eval(env) {
                        Ok(v) => key.push(v),
                        Err(e) => {
                            err = Some(e);
                            break;
                        }
                    }
                }
                env.frames.pop();
                if let Some(e) = err {
                    return Err(e);
                }
                let k = row_key(&key, true);
                match index.get(&k) {
                    Some(i) => groups[*i].1.push(f.clone()),
                    None => {
                        index.insert(k, groups.len());
                        groups.push((key, vec![f.clone()]));
                    }
                }
            }
        }
        for (_key, members) in groups {
            // representative frame for non-aggregated column refs: first member (or all-NULL frame for an empty single group)
            let rep: Vec<Binding> = members.first().cloned().unwrap_or_else(|| shape.iter().map(|(a, c)| null_binding(a, c)).collect());
            let saved = env.group.replace(members);
            env.frames.push(rep);
            let r = (|| -> Result<Option<(Row, Vec<V>)>, MErr> {
                if let Some(h) = &s.having {
                    if h.eval(env)?.truth() != Some(true) {
                        return Ok(None);
                    }
                }
                let mut row = vec![];
                for it in &s.items {
                    match it {
                        Item::Star => return Err(MErr::Unsupported("* in grouped query".into())),
                        Item::Expr { e, .. } => row.push(e.eval(env)?),
                    }
                }
                let mut ok = vec![];
                for (e, is_item) in order_exprs.iter().zip(order_is_item.iter()) {
                    ok.push(if *is_item { V::Null } else { e.eval(env)? });
                }
                Ok(Some((row, ok)))
            })();
            env.frames.pop();
            env.group = saved;
            if let Some(x) = r? {
                out.push(x);
            }
        }
    } else {
        for f in frames {
            env.frames.push(f.clone());
            let r = (|| -> Result<(Row, Vec<V>), MErr> {
                let mut row = vec![];
                for it in &s.items {
                    match it {
                        Item::Star => {
                            for b in &f {
                                row.extend(b.row.iter().cloned());
                            }
                        }
                        Item::Expr { e, .. } => row.push(e.eval(env)?),
                    }
                }
                let mut ok = vec![];
                for (e, is_item) in order_exprs.iter().zip(order_is_item.iter()) {
                    ok.push(if *is_item { V::Null } else { e.eval(env)? });
                }
                Ok((row, ok))
            })();
            env.frames.pop();
            out.push(r?);
        }
    }
    // 3. DISTINCT
    if s.distinct {
        let mut seen = BTreeSet::new();
        out.retain(|(r, _)| seen.insert(row_key(r, true)));
    }
    // 4. ORDER BY
    let mut sort_cols: Option<Vec<(usize, bool)>> = None;
    let ordered = !s.order_by.is_empty();
    if ordered {
        // build sort key accessors
        let mut accessors: Vec<(Result<usize, usize>, bool)> = vec![]; // Ok(col idx) | Err(order_expr idx)
        let mut ei = 0;
        let mut all_cols = true;
        for k in &s.order_by {
            match k {
                OrderKey::Ordinal(i, d) => {
                    if *i == 0 || *i > cols.len() {
                        return Err(MErr::Error("ORDER BY ordinal out of range".into()));
                    }
                    accessors.push((Ok(*i - 1), *d));
                }
                OrderKey::Expr(e, d) => {
                    // an ORDER BY expression identical to a select item maps to that output column
                    let pos = s.items.iter().position(|it| matches!(it, Item::Expr { e: ie, alias } if ie.sql() == e.sql() || alias.as_deref().map(|a| matches!(e, E::Col{tbl: None, name} if name.eq_ignore_ascii_case(a))).unwrap_or(false)));
                    let has_star = s.items.iter().any(|it| matches!(it, Item::Star));
                    match pos {
                        Some(p) if !has_star => accessors.push((Ok(p), *d)),
                        _ => {
                            all_cols = false;
                            accessors.push((Err(ei), *d));
                        }
                    }
                    ei += 1;
                }
            }
        }
        out.sort_by(|a, b| {
            for (acc, desc) in &accessors {
                let (x, y) = match acc {
                    Ok(i) => (&a.0[*i], &b.0[*i]),
                    Err(i) => (&a.1[*i], &b.1[*i]),
                };
                let c = x.order_cmp(y);
                let c = if *desc { c.reverse() } else { c };
                if c != std::cmp::Ordering::Equal {
                    return c;
                }
            }
            std::cmp::Ordering::Equal
        });
        if all_cols {
            sort_cols = Some(accessors.iter().map(|(a, d)| (*a.as_ref().ok().unwrap(), *d)).collect());
        }
    }
    let mut res = QResult { cols, rows: out.into_iter().map(|(r, _)| r).collect(), sort_cols, pre_window: None, limit: s.limit, offset: s.offset, ordered };
    apply_window(&mut res);
    Ok(res)
}

/// convenience: evaluate a query against a table map
pub fn run_model(q: &Query, tables: &BTreeMap<String, MTable>) -> Result<QResult, MErr> {
    let mut env = Env::new(tables);
    eval_query(q, &mut env)
}

//! Model values + normalisation of TurDB's OwnedValue.
use serde_json::{json, Value as J};
use std::cmp::Ordering;
use turdb::OwnedValue;

#[derive(Clone, Debug)]
pub enum V {
    Null,
    Bool(bool),
    Int(i64),
    Float(f64),
    Text(String),
    Blob(Vec<u8>),
    /// something the model does not interpret (kept as debug text so bags still compare)
    Other(String),
}

impl V {
    pub fn is_null(&self) -> bool {
        matches!(self, V::Null)
    }
    pub fn from_owned(o: &OwnedValue) -> V {
        match o {
            OwnedValue::Null => V::Null,
            OwnedValue::Bool(b) => V::Bool(*b),
            OwnedValue::Int(i) => V::Int(*i),
            OwnedValue::Float(f) => V::Float(*f),
            OwnedValue::Text(s) => V::Text(s.clone()),
            OwnedValue::Blob(b) => V::Blob(b.clone()),
            other => V::Other(format!("{:?}", other)),
        }
    }
    pub fn to_owned_value(&self) -> OwnedValue {
        match self {
            V::Null => OwnedValue::Null,
            V::Bool(b) => OwnedValue::Bool(*b),
            V::Int(i) => OwnedValue::Int(*i),
            V::Float(f) => OwnedValue::Float(*f),
            V::Text(s) => OwnedValue::Text(s.clone()),
            V::Blob(b) => OwnedValue::Blob(b.clone()),
            V::Other(s) => OwnedValue::Text(s.clone()),
        }
    }
    pub fn as_f64(&self) -> Option<f64> {
        match self {
            V::Int(i) => Some(*i as f64),
            V::Float(f) => Some(*f),
            V::Bool(b) => Some(*b as i64 as f64),
            _ => None,
        }
    }
    pub fn is_numeric(&self) -> bool {
        matches!(self, V::Int(_) | V::Float(_))
    }
    /// truth value: Some(true/false) or None for NULL. Bool(b) and Int(0|1) are both truth values.
    pub fn truth(&self) -> Option<bool> {
        match self {
            V::Null => None,
            V::Bool(b) => Some(*b),
            V::Int(i) => Some(*i != 0),
            V::Float(f) => Some(*f != 0.0),
            _ => Some(true),
        }
    }
    /// SQL comparison; None if either is NULL or classes are incomparable
    pub fn sql_cmp(&self, o: &V) -> Option<Ordering> {
        match (self, o) {
            (V::Null, _) | (_, V::Null) => None,
            (V::Int(a), V::Int(b)) => Some(a.cmp(b)),
            (V::Text(a), V::Text(b)) => Some(a.as_bytes().cmp(b.as_bytes())),
            (V::Blob(a), V::Blob(b)) => Some(a.cmp(b)),
            (V::Bool(a), V::Bool(b)) => Some(a.cmp(b)),
            (a, b) if a.as_f64().is_some() && b.as_f64().is_some() => {
                // int vs float: compare exactly where possible
                match (a, b) {
                    (V::Int(i), V::Float(f)) => cmp_int_float(*i, *f),
                    (V::Float(f), V::Int(i)) => cmp_int_float(*i, *f).map(|x| x.reverse()),
                    _ => a.as_f64().unwrap().partial_cmp(&b.as_f64().unwrap()),
                }
            }
            _ => None,
        }
    }
    /// total order used for ORDER BY in the model: NULL lowest, then by sql_cmp; incomparable -> by class rank
    pub fn order_cmp(&self, o: &V) -> Ordering {
        match (self, o) {
            (V::Null, V::Null) => Ordering::Equal,
            (V::Null, _) => Ordering::Less,
            (_, V::Null) => Ordering::Greater,
            _ => self.sql_cmp(o).unwrap_or_else(|| self.class_rank().cmp(&o.class_rank())),
        }
    }
    fn class_rank(&self) -> u8 {
        match self {
            V::Null => 0,
            V::Bool(_) => 1,
            V::Int(_) | V::Float(_) => 2,
            V::Text(_) => 3,
            V::Blob(_) => 4,
            V::Other(_) => 5,
        }
    }
    /// canonical key for bag comparison. Truth values and integers share a class (Bool(true) == Int(1)),
    /// floats that are integral share the key of the integer (1.0 == 1) when `loose_num`.
    pub fn key(&self, loose_num: bool) -> String {
        match self {
            V::Null => "N".into(),
            V::Bool(b) => format!("I{}", *b as i64),
            V::Int(i) => format!("I{}", i),
            V::Float(f) => {
                if f.is_nan() {
                    "FNaN".into()
                } else if loose_num && f.fract() == 0.0 && f.abs() < 9.0e15 {
                    format!("I{}", *f as i64)
                } else {
                    // round to 9 significant digits (aggregation order is free)
                    format!("F{:.9e}", f)
                }
            }
            V::Text(s) => format!("T{}", s),
            V::Blob(b) => format!("B{}", b.iter().map(|x| format!("{:02x}", x)).collect::<String>()),
            V::Other(s) => format!("O{}", s),
        }
    }
    pub fn to_json(&self) -> J {
        match self {
            V::Null => J::Null,
            V::Bool(b) => json!(b),
            V::Int(i) => json!(i),
            V::Float(f) => {
                if f.is_finite() {
                    json!(f)
                } else {
                    json!(format!("{}", f))
                }
            }
            V::Text(s) => json!(s),
            V::Blob(b) => json!({"blob": b.iter().map(|x| format!("{:02x}", x)).collect::<String>()}),
            V::Other(s) => json!({"other": s}),
        }
    }
    /// SQL literal
    pub fn sql(&self) -> String {
        match self {
            V::Null => "NULL".into(),
            V::Bool(b) => if *b { "TRUE".into() } else { "FALSE".into() },
            V::Int(i) => {
                if *i < 0 {
                    format!("({})", i)
                } else {
                    format!("{}", i)
                }
            }
            V::Float(f) => {
                let s = if f.fract() == 0.0 && f.abs() < 1e15 { format!("{:.1}", f) } else { format!("{}", f) };
                if *f < 0.0 {
                    format!("({})", s)
                } else {
                    s
                }
            }
            V::Text(s) => format!("'{}'", s.replace('\'', "''")),
            V::Blob(b) => format!("x'{}'", b.iter().map(|x| format!("{:02x}", x)).collect::<String>()),
            V::Other(s) => s.clone(),
        }
    }
}

fn cmp_int_float(i: i64, f: f64) -> Option<Ordering> {
    if f.is_nan() {
        return None;
    }
    (i as f64).partial_cmp(&f)
}

pub type Row = Vec<V>;

pub fn row_key(r: &Row, loose: bool) -> String {
    r.iter().map(|v| v.key(loose)).collect::<Vec<_>>().join("\u{1}")
}

pub fn rows_json(rows: &[Row], max: usize) -> J {
    J::Array(rows.iter().take(max).map(|r| J::Array(r.iter().map(|v| v.to_json()).collect())).collect())
}

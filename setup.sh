#!/bin/sh
# MANIFEST.setup_cmd: build the native harness offline against /repo's working tree, hooks on.
set -e
cd /verif/harness
cp -f /repo/Cargo.lock Cargo.lock 2>/dev/null || true
CARGO_NET_OFFLINE=true RUSTFLAGS="--cfg kahflane_turdb_verif" cargo build --offline
mkdir -p /verif/evidence/stages /verif/replay /verif/scratch

#!/bin/bash
# usage: apply_series.sh <dir>   applies NN-*.diff in order to /repo, one commit each (message = leading '# ' lines)
set -e
for f in $(ls "$1"/*.diff | sort); do
  msg=$(grep '^#' "$f" | sed 's/^# \{0,1\}//')
  git -C /repo apply "$f"
  git -C /repo add -A src
  git -C /repo commit -q -m "$msg"
  echo "applied $(basename $f): $(git -C /repo log --format=%h -1)"
done
